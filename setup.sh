#!/bin/bash
# Offline setup: icontract + deal beside the repository's interpreter, byte-compile vmon.
set -e
cd "$(dirname "$0")"
PY=${VERIF_PYTHON:-/venv/bin/python}
if [ ! -d .deps/icontract ]; then
  (
    flock 9
    if [ ! -d .deps/icontract ]; then
      PIP_NO_INDEX=1 "$PY" -m pip install --quiet --no-index --find-links /opt/veriftools/wheels \
        --target .deps.tmp icontract deal >/dev/null 2>&1 || true
      if [ -d .deps.tmp/icontract ]; then rm -rf .deps; mv .deps.tmp .deps; else rm -rf .deps.tmp; fi
    fi
  ) 9>.deps.lock
fi
"$PY" -m compileall -q vmon >/dev/null 2>&1 || true
exit 0
