#!/usr/bin/env python3
"""add_open.py PROP [seeds...]: run the quick check for the seeds, collect the VIOLATION keys that are not
listed, and append the matching `open:` lines an engineer prepared in notes/PROP.md (or notes/patches/PROP/*.txt).
Keys without a prepared line are printed and nothing is added for them.  Lead's tool: never run by a check."""
import re, subprocess, sys, glob, os
prop = sys.argv[1]
seeds = sys.argv[2:] or ['0', '1', '2']
keys = set()
for s in seeds:
    out = subprocess.run(['./check', prop], cwd='/verif', env=dict(os.environ, VERIF_SEED=s), capture_output=True, text=True).stdout
    for m in re.finditer(r'^VIOLATION property=\S+ replay=\S+ key=(\S+) ::', out, re.M):
        keys.add(m.group(1))
    for l in out.splitlines():
        if l.startswith('INCONCLUSIVE'):
            print('seed', s, l[:200])
prepared = {}
for f in ['/verif/notes/%s.md' % prop] + glob.glob('/verif/notes/patches/%s/*.txt' % prop):
    if os.path.exists(f):
        for l in open(f):
            m = re.match(r'\s*(open: property=%s key=(\S+) :: .*)' % prop, l.rstrip('\n'))
            if m:
                prepared[m.group(2)] = m.group(1)
kf = open('/verif/KNOWN_FINDINGS.txt').read()
add, missing = [], []
for k in sorted(keys):
    if ('property=%s key=%s ' % (prop, k)) in kf:
        continue
    (add if k in prepared else missing).append(k)
with open('/verif/KNOWN_FINDINGS.txt', 'a') as f:
    for k in add:
        f.write(prepared[k] + '\n')
print(prop, 'unlisted keys seen:', len(add) + len(missing), 'added:', len(add))
for k in missing:
    print('  NO PREPARED LINE:', k)
