#!/bin/bash
# apply_patch.sh PROP K [test files...]   apply notes/patches/PROP/K.diff to /repo as one `fix:` commit
# (first line of the file: "# fix: message"); the named test files are run first, the commit is
# made only when they pass (tests/test_ray.py::RayTests::test_on_edge fails on the pinned tree: deselected)
PROP=$1; K=$2; shift 2
F=/verif/notes/patches/$PROP/$K.diff
MSG=$(head -1 "$F" | sed 's/^# *//')
case "$MSG" in fix:*) ;; *) echo "no fix: line in $F"; exit 2;; esac
cd /repo || exit 2
patch -p1 --dry-run < "$F" >/dev/null || { echo "DOES NOT APPLY: $F"; exit 2; }
patch -p1 --no-backup-if-mismatch < "$F" >/dev/null
if [ $# -gt 0 ]; then
  T=""; for t in "$@"; do T="$T tests/$t"; done
  env -u TRIMESH_VERIF /venv/bin/python -m pytest -q -p no:cacheprovider -n 6 --timeout=900 \
     --deselect tests/test_ray.py::RayTests::test_on_edge $T > /tmp/lead/apply_test.log 2>&1
  RC=$?; tail -2 /tmp/lead/apply_test.log
  if [ $RC -ne 0 ]; then echo "TESTS FAILED: reverting"; git checkout -- trimesh; exit 1; fi
fi
rm -f material.mtl material_0.png sphere.obj
git commit -qam "$MSG" && echo "COMMIT $(git rev-parse --short HEAD) $PROP/$K: $MSG"
echo "$PROP $K $(git rev-parse --short HEAD) $MSG" >> /verif/notes/patches/APPLIED.txt
