#!/usr/bin/env python3
"""audit_known.py PROP [seeds...]: open keys of PROP that no quick run of the given seeds reached."""
import re, subprocess, sys, os
prop = sys.argv[1]
seeds = sys.argv[2:] or ['0', '1', '2']
reached, listed = set(), set()
for l in open('/verif/KNOWN_FINDINGS.txt'):
    m = re.match(r'open: property=%s key=(\S+) ::' % prop, l)
    if m:
        listed.add(m.group(1))
for s in seeds:
    out = subprocess.run(['./check', prop], cwd='/verif', env=dict(os.environ, VERIF_SEED=s), capture_output=True, text=True).stdout
    for m in re.finditer(r'^KNOWN-FINDING: property=\S+ key=(\S+) (.*)$', out, re.M):
        if 'not reached this run' not in m.group(2):
            reached.add(m.group(1))
print(prop, 'open keys:', len(listed), 'reached:', len(reached & listed))
for k in sorted(listed - reached):
    print('  never reached:', k)
