#!/usr/bin/env python3
"""Regenerate MANIFEST.json from the table below; a property is claimed iff vmon/props/cXX.py exists."""
import json, os
ROOT = os.path.dirname(os.path.dirname(os.path.abspath(__file__)))
BASELINE = "cd /repo && env -u TRIMESH_VERIF /venv/bin/python -m pytest -ra -q -p no:cacheprovider --timeout=900 --continue-on-collection-errors"

T = {
 "C01": ("history + reference model: differential of every public value against a freshly rebuilt mesh after each mutator, cache-read probe",
         "Held on the enumerated (reads-before, mutator, reads-after) histories: every dynamically discovered cached/plain value and query answer of the mutated mesh equals a fresh reconstruction, and the arrays after a mutator equal those of the same history without reads; cache-probe shows the reads after mutation were served from a non-empty cache. Ill-conditioned values (decided by calibration twins) are counted, not judged. Mutators include edits through views, caller aliases, numpy out= routes and in-place edits of every result a read hands out. Library functions that take a mesh are also run as the FIRST access after a pending edit. Open: merge_vertices uses cached normals; numpy write routes the subclass cannot see.",
         "2/C01"),
 "C02": ("history + reference model: non-perturbing hash peek vs hash of bytes after every step of enumerated numpy programs",
         "Held on all programs of length <=2 per dtype, all view/hash/write templates, and sampled programs to length 4 (quick) / 6 (thorough), plus out= / C-level / buffer-protocol write routes, visual containers and a scan of library routes for second wrappers of tracked memory, except the listed open findings (numpy write routes that bypass the subclass, views the caller keeps); in-place operations that store and then raise.",
         "2/C02"),
 "C03": ("independent oracle: exact Fraction tetrahedron-decomposition integrals on integer-coordinate closed meshes",
         "Held on generated integer-coordinate closed meshes (placements down to 1e-6 units) and on read / copy / edit histories over families of cache-sharing copies: volume, centre of mass, inertia (about the stated or overridden centre), frame inertia, density linearity agree with exact rational integrals within a computed rounding bound; placements up to 1e15 from the origin are judged against the rounding of a translation-invariant evaluation, primitives by the density / override laws; near-rigid edit histories (scale 1 +- 1e-9..1e-4) and integer / float32 / list forms of every argument.",
         "2/C03"),
 "C04": ("independent oracle: homogeneous multiplication of pre-transform snapshots and the stated laws over geometry kinds x matrix classes",
         "Held on the matrix classes x geometry kinds table observed; each law (points, inverse, composition, winding, volume, centre of mass, area, inertia) checked on snapshots; primitives also through their parameters and reported values (a refused matrix must change nothing), curved paths against their own parametrisation, scenes of solids by the mesh laws; matrices within 1e-8 of the identity judged like any other.",
         "2/C04"),
 "C05": ("independent oracle: dict/tuple counting on raw faces, exhaustive small face arrays + random soups, both engines",
         "Held on every (n,3) face array over <=4 vertices and n<=2 (quick) / n<=3 (thorough) plus generated meshes and soups, with read order, primer reads and the way the mesh arrived at its faces (direct / inverted with a warm cache) varied per case; closed meshes also inside vertex arrays with unreferenced vertices; cap and needle faces, faces repeating a vertex and edges of three or more faces judged where docstring or every counting convention fixes the answer.",
         "2/C05"),
 "C06": ("independent oracle: Python dict keyed by tuples of unbounded ints; threshold-straddling magnitudes, collision partners, exhaustive small arrays",
         "Held on generated integer/float rows around every packing threshold and exhaustive short sequences for blocks/merge_runs/group etc.; six memory layouts, empty input, digits on integers and as numpy scalars, floats beyond 2^63 / infinite / float16 / float32, float ramps.",
         "2/C06"),
 "C07": ("provenance tagging: unique ids on every face and vertex followed through each re-indexing operation",
         "Held on tagged meshes through every re-indexing operation and option grid observed: masks of every integer dtype, colour states reached by assignment or by a history, magnitudes up to 1e15, operations that return meshes run as steps of a caller's history; data that must be carried (attributes, assigned normals, face_materials), repair option judged strictly, derived values read before the operation, recurring materials through pack, numpy-integer digits.",
         "2/C07"),
 "C08": ("round-trip differential through a per-format quantiser; export immutability by hash and bytes",
         "Held on the format x option x geometry-class table observed (incl. svg scenes, non-cubic voxel boxes, renamed base frames, tiny offsets, special node names, paths with curves through dict, ascii ply at float32 precision), except the listed 3MF export findings.",
         "2/C08"),
 "C09": ("history + reference model: dict forest vs SceneGraph after every operation; icontract invariants on EnforcedForest",
         "Held on all enumerated short histories and random histories to length 12, queries at every position; caller-owned buffers overwritten after every update, single-precision edges judged inside the repair band, edge lists loaded into already queried graphs; frame names with equal builtin hashes, loop-closing updates (refusal or a forest), graphs built with repair_rigid=None; assignments close to the stored matrix and jog histories judged at a tenth of the step.",
         "2/C09"),
 "C10": ("independent oracle: explicit placement of every instance with world matrices from the reference forest",
         "Held on generated scenes (exact, single-precision and nanometre-unit regimes) and edit histories for every scene-level quantity and derived scene, incl. two-step derivations, shared geometry objects and copy-then-edit; primitives, voxel grids, arcs and unreferenced vertices as members, subscenes of instanced frames, factors next to one; derived operations run again after a frame was added, apply_translation / apply_scale routes.",
         "2/C10"),
 "C11": ("independent oracle: exact per-triangle clipping (Fractions) giving expected segments and positive-side area; special plane placements",
         "Held on meshes x planes incl. all sign patterns, near-vertex planes, short normals, sub-grid sections, face subsets (index and boolean) alone and with several planes, and call histories on one mesh; section segments, slice areas, cap volumes and watertightness; planes within tol.merge of a vertex, sizes 2^-17 .. 2^30, one-plane cap sweeps, planes that cut nothing, vertex edits between two calls with the same plane; except the listed earcut / branching-outline findings.",
         "2/C11"),
 "C12": ("independent oracle: brute force over all triangles with a general-position filter; solid-angle winding number; project-and-clamp closest point",
         "Held on generated meshes (incl. zero-area faces inside the face list) x rays/points (incl. short directions, repeated and converging rays) and query-edit-query histories for both engines at the scale classes not listed as findings (plate stacks, touching solids, origins 1e7 sizes away, scales 1e-5 .. 1e12).",
         "2/C12"),
 "C13": ("reference model: the dense numpy array; class-chain x read table; exhaustive short sequences for run-length codecs",
         "Held on every 0/1 sequence to length 12 (16 thorough), long runs per count dtype (uint8..uint64), encoding chains x reads x read histories (again / base after view), VoxelGrid maps with query-move-query, binvox round trip over every shape x transform class, encodings replaced through the setter, declared dtypes, negative / list / unsigned indices.",
         "2/C13"),
 "C14": ("metamorphic + exact oracle: shoelace area/perimeter in Fractions; presentation invariance; differential against fresh path after transforms",
         "Held on generated drawings (incl. horseshoe curves with curves in their bays) x presentations x transforms (incl. negative apply_scale, drawings scaled to 1e-9) x reads, and DXF/SVG/dict round trips; fillets next to the merge grid, far placements, shallow and major arcs, declared units, sizes above 1e6, similarities within 1e-9..1e-4 of one judged at 2e-11; nesting of curves closer than the chord sagitta is a listed finding.",
         "2/C14"),
 "C15": ("independent oracle: closed forms of inscribed tessellations, bounded monotone convergence, exact inertia; primitive edit histories vs fresh primitive",
         "Held on creation functions x parameter grids x placements and primitive edit sequences (incl. parameters trading values, hash twins, caller-owned buffers); sizes 1e-7 .. 1e12, aspect ratios 1e+-9, open-ring profiles, near-straight sweeps; parameter write routes past the tracked array are listed findings.",
         "2/C15"),
 "C16": ("independent oracle: half-space containment, recomputed convexity, rigid OBB laws, Welzl minimal sphere",
         "Held on point-set classes x bounding volumes observed and on move / copy / edit histories; minimality judged where the minimal sphere has 4 support points; near-coincident extreme points, mirrored primitives, non-spanning input far from the origin, QJ option, reads of other cached properties before the query, inputs of 530-3000 points.",
         "2/C16"),
 "C17": ("history + deep snapshots + object-graph aliasing walker",
         "Held on geometry kinds x states (fresh, warm, reached by a history before the copy) x copy routes x edits of either side; shared writable arrays found by the walker are confirmed by writing through them; cache-keeping copies (lists, graphs, sparse matrices, kdtree), deep copies after proximity queries, lights, camera parameters, visual vertex data, material parameters incl. boundary values.",
         "2/C17"),
 "C18": ("independent oracle: invariants before/after; all re-winding subsets of small solids enumerated",
         "Held on subdivision, normal repair (method, function, process(validate=True), constructor) over every re-winding subset of small solids in units from 1 down to 3e-6, and hole filling cases incl. meshes that arrive through query + invert, hole meshes in small units, solids with fewer than 8 faces, bodies sharing a vertex, punctured meshes, cached reads before the repair, size bounds next to the merge grid (method equals function).",
         "2/C18"),
 "C19": ("independent oracle: elementary rotations per convention, textbook quaternion algebra, explicit homogeneous products",
         "Held on 24 conventions x angle grids incl. gimbal, quaternion / axis-angle / compose-decompose round trips; results of conversions are the caller's (same arguments twice, first result edited); angles 1e-9 .. pi, near-gimbal ladder 3e-15 .. 1e-6, axis lengths 1e+-100, integer point dtypes.",
         "2/C19"),
 "C20": ("fault injection + process monitor: mutated exporter output loaded in resource-limited children; open-file monitor",
         "Every enumerated fault (truncations, substitutions, field inflation, chunk ops, splices, noise, repeated blocks, zip members re-packed, id copies, JSON slot faults, asset references redirected) over each loader and entry point (file object, name, name + type, pathlib; multi-file models with their companions) ended in geometry or an ordinary exception within CPU/memory bounds with all self-opened files closed, and well-formed files grown along one structural dimension (instance graphs, record counts, line lengths) stayed within the same linear bounds (incl. the name shapes of repeated records), except the listed open findings.",
         "2/C20"),
}
LEVEL = {"C20": "fault_enumeration"}
NOTE = "Trusted base: CPython 3.12, numpy/scipy and the harness oracles; verdict is about the executions observed (see evidence), not a proof."

def main():
    checks, na = [], []
    for pid in sorted(T):
        tech, text, ref = T[pid]
        ready = set(open(os.path.join(ROOT, "tools", "ready.txt")).read().split())
        if pid in ready and os.path.exists(os.path.join(ROOT, "vmon", "props", pid.lower() + ".py")):
            checks.append({
                "property_id": pid,
                "quick_cmd": "./check %s --tier quick" % pid,
                "thorough_cmd": "./check %s --tier thorough" % pid,
                "evidence_file": "evidence/%s.json" % pid,
                "replay_cmd_template": "./check %s --replay {path}" % pid,
                "engine": "vmon",
                "level_claimed": {"category": LEVEL.get(pid, "exploration"), "text": text, "design_ref": "DESIGN.md section " + ref},
                "level_note": NOTE,
                "technique": "runtime monitoring - " + tech,
            })
        else:
            na.append({"property_id": pid, "reason": "monitor designed (DESIGN.md) but not built yet; not claimed until its check exists and is silent on the unchanged tree"})
    m = {
        "version": 1,
        "setup_cmd": "./setup.sh",
        "hooks": {
            "guard": "TRIMESH_VERIF",
            "enable": "no source hooks: all instrumentation (sys.monitoring anchor probe, cache-read probe, icontract contracts, open() monitor) is attached from /verif at run time; ./check exports TRIMESH_VERIF=1 and imports /repo's working tree (editable install)",
            "baseline_off_cmd": BASELINE,
            "source_commits": [],
            "add_only": True,
        },
        "engines": [{"name": "vmon", "path": "vmon/", "serves_properties": [c["property_id"] for c in checks],
                     "kind_free_text": "Python runtime monitors: workload generators, reference models / independent oracles, sys.monitoring probes, icontract invariants, child-process fault injection"}],
        "checks": checks,
        "not_applicable": na,
        "notes": "See DESIGN.md. Exit codes: 0 held on what was observed, 1 violation (VIOLATION line), 2 inconclusive. Known findings: KNOWN_FINDINGS.txt.",
    }
    with open(os.path.join(ROOT, "MANIFEST.json"), "w") as f:
        json.dump(m, f, indent=1); f.write("\n")
    print("claimed", len(checks), "not claimed", len(na))
main()
