#!/usr/bin/env python3
"""mark_fixed.py <prop> <commit> <regex on key> <what failed>: drop matching open lines, add one fixed line."""
import re, sys
prop, commit, rx, text = sys.argv[1:5]
p = '/verif/KNOWN_FINDINGS.txt'
L = open(p).read().split('\n')
out, n, pos = [], 0, None
for i, l in enumerate(L):
    m = re.match(r'open: property=(\S+) key=(\S+) ::', l)
    if m and m.group(1) == prop and re.search(rx, m.group(2)):
        n += 1
        if pos is None:
            pos = len(out)
        continue
    out.append(l)
line = 'fixed: property=%s %s %s' % (prop, commit, text)
if pos is None:
    out.append(line)
else:
    out.insert(pos, line)
open(p, 'w').write('\n'.join(out))
print(prop, 'removed', n, 'open lines')
