#!/bin/bash
# recheck_seed.sh <seed-id> [extra props ...]
# Re-runs the registered quick checks of the *current* /verif against a stored seeded change:
# fresh scratch worktree of /repo HEAD under /tmp, git apply seeded/<id>/patch.diff, demo,
# ./check <PROP> (+ extra) with VERIF_REPO, worktree removed.  Writes seeded/<id>/recheck.txt.
# (The whole repository suite is run only by validate_seed.sh when a change first arrives.)
set -u
SID=$1; shift
EXTRA="$@"
PROP=${SID%%-*}
SD=/verif/seeded/$SID
[ -f "$SD/patch.diff" ] || { echo "no patch for $SID"; exit 2; }
WT=$(mktemp -d /tmp/seedwt.XXXXXX); rmdir "$WT"
git -C /repo worktree add -q --detach "$WT" HEAD || exit 2
trap 'git -C /repo worktree remove --force "$WT" >/dev/null 2>&1; rm -rf "$WT"' EXIT
if ! git -C "$WT" apply "$SD/patch.diff" 2>/tmp/lead/apply_$SID.err; then
  # the library moved on under the stored patch (usually a repair of the very site): keep the last
  # transcript that could be taken, note the fact next to it
  echo "$SID: patch does not apply to repo HEAD $(git -C /repo rev-parse --short HEAD): $(head -2 /tmp/lead/apply_$SID.err)" | tee "$SD/recheck.na.txt"; exit 3
fi
DEMO="n/a"
if [ -f "$SD/demo.py" ]; then
  ( cd "$SD" && PYTHONPATH="$WT" timeout 600 /venv/bin/python demo.py >/dev/null 2>&1 ); DEMO=$?
fi
if [ "$DEMO" = "0" ]; then
  # the stored change no longer breaks the property on this tree (a later repair of the library made it
  # harmless): keep the last transcript taken while it did, note the fact next to it
  echo "$SID: the change applies to repo HEAD $(git -C /repo rev-parse --short HEAD) but its demonstration exits 0: neutralised by a repair of the library" | tee "$SD/recheck.na.txt"; exit 4
fi
{
  echo "repo HEAD: $(git -C /repo rev-parse --short HEAD)   verif HEAD: $(git -C /verif rev-parse --short HEAD)"
  echo "demo with the change: exit $DEMO (expected non-zero)"
  for P in $PROP $EXTRA; do
    R=$(cd /verif && VERIF_REPO="$WT" ./check $P 2>&1 | grep -E "^VIOLATION|^SUMMARY|^INCONCLUSIVE" | cut -c1-260)
    NV=$(echo "$R" | grep -c "^VIOLATION")
    echo "--- ./check $P (quick): $NV VIOLATION lines"
    echo "$R" | grep -v "^SUMMARY" | head -4
  done
} > "$SD/recheck.txt" 2>&1
( cd "$WT" && rm -f material.mtl material_0.png sphere.obj shape )
echo "$SID $(grep -E '^--- ' "$SD/recheck.txt" | sed 's/--- .\/check //; s/ (quick)//; s/ VIOLATION lines//' | tr '\n' ';') demo=$DEMO"
