#!/usr/bin/env python3
"""Append a `fixed:` line to KNOWN_FINDINGS.txt for every repair listed in notes/patches/APPLIED.txt
(written by tools/apply_patch.sh) that is not recorded yet."""
import re
kf = open('/verif/KNOWN_FINDINGS.txt').read()
out = []
for line in open('/verif/notes/patches/APPLIED.txt'):
    prop, k, commit, msg = line.rstrip('\n').split(' ', 3)
    if re.search(r'^fixed: property=%s %s ' % (prop, commit), kf, re.M):
        continue
    msg = re.sub(r'^fix:\s*', '', msg)
    out.append('fixed: property=%s %s %s (round 4, notes/patches/%s/%s.diff)' % (prop, commit, msg, prop, k))
if out:
    with open('/verif/KNOWN_FINDINGS.txt', 'a') as f:
        if not kf.endswith('\n'):
            f.write('\n')
        f.write('\n'.join(out) + '\n')
print(len(out), 'fixed lines added')
