#!/usr/bin/env python3
"""Write seeded/<id>/meta.json from the validation / recheck transcripts and print the catch matrix.

validation.first.txt  transcript of tools/validate_seed.sh when the change arrived and was MISSED
validation.txt        transcript of tools/validate_seed.sh (arrival, or re-run after strengthening)
recheck.txt           transcript of tools/recheck_seed.sh: the current monitors against the stored patch
"""
import glob
import json
import os
import re

ROOT = '/verif/seeded'
props = {json.loads(l)['id']: json.loads(l) for l in open('/verif/properties.jsonl')}


def parse(path):
    if not os.path.exists(path):
        return None
    t = open(path).read()
    d = {}
    m = re.search(r'demo on unchanged tree: exit (\d+)', t)
    d['demo_unchanged_exit'] = int(m.group(1)) if m else None
    m = re.search(r'demo with the change:\s+exit (\d+)', t)
    d['demo_changed_exit'] = int(m.group(1)) if m else None
    m = re.search(r'repository suite with the change: (.*)', t)
    d['repository_suite'] = m.group(1).strip() if m else None
    m = re.search(r'unexpected failures: (.*)', t)
    d['unexpected_test_failures'] = m.group(1).strip() if m else None
    m = re.search(r'repo HEAD: (\S+)\s+verif HEAD: (\S+)', t)
    d['heads'] = {'repo': m.group(1), 'verif': m.group(2)} if m else None
    d['checks'] = {}
    for m in re.finditer(r'--- ./check (C\d+) \(quick\): (\d+) VIOLATION lines', t):
        d['checks'][m.group(1)] = int(m.group(2))
    d['keys'] = re.findall(r'key=(\S+)', t)[:4]
    return d


rows = []
for sd in sorted(glob.glob(ROOT + '/C*-*')):
    sid = os.path.basename(sd)
    pid = sid.split('-')[0]
    val = parse(sd + '/validation.txt')
    first = parse(sd + '/validation.first.txt')
    re_ = parse(sd + '/recheck.txt')
    base = val or first
    if base is None:
        continue
    arrival = first or val
    now = dict((val or first)['checks'])
    if first and val:
        now.update(val['checks'])
    if re_:
        now.update(re_['checks'])
    keys = (re_ or {}).get('keys') or (val or {}).get('keys') or []
    readme = open(sd + '/README.seeder.md').read() if os.path.exists(sd + '/README.seeder.md') else ''
    caught_by = sorted(p for p, n in now.items() if n > 0)
    arr_by = sorted(p for p, n in arrival['checks'].items() if n > 0)
    meta = {
        'id': sid, 'breaks_property': pid, 'title': props[pid]['title'],
        'round': next((n for n in (2, 3, 4, 5) if '-r%d-' % n in sid), 1),
        'origin': 'written by a fresh sub-agent that was given only the text of the property and a scratch worktree of /repo (nothing from /verif)',
        'files': {'patch': 'patch.diff', 'demonstration': 'demo.py', 'seeder_notes': 'README.seeder.md',
                  'validation': [f for f in ('validation.first.txt', 'validation.txt', 'recheck.txt') if os.path.exists(sd + '/' + f)]},
        'needs_to_manifest': readme.strip()[:1500],
        'confirmed': {
            'demo_exit_unchanged_tree': base['demo_unchanged_exit'], 'demo_exit_with_change': base['demo_changed_exit'],
            'repository_suite_with_change': base['repository_suite'], 'unexpected_test_failures': base['unexpected_test_failures'],
            'how': 'tools/validate_seed.sh: demo on the clean worktree, git apply, demo again, whole pytest suite with the change (-n 8), '
                   'then ./check <ID> with VERIF_REPO=<worktree>, git checkout; tools/recheck_seed.sh re-runs the current checks against the stored patch'},
        'detection': {
            'on_arrival': {'quick_checks_run': arrival['checks'], 'caught_by_own_check': arrival['checks'].get(pid, 0) > 0, 'caught_by': arr_by},
            'now': {'quick_checks_run': now, 'caught_by_own_check': now.get(pid, 0) > 0, 'caught_by': caught_by,
                    'example_violation_keys': keys, 'heads': (re_ or {}).get('heads')},
        },
    }
    if os.path.exists(sd + '/NOTE.md'):
        meta['note'] = open(sd + '/NOTE.md').read().strip()
    json.dump(meta, open(sd + '/meta.json', 'w'), indent=1)
    rows.append((sid, 'caught' if arrival['checks'].get(pid, 0) > 0 else ('other:' + ','.join(arr_by) if arr_by else 'missed'),
                 ','.join(caught_by) or 'MISSED'))
import sys
if '--markdown' in sys.argv:
    rnd = [a for a in sys.argv if a.startswith('r')]
    for sid, first, now in rows:
        if rnd and ('-%s-' % rnd[0]) not in sid:
            continue
        rd = ROOT + '/' + sid + '/README.seeder.md'
        head = ''
        if os.path.exists(rd):
            for line in open(rd):
                line = line.strip().lstrip('#').strip()
                if line:
                    head = re.sub(r'^(Seed|Change|C\d+)[^:]*:\s*', '', line)[:150]
                    break
        print('| %s | %s | %s | %s |' % (sid, head.replace('|', '/'), first.replace('other:', 'other: '), now.replace(',', ', ')))
    sys.exit(0)
for r in rows:
    print('%-10s first=%-14s now=%s' % r)
print(len(rows), 'seeds;', sum(1 for r in rows if r[1] == 'caught'), 'caught by their own check on arrival;',
      sum(1 for r in rows if r[2] != 'MISSED'), 'caught now')
