#!/usr/bin/env python3
"""Write seeded/<id>/meta.json from the validation transcripts."""
import json, os, re, glob
ROOT='/verif/seeded'
props={json.loads(l)['id']:json.loads(l) for l in open('/verif/properties.jsonl')}
def parse(path):
    if not os.path.exists(path): return None
    t=open(path).read()
    d={}
    m=re.search(r'demo on unchanged tree: exit (\d+)',t); d['demo_unchanged_exit']=int(m.group(1)) if m else None
    m=re.search(r'demo with the change:\s+exit (\d+)',t); d['demo_changed_exit']=int(m.group(1)) if m else None
    m=re.search(r'repository suite with the change: (.*)',t); d['repository_suite']=m.group(1).strip() if m else None
    m=re.search(r'unexpected failures: (.*)',t); d['unexpected_test_failures']=m.group(1).strip() if m else None
    d['checks']={}
    for m in re.finditer(r'--- ./check (C\d+) \(quick\): (\d+) VIOLATION lines',t):
        d['checks'][m.group(1)]=int(m.group(2))
    keys=re.findall(r'key=(\S+)',t)
    d['example_keys']=keys[:4]
    return d
for sd in sorted(glob.glob(ROOT+'/C*-*')):
    sid=os.path.basename(sd); pid=sid.split('-')[0]
    final=parse(sd+'/validation.txt'); first=parse(sd+'/validation.first.txt')
    if final is None: continue
    readme=open(sd+'/README.seeder.md').read() if os.path.exists(sd+'/README.seeder.md') else ''
    caught_by=[p for p,n in final['checks'].items() if n>0]
    meta={
      'id':sid,'breaks_property':pid,'title':props[pid]['title'],
      'origin':'written by a fresh sub-agent that was given only the text of the property and a scratch worktree of /repo (nothing from /verif)',
      'files':{'patch':'patch.diff','demonstration':'demo.py','seeder_notes':'README.seeder.md','validation':'validation.txt'},
      'needs_to_manifest':readme.strip()[:1500],
      'confirmed':{'demo_exit_unchanged_tree':final['demo_unchanged_exit'],'demo_exit_with_change':final['demo_changed_exit'],
                   'repository_suite_with_change':final['repository_suite'],'unexpected_test_failures':final['unexpected_test_failures'],
                   'how':'tools/validate_seed.sh: demo on the clean worktree, git apply, demo again, whole pytest suite with the change (-n 8), then ./check <ID> with VERIF_REPO=<worktree>, git checkout'},
      'detection':{'quick_checks_run':final['checks'],'caught_by':caught_by,'caught':bool(caught_by),'example_violation_keys':final['example_keys']},
    }
    if first is not None:
        meta['detection']['first_attempt']={'quick_checks_run':first['checks'],'caught':any(n>0 for n in first['checks'].values())}
        meta['detection']['note']='missed by the checks as they were when the change arrived; the monitor was strengthened (see DESIGN.md section 8) and the change re-run'
    json.dump(meta,open(sd+'/meta.json','w'),indent=1)
    print(sid, 'caught' if caught_by else 'MISSED', caught_by, '(first: %s)'%('caught' if first and any(n>0 for n in first['checks'].values()) else ('missed' if first else '-')))
