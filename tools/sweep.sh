#!/bin/bash
# sweep.sh "<seeds>" "<props>" [tier]  -> runs quick checks, 4 at a time, prints verdict lines
SEEDS=${1:-"0 1 2"}; PROPS=${2:-"C01 C02 C03 C04 C05 C06 C07 C08 C09 C10 C11 C12 C13 C14 C15 C16 C17 C18 C19 C20"}
cd /verif
for s in $SEEDS; do
  for p in $PROPS; do echo "$s $p"; done
done | xargs -P ${PAR:-4} -L1 bash -c 'r=$(VERIF_SEED=$0 ./check $1 2>&1 | grep -E "^VIOLATION|^SUMMARY|^INCONCLUSIVE" | cut -c1-240); echo "--- seed=$0 $1"; echo "$r"'
