#!/bin/bash
# val_r4.sh PROP...  validate both round-4 seeds of each property, sequentially
cd /verif
for P in "$@"; do
  for k in 1 2; do
    [ -f /tmp/seedr4_$P/SEED/$k/patch.diff ] || continue
    TAG=r4 tools/validate_seed.sh $P /tmp/seedr4_$P $k > /tmp/lead/val_r4_$P-$k.log 2>&1
    echo "$P-r4-$k own=$(grep -A0 -- "--- ./check $P " /tmp/lead/val_r4_$P-$k.log | head -1 | sed 's/.*: //') demo=$(grep 'demo with' /tmp/lead/val_r4_$P-$k.log | sed 's/.*exit //') suite=$(grep 'repository suite' /tmp/lead/val_r4_$P-$k.log | cut -c35-80) unexpected=$(grep 'unexpected' /tmp/lead/val_r4_$P-$k.log | cut -c22-120)" >> /tmp/lead/val_r4_summary.txt
  done
done
