#!/bin/bash
# validate_seed.sh <PROP> <worktree> <k> [extra props to run ...]
# Confirms an independently seeded change: the demonstration passes on the unchanged tree and
# fails with the change, the repository's whole test suite still passes with the change, and
# reports what the registered checks say about it.  Writes /verif/seeded/<PROP>-<k>/.
set -u
PROP=$1; WT=$2; K=$3; shift 3
EXTRA="$@"
SD="$WT/${SEEDDIR:-SEED}/$K"
OUT=/verif/seeded/$PROP-${TAG:+$TAG-}$K
[ -f "$SD/patch.diff" ] || { echo "no patch at $SD"; exit 2; }
git -C "$WT" checkout -q -- . 2>/dev/null
git -C "$WT" status --short | grep -v '^??' && { echo "worktree dirty"; exit 2; }
mkdir -p "$OUT"
cp "$SD/patch.diff" "$OUT/patch.diff"; cp "$SD/demo.py" "$OUT/demo.py" 2>/dev/null; cp "$SD/README.md" "$OUT/README.seeder.md" 2>/dev/null
# 1. demo on the unchanged tree
( cd "$SD" && PYTHONPATH="$WT" timeout 600 /venv/bin/python demo.py >/tmp/lead/demo_clean_$PROP.log 2>&1 ); CLEAN=$?
# 2. apply
git -C "$WT" apply "$SD/patch.diff" || { echo "patch does not apply"; exit 2; }
( cd "$SD" && PYTHONPATH="$WT" timeout 600 /venv/bin/python demo.py >/tmp/lead/demo_seeded_$PROP.log 2>&1 ); SEEDED=$?
# 3. whole repository suite with the change
( cd "$WT" && env -u TRIMESH_VERIF PYTHONPATH="$WT" timeout 3000 /venv/bin/python -m pytest -q -p no:cacheprovider --timeout=900 --continue-on-collection-errors -n 8 > /tmp/lead/seed_suite_$PROP.log 2>&1 )
SUITE=$(tail -1 /tmp/lead/seed_suite_$PROP.log)
FAILED=$(grep -E "^FAILED|^ERROR" /tmp/lead/seed_suite_$PROP.log | grep -v "test_on_edge" | head -5)
# 4. registered checks against the changed tree
RES=""
for P in $PROP $EXTRA; do
  R=$(cd ${VERIF_DIR:-/verif} && VERIF_REPO="$WT" ./check $P 2>&1 | grep -E "^VIOLATION|^SUMMARY|^INCONCLUSIVE" | cut -c1-260)
  NV=$(echo "$R" | grep -c "^VIOLATION")
  RES="$RES\n--- ./check $P (quick): $NV VIOLATION lines\n$(echo "$R" | head -6)"
done
git -C "$WT" checkout -q -- .
( cd "$WT" && rm -f material.mtl material_0.png sphere.obj shape models/shape models/sphere.obj models/material.mtl models/material_0.png )
{
  echo "demo on unchanged tree: exit $CLEAN (expected 0)"
  echo "demo with the change:   exit $SEEDED (expected non-zero)"
  echo "repository suite with the change: $SUITE"
  echo "unexpected failures: ${FAILED:-none}"
  echo -e "$RES"
} | tee "$OUT/validation.txt"
