import os as _os
import sys as _sys

# third-party monitor libraries (icontract, deal) live in /verif/.deps; appended (not
# prepended) so that nothing the repository's interpreter already has is shadowed
_deps = _os.path.join(_os.path.dirname(_os.path.dirname(_os.path.abspath(__file__))), ".deps")
if _os.path.isdir(_deps) and _deps not in _sys.path:
    _sys.path.append(_deps)
