"""
C20 child process: runs fault-injected loads of the real trimesh loaders under in-process
monitors and appends one JSON line per case BEFORE and AFTER running it, so a case that kills
the interpreter is identified by the parent.

usage: python -m vmon.child_load <job.json> <out.jsonl>

job = {"seeds": [{"id":..., "ext":..., "hex":...}], "cases": [[case_id, seed_idx, op, args, entry, via], ...],
       "cpu_base": 2.0, "cpu_per_byte": 2e-5, "as_base": 268435456, "as_per_byte": 400,
       "rss_base": 67108864, "rss_per_byte": 200, "tmpdir": "..."}
"""

from __future__ import annotations

import builtins
import faulthandler
import io
import json
import os
import resource
import signal
import sys
import time


class CaseTimeout(BaseException):
    pass


NUM_RX = rb"(?<![\w.])-?\d+(?:\.\d+)?(?:[eE][-+]?\d+)?(?![\w.])"
QINT_RX = rb'(?<=")\d+(?=")'
IDATTR_RX = rb'(?i)(?<=id=")\d+(?=")'  # id="..", objectid="..", pid=".." ...
REF_RX = rb"[\w\-./]*\w\.(?:mtl|png|jpe?g|bin|gltf|obj|stl|ply|xml|3DRep)\b"
STMT_RX = rb"#\d+\s*=[^;]*;[ \t\r]*\n?"  # one entity of an ISO 10303-21 (STEP) exchange file
HASHID_RX = rb"#\d+"  # entity names: definitions and references
LINE_RX = rb"[^\n]*\n"


def tokens_of(data, kind):
    import re

    rx = {"num": NUM_RX, "qint": QINT_RX, "ref": REF_RX, "idattr": IDATTR_RX, "stmt": STMT_RX, "hashid": HASHID_RX,
          "line": LINE_RX}[kind]
    return list(re.finditer(rx, data[: 8192 if kind in ("num", "qint") else (1 << 20)]))


def split_json(data):
    """-> (document, rebuild(document) -> bytes) for a .gltf text or a .glb container, else None."""
    import struct

    try:
        if data[:4] == b"glTF" and len(data) >= 20:
            jlen, jtype = struct.unpack("<II", data[12:20])
            if jtype != 0x4E4F534A or 20 + jlen > len(data):
                return None
            doc = json.loads(data[20: 20 + jlen].decode("utf-8"))
            rest = data[20 + jlen:]

            def rebuild(d):
                body = json.dumps(d, separators=(",", ":")).encode("utf-8")
                body += b" " * (-len(body) % 4)
                total = 12 + 8 + len(body) + len(rest)
                return data[:8] + struct.pack("<I", total) + struct.pack("<II", len(body), 0x4E4F534A) + body + rest

            return doc, rebuild
        doc = json.loads(data.decode("utf-8"))
        if not isinstance(doc, (dict, list)):
            return None
        return doc, (lambda d: json.dumps(d).encode("utf-8"))
    except Exception:
        return None


def json_nodes(doc, limit=4000):
    """Every (holder, key) slot of the document, depth first, in document order."""
    out = []
    stack = [doc]
    while stack and len(out) < limit:
        cur = stack.pop()
        items = list(cur.items()) if isinstance(cur, dict) else list(enumerate(cur))
        kids = []
        for k, v in items:
            out.append((cur, k))
            if isinstance(v, (dict, list)):
                kids.append(v)
        stack.extend(reversed(kids))
    return out


def json_apply(holder, key, action):
    """One structural fault in a slot of a JSON document; False when it does not apply."""
    cur = holder[key]
    number = isinstance(cur, (int, float)) and not isinstance(cur, bool)
    if action == "del":
        if isinstance(holder, list):
            holder.pop(key)
        else:
            del holder[key]
    elif action == "big":
        if not number:
            return False
        holder[key] = 10**10
    elif action == "neg":
        if not number:
            return False
        holder[key] = -1
    elif action == "inc":
        if not isinstance(cur, int) or isinstance(cur, bool):
            return False
        holder[key] = cur + 1
    elif action == "null":
        holder[key] = None
    elif action == "str":
        holder[key] = "x"
    elif action == "list":
        holder[key] = []
    elif action == "dict":
        holder[key] = {}
    else:
        raise ValueError(action)
    return True


def mutate(data: bytes, op: str, args, self_name=None) -> bytes:
    """Deterministic fault operators (G-bytes)."""
    n = len(data)
    if op == "valid":
        return data
    if op == "truncate":
        return data[: args[0]]
    if op == "sub":  # single byte substitution
        off, val = args
        if off >= n:
            return data
        return data[:off] + bytes([val & 0xFF]) + data[off + 1:]
    if op == "xor":
        off, val = args
        if off >= n:
            return data
        return data[:off] + bytes([data[off] ^ (val & 0xFF)]) + data[off + 1:]
    if op == "delete":
        a, b = args
        return data[:a] + data[b:]
    if op == "dup":
        a, b = args
        return data[:b] + data[a:b] + data[b:]
    if op == "swap":
        a, b, c = args  # swap chunks [a,b) and [b,c)
        return data[:a] + data[b:c] + data[a:b] + data[c:]
    if op == "u32" or op == "u16":
        off, val = args
        w = 4 if op == "u32" else 2
        if off + w > n:
            return data
        return data[:off] + int(val).to_bytes(w, "little") + data[off + w:]
    if op == "u32xor" or op == "u32add":
        # relative corruption of a size field: flip high bits / off-by-one, low bits kept
        off, val = args
        if off + 4 > n:
            return data
        cur = int.from_bytes(data[off: off + 4], "little")
        new = (cur ^ val) if op == "u32xor" else ((cur + val) & 0xFFFFFFFF)
        return data[:off] + new.to_bytes(4, "little") + data[off + 4:]
    if op == "token":  # replace decimal token number k by text
        k, text = args
        import re

        toks = list(re.finditer(rb"(?<![\w.])-?\d+(?:\.\d+)?(?:[eE][-+]?\d+)?(?![\w.])", data[:4096]))
        if k >= len(toks):
            return data
        m = toks[k]
        return data[: m.start()] + text.encode() + data[m.end():]
    if op == "grow":  # a well-formed file of one family with one structural dimension scaled to n (vmon/gen/grown.py)
        ext, family, size = args
        from vmon.gen import grown

        return grown.make(ext, family, size)
    if op == "repeat":  # one chunk of a valid file repeated n times (many solids / objects / records)
        a, b, n = args
        return data[:a] + data[a:b] * int(n) + data[b:]
    if op == "tokcopy":  # token k takes the text of token j (ids pointing at other ids / at themselves)
        kind, k, j = args
        toks = tokens_of(data, kind)
        if k >= len(toks) or j >= len(toks):
            return data
        m = toks[k]
        return data[: m.start()] + toks[j].group() + data[m.end():]
    if op == "tokdel":  # token k removed (one line, one statement: what it defined is now referenced but undefined)
        kind, k = args
        toks = tokens_of(data, kind)
        if k >= len(toks):
            return data
        return data[: toks[k].start()] + data[toks[k].end():]
    if op == "ref":  # the k-th asset reference (file name / uri) replaced by another target
        k, text = args
        toks = tokens_of(data, "ref")
        if k >= len(toks):
            return data
        m = toks[k]
        if text == "@self":
            text = self_name or "self"
        return data[: m.start()] + text.encode() + data[m.end():]
    if op == "zipinner":  # a fault applied to one member of a zip container (3mf, 3dxml, zip), re-packed
        mi, iop, iargs = args
        import zipfile

        zin = zipfile.ZipFile(io.BytesIO(data))
        infos = zin.infolist()
        out = io.BytesIO()
        with zipfile.ZipFile(out, "w", zipfile.ZIP_DEFLATED) as zout:
            for i, inf in enumerate(infos):
                payload = zin.read(inf.filename)
                if i == mi:
                    payload = mutate(payload, iop, iargs, self_name=self_name)
                zout.writestr(inf.filename, payload)
        return out.getvalue()
    if op == "json2":  # two structural faults in sibling slots of one JSON object (e.g. drop a key AND inflate a count)
        i1, a1, i2, a2 = args
        parts = split_json(data)
        if parts is None:
            return data
        doc, rebuild = parts
        nodes = json_nodes(doc)
        if max(i1, i2) >= len(nodes) or nodes[i1][0] is not nodes[i2][0] or i1 == i2:
            return data
        # list positions shift when an earlier element is popped: the later slot first
        for idx, action in sorted(((i1, a1), (i2, a2)), reverse=True):
            if json_apply(nodes[idx][0], nodes[idx][1], action) is False:
                return data
        return rebuild(doc)
    if op == "json":  # structural fault in the JSON document of a gltf / glb file
        idx, action = args
        parts = split_json(data)
        if parts is None:
            return data
        doc, rebuild = parts
        nodes = json_nodes(doc)
        if idx >= len(nodes):
            return data
        holder, key = nodes[idx]
        if json_apply(holder, key, action) is False:
            return data
        return rebuild(doc)
    if op == "raw":  # arbitrary bytes given as hex
        return bytes.fromhex(args[0])
    if op == "splice":  # args: hex of other data, cut points
        other = bytes.fromhex(args[0])
        return data[: args[1]] + other[args[2]:]
    if op == "noise":
        import random

        r = random.Random(args[0])
        k = args[1]
        kind = args[2]
        if kind == "random":
            return bytes(r.getrandbits(8) for _ in range(k))
        if kind == "ascii":
            alphabet = b"0123456789 .-+e\n\tabcdefxyz<>/=\"{}[],:"
            return bytes(r.choice(alphabet) for _ in range(k))
        # valid prefix + noise
        cut = r.randrange(0, max(1, n))
        return data[:cut] + bytes(r.getrandbits(8) for _ in range(k))
    if op == "multi":  # several random byte substitutions
        import random

        r = random.Random(args[0])
        b = bytearray(data)
        for _ in range(args[1]):
            if n:
                b[r.randrange(n)] = r.getrandbits(8)
        return bytes(b)
    raise ValueError(op)


class OpenMonitor:
    """Strong references to every file object opened while a loader runs."""

    def __init__(self):
        self.files = []
        self.active = False
        self._orig_open = builtins.open
        self._orig_io_open = io.open

        def wrapped(*a, **k):
            f = self._orig_open(*a, **k)
            if self.active:
                self.files.append(f)
            return f

        builtins.open = wrapped
        io.open = wrapped

    def begin(self):
        self.files = []
        self.active = True

    def end(self):
        self.active = False
        leaked = []
        for f in self.files:
            try:
                if not f.closed:
                    leaked.append(str(getattr(f, "name", "?")))
                    f.close()
            except Exception:
                pass
        self.files = []
        return leaked


def vm_size():
    with open("/proc/self/statm") as f:
        return int(f.read().split()[0]) * os.sysconf("SC_PAGE_SIZE")


def fd_count():
    return len(os.listdir("/proc/self/fd"))


def site_of(exc, repo_marker=os.sep + "trimesh" + os.sep):
    """Innermost frame of the traceback that lies inside the trimesh package: file:function."""
    tb = exc.__traceback__
    site = None
    while tb is not None:
        fn = tb.tb_frame.f_code.co_filename
        if repo_marker in fn and "site-packages" not in fn:
            site = "trimesh/" + fn.split(repo_marker, 1)[1] + ":" + tb.tb_frame.f_code.co_name
        tb = tb.tb_next
    return site


def describe(result):
    try:
        import trimesh

        if isinstance(result, trimesh.Scene):
            return "Scene(%d)" % len(result.geometry)
        return type(result).__name__
    except Exception:
        return type(result).__name__


def main():
    job_path, out_path = sys.argv[1], sys.argv[2]
    with open(job_path) as f:
        job = json.load(f)
    out = open(out_path, "a", buffering=1)
    faulthandler.enable(file=open(out_path + ".fault", "w"), all_threads=True)

    import numpy as np  # noqa

    sys.path.insert(0, os.path.dirname(os.path.dirname(os.path.abspath(__file__))))
    from vmon import instrument

    import logging

    import trimesh

    logging.getLogger("trimesh").setLevel(logging.CRITICAL + 1)
    repo = os.environ.get("VERIF_REPO", "/repo")
    probe = instrument.AnchorProbe(repo=repo)
    probe.start()
    out.write(json.dumps({"hello": os.path.realpath(os.path.dirname(trimesh.__file__))}) + "\n")

    seeds = [bytes.fromhex(s["hex"]) for s in job["seeds"]]
    tmpdir = job["tmpdir"]
    mon = OpenMonitor()

    def on_timer(signum, frame):
        raise CaseTimeout()

    signal.signal(signal.SIGVTALRM, on_timer)
    # native code that never returns to the interpreter cannot be interrupted by a Python handler: a second
    # timer on the CPU time of the whole process (all threads), with the default action, ends the child at
    # 2x the bound; the parent reads the signal as the CPU verdict of the case that was running
    signal.signal(signal.SIGPROF, signal.SIG_DFL)
    hard_as = resource.getrlimit(resource.RLIMIT_AS)[1]

    entries = {
        "load": trimesh.load,
        "load_mesh": trimesh.load_mesh,
        "load_scene": trimesh.load_scene,
        "load_path": trimesh.load_path,
    }
    for case in job["cases"]:
        cid, sidx, op, args, entry, via = case[:6]
        ext = job["seeds"][sidx]["ext"]
        try:
            data = mutate(seeds[sidx], op, args, self_name="case_%d.%s" % (os.getpid(), ext))
        except Exception as e:
            out.write(json.dumps({"id": cid, "phase": "end", "outcome": "harness_error", "detail": repr(e)}) + "\n")
            continue
        n = len(data)
        cpu_limit = job["cpu_base"] + job["cpu_per_byte"] * n
        # a loader that runs a pool of native threads reserves address space per thread (stacks, malloc
        # arenas) without using memory: its seeds carry their own constant term; peak RSS is bounded as ever
        as_cap = vm_size() + max(job["seeds"][sidx].get("as_base") or job["as_base"], job["as_per_byte"] * n)
        out.write(json.dumps({"id": cid, "phase": "start", "len": n}) + "\n")
        path = None
        if via in ("path", "path_ft", "pathlib"):
            # every child works in a directory of its own; files the model names are put next to it
            mydir = os.path.join(tmpdir, "child_%d" % os.getpid())
            os.makedirs(mydir, exist_ok=True)
            path = os.path.join(mydir, "case_%d.%s" % (os.getpid(), ext))
            with mon._orig_open(path, "wb") as f:
                f.write(data)
            for cname, chex in (job["seeds"][sidx].get("companions") or {}).items():
                cpath = os.path.join(mydir, os.path.basename(cname))
                if not os.path.exists(cpath):
                    with mon._orig_open(cpath, "wb") as f:
                        f.write(bytes.fromhex(chex))
        fds0 = fd_count()
        rss0 = resource.getrusage(resource.RUSAGE_SELF).ru_maxrss * 1024
        try:
            resource.setrlimit(resource.RLIMIT_AS, (as_cap, hard_as))
        except Exception:
            pass
        t0 = time.process_time()
        # a hang is interrupted at 1.5x the bound (what ends between 1x and 1.5x reports its own time); a grown
        # file that breaks the bound by design of its family is not worth the extra half: 1.2x (the timer is
        # charged by clock ticks and was seen to fire 6 % early on a loaded machine)
        signal.setitimer(signal.ITIMER_VIRTUAL, cpu_limit * 1.2 + 0.25 if op == "grow" else cpu_limit * 1.5 + 0.5)
        signal.setitimer(signal.ITIMER_PROF, cpu_limit * 2.0 + 2.0)
        mon.begin()
        outcome, detail, site = None, None, None
        try:
            fn = entries[entry]
            if via == "path":
                res = fn(path)
            elif via == "path_ft":  # by name with the type spelled out
                res = fn(path, file_type=ext)
            elif via == "pathlib":
                import pathlib

                res = fn(pathlib.Path(path))
            else:
                res = fn(file_obj=io.BytesIO(data), file_type=ext)
            outcome, detail = "geometry", describe(res)
            del res
        except CaseTimeout as e:
            outcome, detail = "cpu_timeout", "interrupted after %.2fs cpu (bound %.2fs)" % (time.process_time() - t0, cpu_limit)
            site = site_of(e)
        except MemoryError as e:
            outcome, detail = "memory_error", type(e).__name__ + ": " + str(e)[:200]
            site = site_of(e)
        except RecursionError as e:
            outcome, detail = "recursion_error", str(e)[:100]
        except Exception as e:
            outcome, detail = "exception", type(e).__name__
        except BaseException as e:  # SystemExit, KeyboardInterrupt, GeneratorExit ...
            outcome, detail = "base_exception", type(e).__name__
        finally:
            signal.setitimer(signal.ITIMER_VIRTUAL, 0)
            signal.setitimer(signal.ITIMER_PROF, 0)
            try:
                resource.setrlimit(resource.RLIMIT_AS, (hard_as, hard_as))
            except Exception:
                pass
        cpu = time.process_time() - t0
        leaked = mon.end()
        rss1 = resource.getrusage(resource.RUSAGE_SELF).ru_maxrss * 1024
        fds1 = fd_count()
        if path is not None:
            try:
                os.remove(path)
            except OSError:
                pass
        rec = {
            "id": cid, "phase": "end", "outcome": outcome, "detail": detail, "cpu": round(cpu, 4),
            "cpu_limit": round(cpu_limit, 4), "rss_growth": rss1 - rss0,
            "rss_limit": int(job["rss_base"] + job["rss_per_byte"] * n),
            "leaked": leaked, "fd_growth": fds1 - fds0, "len": n, "site": site,
        }
        out.write(json.dumps(rec) + "\n")
    probe.stop()
    out.write(json.dumps({"done": True, "entered": sorted(probe.entered)}) + "\n")
    out.close()


if __name__ == "__main__":
    main()
