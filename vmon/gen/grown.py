"""
G-grown: well-formed files in which ONE structural dimension is scaled up and everything else
stays consistent (C20: "finishes within a bound proportional to the input size ... never
consumes memory out of proportion to the input").

A byte-level fault of a small valid file cannot make a loader's work super-linear in anything
but the few records the file has.  The families below scale a single dimension of the
*structure* of a file - how deep instances are nested, how often a level is instanced, whether
references close a ring, how many records of one kind there are, how long one line is - so that
work or memory that grows with the square / cube / 2^n of that dimension exceeds the bound that
is linear in the number of bytes.

`make(ext, family, n)` is deterministic.  `FAMILIES[ext]` lists the families of a format with
the sizes used per tier.  The instance graphs (chain / diamond / ring / fan) are one abstract
shape rendered into every format that has instancing (3MF components, glTF nodes, 3DXML
Instance3D, COLLADA instance_node, XAML nested visuals, SVG transform lists).
"""

from __future__ import annotations

import base64
import io
import json
import struct
import zipfile

# ----------------------------------------------------------------------------------------------
# abstract instance graphs: {node: [children]}, "m" is the node that carries the one mesh


def graph_shape(shape, n):
    """-> (root, {node: [children...]}) over nodes 0..n-1 and the mesh leaf "m"."""
    n = int(n)
    if shape == "chain":  # one instance per level, n levels deep
        return 0, {i: [i + 1 if i + 1 < n else "m"] for i in range(n)}
    if shape == "diamond":  # every level instances the level below twice: 2^n leaf instances
        return 0, {i: [i + 1 if i + 1 < n else "m"] * 2 for i in range(n)}
    if shape == "ring":  # every node instances the next one twice and the mesh; the last one closes the ring
        return 0, {i: [(i + 1) % n, (i + 1) % n, "m"] for i in range(n)}
    if shape == "loop":  # a plain cycle: one instance per level, the last level instances the first
        return 0, {i: [(i + 1) % n] + (["m"] if i == 0 else []) for i in range(n)}
    if shape == "fan":  # one level, n instances of the mesh
        return 0, {0: ["m"] * n}
    raise ValueError(shape)


TRI_V = [(0, 0, 0), (1, 0, 0), (0, 1, 0)]

# ----------------------------------------------------------------------------------------------
# the SHAPE of a name that many records share.  Loaders make repeated names unique (`part`, `part_1`, ...) and
# keep a memo so that the k-th record does not walk over the k - 1 names handed out before; what the memo is
# keyed by and where the search starts depends on how the name ENDS.  A family that repeats one name is rendered
# once per shape: `<family>` is the plain name, `<family>@<shape>` the others.
NAME_SHAPES = {
    "plain": lambda base: base,
    "_int": lambda base: base + "_1",  # ends like the names the loader itself hands out
    "_pad": lambda base: base + "_001",  # zero padded counter (Cube_001)
    "_big": lambda base: base + "_70000",  # a counter beyond the number of records
    "digits": lambda base: base + "1",  # digits without the delimiter
    "_text": lambda base: base + "_a",  # the delimiter, not followed by a number
    "_": lambda base: base + "_",  # the delimiter at the very end
    "empty": lambda base: "",  # no name at all
    "long": lambda base: base + "-" + "n" * 120,  # a long name
}


def shaped(family):
    """'solids@_int' -> ('solids', '_int'); 'solids' -> ('solids', 'plain')."""
    family, _, shape = family.partition("@")
    return family, shape or "plain"


def _name(base, shape):
    return NAME_SHAPES[shape](base)

# ---- 3MF

NS_3MF = "http://schemas.microsoft.com/3dmanufacturing/core/2015/02"


def _zip(members):
    # stored, not deflated: the bounds are linear in the bytes of the FILE, and a deflated run of
    # 30000 equal components is a hundredth of the XML a loader has to read
    blob = io.BytesIO()
    with zipfile.ZipFile(blob, "w", zipfile.ZIP_STORED) as z:
        for name, payload in members:
            z.writestr(name, payload)
    return blob.getvalue()


def threemf_graph(shape, n):
    root, g = graph_shape(shape, n)
    oid = lambda k: 1 if k == "m" else k + 2  # noqa: E731
    mesh = (
        "<mesh><vertices>" + "".join('<vertex x="%d" y="%d" z="%d"/>' % v for v in TRI_V)
        + '</vertices><triangles><triangle v1="0" v2="1" v3="2"/></triangles></mesh>'
    )
    objs = ['<object id="1" type="model">%s</object>' % mesh]
    for k, kids in g.items():
        comps = "".join('<component objectid="%d" transform="1 0 0 0 1 0 0 0 1 1 0 0"/>' % oid(c) for c in kids)
        objs.append('<object id="%d" type="model"><components>%s</components></object>' % (oid(k), comps))
    xml = (
        '<?xml version="1.0" encoding="UTF-8"?>\n<model unit="millimeter" xmlns="%s"><resources>%s</resources>'
        '<build><item objectid="%d"/></build></model>' % (NS_3MF, "".join(objs), oid(root))
    )
    return _zip([("3D/3dmodel.model", xml)])


def threemf_items(n, name="part"):
    # n build items of one object
    mesh = (
        "<mesh><vertices>" + "".join('<vertex x="%d" y="%d" z="%d"/>' % v for v in TRI_V)
        + '</vertices><triangles><triangle v1="0" v2="1" v3="2"/></triangles></mesh>'
    )
    items = "".join('<item objectid="1" transform="1 0 0 0 1 0 0 0 1 %d 0 0"/>' % i for i in range(int(n)))
    xml = (
        '<?xml version="1.0" encoding="UTF-8"?>\n<model unit="millimeter" xmlns="%s"><resources>'
        '<object id="1" name="%s" type="model">%s</object></resources><build>%s</build></model>' % (NS_3MF, name, mesh, items)
    )
    return _zip([("3D/3dmodel.model", xml)])


def threemf_objects(n, name="part"):
    # object 1 carries the mesh; n - 1 more objects consist of one component (object 1) each; all of them carry the
    # same name and every one has a build item
    mesh = (
        "<mesh><vertices>" + "".join('<vertex x="%d" y="%d" z="%d"/>' % v for v in TRI_V)
        + '</vertices><triangles><triangle v1="0" v2="1" v3="2"/></triangles></mesh>'
    )
    n = int(n)
    objs = '<object id="1" name="%s" type="model">%s</object>' % (name, mesh) + "".join(
        '<object id="%d" name="%s" type="model"><components><component objectid="1"/></components></object>' % (i + 2, name)
        for i in range(n - 1))
    items = "".join('<item objectid="%d"/>' % (i + 1) for i in range(n))
    xml = (
        '<?xml version="1.0" encoding="UTF-8"?>\n<model unit="millimeter" xmlns="%s"><resources>%s</resources>'
        "<build>%s</build></model>" % (NS_3MF, objs, items)
    )
    return _zip([("3D/3dmodel.model", xml)])


# ---- glTF / GLB


def _f32(values):
    return struct.pack("<%df" % len(values), *values)


def _gltf_doc(nodes, root, positions=None):
    pos = positions if positions is not None else _f32([c for v in TRI_V for c in v])
    count = len(pos) // 12
    return {
        "asset": {"version": "2.0"}, "scene": 0, "scenes": [{"nodes": [root]}],
        "nodes": nodes,
        "meshes": [{"primitives": [{"attributes": {"POSITION": 0}}]}],
        "buffers": [{"byteLength": len(pos)}],
        "bufferViews": [{"buffer": 0, "byteOffset": 0, "byteLength": len(pos)}],
        "accessors": [{"bufferView": 0, "componentType": 5126, "count": count, "type": "VEC3",
                       "min": [0, 0, 0], "max": [1, 1, 1]}],
    }, pos


def _pack_gltf(doc, blob, ext):
    if ext == "gltf":
        doc["buffers"][0]["uri"] = "data:application/octet-stream;base64," + base64.b64encode(blob).decode()
        return json.dumps(doc, separators=(",", ":")).encode()
    js = json.dumps(doc, separators=(",", ":")).encode()
    js += b" " * (-len(js) % 4)
    blob = blob + b"\x00" * (-len(blob) % 4)
    chunks = struct.pack("<II", len(js), 0x4E4F534A) + js + struct.pack("<II", len(blob), 0x004E4942) + blob
    return struct.pack("<III", 0x46546C67, 2, 12 + len(chunks)) + chunks


def gltf_graph(shape, n, ext="gltf"):
    root, g = graph_shape(shape, n)
    n_nodes = len(g)
    idx = lambda k: n_nodes if k == "m" else k  # noqa: E731
    nodes = [{"children": [idx(c) for c in g[k]], "translation": [1, 0, 0]} for k in range(n_nodes)]
    nodes.append({"mesh": 0})
    doc, blob = _gltf_doc(nodes, idx(root))
    return _pack_gltf(doc, blob, ext)


def _big_positions(count):
    # a deterministic vertex buffer (a helix), 12 bytes per vertex
    import math

    out = []
    for i in range(count):
        t = i * 0.01
        out += [math.cos(t), math.sin(t), t * 0.001]
    return _f32(out)


def gltf_records(kind, n, ext="glb", vertices=21000, shape="plain"):
    """One mesh over a vertex buffer of `vertices` points, plus n more records of one kind that
    are well-formed and that nothing uses: buffer views / accessors over the same buffer,
    nodes / meshes / materials.  Every number in the file agrees with the lengths."""
    n = int(n)
    pos = _big_positions(vertices if kind in ("views", "accessors") else 3)
    doc, blob = _gltf_doc([{"mesh": 0}], 0, positions=pos)
    doc["accessors"][0].pop("min"), doc["accessors"][0].pop("max")
    if kind == "views":  # overlapping views are what interleaved attributes use
        doc["bufferViews"] += [{"buffer": 0, "byteOffset": 4, "byteLength": len(pos) - 4} for _ in range(n)]
    elif kind == "accessors":
        doc["accessors"] += [{"bufferView": 0, "byteOffset": 12, "componentType": 5126, "count": len(pos) // 12 - 1, "type": "VEC3"}
                             for _ in range(n)]
    elif kind == "nodes":  # n instances of the mesh below one root
        doc["nodes"] = [{"children": list(range(1, n + 1))}] + [{"mesh": 0, "name": _name("part", shape), "translation": [i, 0, 0]} for i in range(n)]
    elif kind == "meshes":  # n meshes of the same name, one node each
        doc["meshes"] = [{"name": _name("part", shape), "primitives": [{"attributes": {"POSITION": 0}}]} for _ in range(n)]
        doc["nodes"] = [{"children": list(range(1, n + 1))}] + [{"mesh": i} for i in range(n)]
    elif kind == "materials":
        doc["materials"] = [{"name": _name("mat", shape), "pbrMetallicRoughness": {"baseColorFactor": [1, 0, 0, 1]}} for _ in range(n)]
        doc["meshes"][0]["primitives"][0]["material"] = n - 1
    elif kind == "primitives":  # one mesh made of n primitives (they share the name of the mesh)
        doc["meshes"][0]["primitives"] = [{"attributes": {"POSITION": 0}} for _ in range(n)]
        if shape != "plain":
            doc["meshes"][0]["name"] = _name("part", shape)
    else:
        raise ValueError(kind)
    return _pack_gltf(doc, blob, ext)


# ---- 3DXML

_3DXML_REP = (
    '<?xml version="1.0" encoding="utf-8" ?>\n<XMLRepresentation version="1.2" '
    'xmlns="http://www.3ds.com/xsd/3DXML"><Root><Rep><Faces><Face triangles="0 1 2"/></Faces>'
    "<VertexBuffer><Positions>0 0 0,1 0 0,0 1 0</Positions><Normals>0 0 1,0 0 1,0 0 1</Normals>"
    "</VertexBuffer></Rep></Root></XMLRepresentation>"
)


def threedxml_graph(shape, n):
    root, g = graph_shape(shape, n)
    rid = lambda k: "RM" if k == "m" else "R%d" % k  # noqa: E731
    s = [
        '<?xml version="1.0" encoding="utf-8" ?>\n<Model_3dxml xmlns="http://www.3ds.com/xsd/3DXML" '
        'xmlns:xsi="http://www.w3.org/2001/XMLSchema-instance"><ProductStructure root="%s">' % rid(root)
    ]
    for k in list(g) + ["m"]:
        s.append('<Reference3D xsi:type="Reference3DType" id="%s" name="ref%s"/>' % (rid(k), k))
    for k, kids in g.items():
        for j, c in enumerate(kids):
            s.append(
                '<Instance3D xsi:type="Instance3DType" id="I%s_%d" name="inst%s_%d"><IsAggregatedBy>%s</IsAggregatedBy>'
                "<IsInstanceOf>%s</IsInstanceOf><RelativeMatrix>1 0 0 0 1 0 0 0 1 %d 0 0</RelativeMatrix></Instance3D>"
                % (k, j, k, j, rid(k), rid(c), j + 1)
            )
    s.append(
        '<ReferenceRep xsi:type="ReferenceRepType" id="G" name="rep" format="TESSELLATED" version="1.1" '
        'associatedFile="urn:3DXML:geom.3DRep"/><InstanceRep xsi:type="InstanceRepType" id="IR" name="irep">'
        "<IsAggregatedBy>RM</IsAggregatedBy><IsInstanceOf>G</IsInstanceOf></InstanceRep></ProductStructure></Model_3dxml>"
    )
    return _zip([
        ("Manifest.xml", '<?xml version="1.0" encoding="utf-8" ?><Manifest><Root>model.3dxml</Root></Manifest>'),
        ("model.3dxml", "".join(s)),
        ("geom.3DRep", _3DXML_REP),
    ])


def threedxml_faces(n):
    # one representation whose <Faces> element has n <Face> children of one triangle each
    face = '<Face triangles="0 1 2"/>'
    assert _3DXML_REP.count(face) == 1
    members = dict(_unzip(threedxml_graph("fan", 1)))
    members["geom.3DRep"] = _3DXML_REP.replace(face, face * int(n))
    return _zip(list(members.items()))


def _unzip(blob):
    with zipfile.ZipFile(io.BytesIO(blob)) as z:
        return [(name, z.read(name).decode()) for name in z.namelist()]


# ---- COLLADA


def dae_graph(shape, n):
    root, g = graph_shape(shape, n)
    nid = lambda k: "nm" if k == "m" else "n%d" % k  # noqa: E731
    nodes = []
    for k, kids in g.items():
        inst = "".join('<instance_node url="#%s"/>' % nid(c) for c in kids)
        nodes.append('<node id="%s" name="%s"><translate>1 0 0</translate>%s</node>' % (nid(k), nid(k), inst))
    nodes.append('<node id="nm" name="nm"><instance_geometry url="#geo"/></node>')
    xml = (
        '<?xml version="1.0" encoding="utf-8"?>\n<COLLADA xmlns="http://www.collada.org/2005/11/COLLADASchema" version="1.4.1">'
        "<asset><unit name=\"meter\" meter=\"1\"/><up_axis>Z_UP</up_axis></asset>"
        '<library_geometries><geometry id="geo" name="geo"><mesh><source id="geo-pos"><float_array id="geo-pos-array" count="9">'
        '0 0 0 1 0 0 0 1 0</float_array><technique_common><accessor source="#geo-pos-array" count="3" stride="3">'
        '<param name="X" type="float"/><param name="Y" type="float"/><param name="Z" type="float"/></accessor></technique_common></source>'
        '<vertices id="geo-vtx"><input semantic="POSITION" source="#geo-pos"/></vertices><triangles count="1">'
        '<input semantic="VERTEX" source="#geo-vtx" offset="0"/><p>0 1 2</p></triangles></mesh></geometry></library_geometries>'
        "<library_nodes>%s</library_nodes>"
        '<library_visual_scenes><visual_scene id="scene"><node id="top" name="top"><instance_node url="#%s"/></node></visual_scene>'
        '</library_visual_scenes><scene><instance_visual_scene url="#scene"/></scene></COLLADA>' % ("".join(nodes), nid(root))
    )
    return xml.encode()


def dae_primitives(n, name="geo"):
    # one geometry made of n <triangles> primitives: every primitive becomes a mesh called after the geometry
    n = int(n)
    doc = dae_graph("fan", 1).decode()
    tri = '<triangles count="1"><input semantic="VERTEX" source="#geo-vtx" offset="0"/><p>0 1 2</p></triangles>'
    assert doc.count(tri) == 1
    doc = doc.replace(tri, tri * n)
    if name != "geo":  # the id of the geometry and the one reference to it; the ids of its sources stay
        doc = doc.replace('<geometry id="geo" name="geo">', '<geometry id="%s" name="%s">' % (name, name))
        doc = doc.replace('<instance_geometry url="#geo"/>', '<instance_geometry url="#%s"/>' % name)
    return doc.encode()


def dae_nested(n):
    # <node> inside <node>, n levels (the XML parser refuses documents deeper than 256 elements)
    n = int(n)
    inner = '<node id="leaf" name="leaf"><instance_geometry url="#geo"/></node>'
    for i in range(n):
        inner = '<node id="d%d" name="d%d"><translate>1 0 0</translate>%s</node>' % (i, i, inner)
    doc = dae_graph("fan", 1).decode()
    a = doc.index('<node id="top"')
    b = doc.index("</visual_scene>")
    return (doc[:a] + inner + doc[b:]).encode()


# ---- XAML


def xaml_nested(n, geometries=12):
    # n nested visuals with a matrix each, `geometries` models at the bottom: every model walks up to the root
    n = int(n)
    geo = (
        "<ModelVisual3D><ModelVisual3D.Content><GeometryModel3D><GeometryModel3D.Geometry>"
        '<MeshGeometry3D TriangleIndices="0,1,2 " Normals="0,0,1 0,0,1 0,0,1 " Positions="0,0,0 1,0,0 0,1,0 " />'
        "</GeometryModel3D.Geometry></GeometryModel3D></ModelVisual3D.Content></ModelVisual3D>"
    )
    inner = geo * geometries
    tf = '<ModelVisual3D.Transform><MatrixTransform3D Matrix="1 0 0 0 0 1 0 0 0 0 1 0 1 0 0 1"/></ModelVisual3D.Transform>'
    return (
        '<Page xmlns="http://schemas.microsoft.com/winfx/2006/xaml/presentation" '
        'xmlns:x="http://schemas.microsoft.com/winfx/2006/xaml"><Viewport3D>'
        + ("<ModelVisual3D>" + tf) * n + inner + "</ModelVisual3D>" * n + "</Viewport3D></Page>"
    ).encode()


# ---- SVG


def svg_doc(family, n):
    n = int(n)
    head = '<svg xmlns="http://www.w3.org/2000/svg" width="10" height="10">'
    if family == "transform_list":  # one transform attribute with n entries
        body = '<path d="M 0 0 L 1 0 L 1 1 Z" transform="%s"/>' % " ".join(["translate(1,0)"] * n)
    elif family == "transform_paths":  # n paths with a short transform list each
        body = ('<path d="M 0 0 L 1 0 L 1 1 Z" transform="translate(1,0) scale(2) rotate(10) translate(0,1)"/>') * n
    elif family == "nested_groups":  # n nested groups with a transform each
        n = min(n, 240)
        body = '<g transform="translate(1,0)">' * n + '<path d="M 0 0 L 1 0 L 1 1 Z"/>' + "</g>" * n
    elif family == "segments":  # one path with n segments
        body = '<path d="M 0 0 %s Z"/>' % " ".join("L %d %d" % (i % 97, i % 89) for i in range(n))
    elif family == "subpaths":  # one path attribute with n closed sub-paths
        body = '<path d="%s"/>' % " ".join("M %d 0 L %d 1 L %d 1 Z" % (2 * i, 2 * i, 2 * i + 1) for i in range(n))
    elif family == "arcs":
        body = '<path d="M 0 0 %s"/>' % " ".join("A 1 1 0 0 1 %d 0" % (2 * (i + 1)) for i in range(n))
    else:
        raise ValueError(family)
    return (head + body + "</svg>").encode()


# ---- DXF


def dxf_doc(family, n, entities=1000):
    n = int(n)
    line = lambda i: "0\nLINE\n8\n0\n10\n%d\n20\n0\n11\n%d\n21\n1\n" % (i, i)  # noqa: E731
    pre, ents = "", ""
    if family == "long_comment":  # group 999 is a comment; its value is one line of n characters
        pre = "999\n" + "x" * n + "\n"
        ents = "".join(line(i) for i in range(entities))
    elif family == "long_layer":  # a layer name of n characters on one entity
        ents = "".join(line(i) for i in range(entities)) + "0\nLINE\n8\n%s\n10\n0\n20\n0\n11\n1\n21\n1\n" % ("L" * n)
    elif family == "long_text":  # a TEXT entity whose value has n characters
        ents = "".join(line(i) for i in range(entities)) + "0\nTEXT\n8\n0\n10\n0\n20\n0\n40\n1\n1\n%s\n50\n0\n" % ("t" * n)
    elif family == "lines":
        ents = "".join(line(i) for i in range(n))
    elif family == "polyline":  # one LWPOLYLINE with n vertices
        ents = "0\nLWPOLYLINE\n8\n0\n90\n%d\n70\n1\n" % n + "".join("10\n%d\n20\n%d\n" % (i, (i * i) % 101) for i in range(n))
    elif family == "layers":  # n entities on n different layers
        ents = "".join("0\nLINE\n8\nlayer%d\n10\n%d\n20\n0\n11\n%d\n21\n1\n" % (i, i, i) for i in range(n))
    elif family == "inserts":  # one block, n INSERTs of it
        pre = "0\nSECTION\n2\nBLOCKS\n0\nBLOCK\n8\n0\n2\nB\n70\n0\n10\n0\n20\n0\n" + line(0) + "0\nENDBLK\n0\nENDSEC\n"
        ents = "".join("0\nINSERT\n8\n0\n2\nB\n10\n%d\n20\n0\n" % i for i in range(n))
    else:
        raise ValueError(family)
    head = "0\nSECTION\n2\nHEADER\n9\n$INSUNITS\n70\n1\n0\nENDSEC\n"
    if family == "long_comment":
        return (pre + head + "0\nSECTION\n2\nENTITIES\n" + ents + "0\nENDSEC\n0\nEOF\n").encode()
    return (head + pre + "0\nSECTION\n2\nENTITIES\n" + ents + "0\nENDSEC\n0\nEOF\n").encode()


# ---- OBJ


def obj_doc(family, n, shape="plain"):
    n = int(n)
    head = "v 0 0 0\nv 1 0 0\nv 0 1 0\n"
    if family == "materials":  # n groups, a material each, no object name
        return (head + "".join("usemtl m%d\nf 1 2 3\n" % i for i in range(n))).encode()
    if family == "same_object":  # n groups, every one called `part`
        o = ("o " + _name("part", shape)).strip()
        return (head + "".join(o + "\nusemtl m%d\nf 1 2 3\n" % i for i in range(n))).encode()
    if family == "same_material":  # n objects that share one material
        return (head + "".join("o p%d\nusemtl m\nf 1 2 3\n" % i for i in range(n))).encode()
    if family == "groups":
        return (head + "".join("g grp\nf 1 2 3\n" for i in range(n))).encode()
    if family == "polygon":  # one face with n corners
        vs = "".join("v %d %d 0\n" % (i, (i * i) % 103) for i in range(n))
        return (vs + "f " + " ".join(str(i + 1) for i in range(n)) + "\n").encode()
    if family == "long_comment":
        return (("# " + "x" * n + "\n") + head + "".join("f 1 2 3\n" for _ in range(1000))).encode()
    raise ValueError(family)


# ---- PLY


def ply_doc(family, n, encoding="binary"):
    n = int(n)
    binary = encoding == "binary"
    fmt = "binary_little_endian" if binary else "ascii"
    head = "ply\nformat %s 1.0\n" % fmt
    vert = "element vertex 3\nproperty float x\nproperty float y\nproperty float z\n"
    face = "element face 2\nproperty list uchar int vertex_indices\n"
    fbody_b = b"\x03" + struct.pack("<3i", 0, 1, 2), b"\x03" + struct.pack("<3i", 0, 2, 1)
    fbody_a = "3 0 1 2", "3 0 2 1"
    vbody_b = struct.pack("<9f", 0, 0, 0, 1, 0, 0, 0, 1, 0)
    vbody_a = ["0 0 0", "1 0 0", "0 1 0"]
    if family == "face_lists":  # the face element carries n more list properties (texcoord, ids ... are such lists)
        head += vert + face + "".join("property list uchar int extra_%d\n" % i for i in range(n)) + "end_header\n"
        if binary:
            return head.encode() + vbody_b + b"".join(f + (b"\x01" + struct.pack("<i", 7)) * n for f in fbody_b)
        return (head + "\n".join(vbody_a) + "\n" + "".join(f + " 1 7" * n + "\n" for f in fbody_a)).encode()
    if family == "vertex_scalars":  # n more scalar properties per vertex
        head += vert + "".join("property float q%d\n" % i for i in range(n)) + face + "end_header\n"
        if binary:
            rows = b"".join(struct.pack("<3f", *v) + struct.pack("<%df" % n, *([0.5] * n)) for v in TRI_V)
            return head.encode() + rows + b"".join(fbody_b)
        rows = "\n".join("%d %d %d" % v + " 0.5" * n for v in TRI_V)
        return (head + rows + "\n" + "\n".join(fbody_a) + "\n").encode()
    if family == "elements":  # n more elements with one row of one scalar each
        head += vert + face + "".join("element extra_%d 1\nproperty int value\n" % i for i in range(n)) + "end_header\n"
        if binary:
            return head.encode() + vbody_b + b"".join(fbody_b) + struct.pack("<i", 7) * n
        return (head + "\n".join(vbody_a) + "\n" + "\n".join(fbody_a) + "\n" + "7\n" * n).encode()
    if family == "comments":
        head += "".join("comment line %d\n" % i for i in range(n)) + vert + face + "end_header\n"
        if binary:
            return head.encode() + vbody_b + b"".join(fbody_b)
        return (head + "\n".join(vbody_a) + "\n" + "\n".join(fbody_a) + "\n").encode()
    raise ValueError(family)


# ---- OFF / STL / XYZ


def off_doc(family, n):
    n = int(n)
    if family == "polygon":
        vs = "".join("%d %d 0\n" % (i, (i * i) % 103) for i in range(n))
        return ("OFF\n%d 1 0\n" % n + vs + "%d " % n + " ".join(str(i) for i in range(n)) + "\n").encode()
    if family == "long_comment":
        return ("OFF\n# " + "x" * n + "\n3 1 0\n0 0 0\n1 0 0\n0 1 0\n3 0 1 2\n").encode()
    raise ValueError(family)


def stl_doc(family, n, shape="plain"):
    n = int(n)
    facet = "facet normal 0 0 1\nouter loop\nvertex 0 0 0\nvertex 1 0 0\nvertex 0 1 0\nendloop\nendfacet\n"
    if family == "solids":  # n solids of the same name
        name = _name("part", shape)
        return ("".join(("solid " + name).strip() + "\n" + facet + ("endsolid " + name).strip() + "\n" for _ in range(n))).encode()
    if family == "long_name":
        return ("solid " + "n" * n + "\n" + facet * 200 + "endsolid\n").encode()
    raise ValueError(family)


# ----------------------------------------------------------------------------------------------

# ext -> [(family, quick sizes, thorough sizes)]
#
# How the sizes were chosen (all measured, CPU bound 5 s + 2e-5 s/byte, memory max(256 MiB, 400 B/byte), RSS
# 64 MiB + 200 B/byte): large enough that work growing with n^2 / n^3 / 2^n is several times over the bound, small
# enough that a loader which is linear with a LARGE constant stays below half of it - one Trimesh object per
# 26-byte <instance_node/> is 10 KB per instance, an SVG arc costs 17 us per byte - because the statement asks
# for proportionality, not for a particular constant.  That is why the record families stop at a few thousand.
#
# Name shapes (`<family>@<shape>`): a search for a free name that starts over for every record costs about 0.15 us per
# pair of records; the sizes are those where that is twice the bound (OBJ groups and glTF primitives are ~30 bytes a
# record, glTF nodes 57, ASCII STL solids 115, COLLADA primitives 100, 3MF objects 120: the longer the record the
# larger the file has to be, so the quick tier has every shape on GLB nodes, most on GLB primitives, two on OBJ, and small files - or none - of the others).
ALL_SHAPES = tuple(k for k in NAME_SHAPES if k != "plain")
FEW_SHAPES = ("_int", "_pad", "empty", "long")


def _named(family, shapes, quick, thorough):
    return [("%s@%s" % (family, s), quick, thorough) for s in shapes]


GRAPHS = (("chain", (600,), (150, 600, 1800)), ("diamond", (18,), (10, 18, 26, 40)), ("ring", (48,), (12, 48, 200)),
          ("loop", (200,), (3, 200, 2000)), ("fan", (3000,), (300, 3000)))
FAMILIES = {
    "3mf": [("graph:" + s, q, t) for s, q, t in GRAPHS] + [("items", (3000,), (300, 3000))]
    + [("objects", (3000,), (3000, 30000))] + _named("objects", ("_int", "empty"), (3000,), ()) + _named("objects", FEW_SHAPES, (), (30000,))
    + _named("items", FEW_SHAPES, (3000,), (3000,)),
    "gltf": [("graph:" + s, q, t) for s, q, t in GRAPHS] + [("records:nodes", (4000,), (400, 4000))]
    + _named("records:nodes", FEW_SHAPES, (), (16000,)),
    "glb": [("records:" + k, q, t) for k, q, t in (
        ("views", (1500,), (150, 1500, 6000)), ("accessors", (1500,), (150, 1500, 6000)), ("nodes", (4000,), (400, 4000)),
        ("meshes", (4000,), (400, 4000)), ("materials", (4000,), (400, 4000)), ("primitives", (4000,), (400, 4000)))]
    + [("graph:chain", (), (600, 1800)), ("graph:diamond", (), (18, 26))]  # the same document as .gltf: thorough tier
    + _named("records:primitives", FEW_SHAPES + ("_big",), (14000,), (14000,)) + _named("records:primitives", ("digits", "_text", "_"), (), (14000,))
    + _named("records:nodes", ALL_SHAPES, (16000,), (16000,))
    + _named("records:meshes", FEW_SHAPES, (), (30000,)) + _named("records:materials", FEW_SHAPES, (4000,), (4000,)),
    # (3DXML: a ring is enumerated like a diamond - simple paths - and costs the quick tier another full bound)
    "3dxml": [("graph:" + s, q if s != "ring" else (), t) for s, q, t in GRAPHS]
    + [("records:faces", (3000,), (300, 3000, 12000))],
    # (COLLADA: pycollada resolves one forward reference of <library_nodes> per pass - quadratic, 3.2 s at 600
    # levels against a bound of 6.1 s: the quick tier stays clear of the bound, the thorough tier is well over it)
    "dae": [("graph:" + s, q if s != "chain" else (300,), t if s != "chain" else (300, 1500)) for s, q, t in GRAPHS]
    + [("nested", (240,), (60, 240))]
    + [("primitives", (2000,), (2000, 30000))] + _named("primitives", ("_int", "empty"), (2000,), ()) + _named("primitives", FEW_SHAPES, (), (30000,)),
    "xaml": [("nested", (240,), (60, 240))],
    "svg": [("transform_list", (700,), (175, 700, 2800)), ("transform_paths", (3000,), (300, 3000)),
            ("nested_groups", (240,), (60, 240)), ("segments", (20000,), (2000, 20000, 200000)),
            ("subpaths", (5000,), (500, 5000, 15000)), ("arcs", (3000,), (300, 3000))],
    "dxf": [("long_comment", (8000,), (2000, 8000, 100000)), ("long_layer", (8000,), (2000, 100000)),
            ("long_text", (8000,), (2000, 100000)), ("lines", (20000,), (2000, 100000)),
            ("polyline", (20000,), (2000, 200000)), ("layers", (5000,), (500, 20000)), ("inserts", (5000,), (500, 20000))],
    "obj": [("materials", (9000,), (2000, 9000)), ("same_object", (12000,), (2000, 12000))]
    + _named("same_object", ("_int", "empty"), (12000,), ()) + _named("same_object", ALL_SHAPES, (), (12000,)) + [
            ("same_material", (9000,), (2000, 9000)), ("groups", (9000,), (2000, 9000)),
            ("polygon", (20000,), (2000, 200000)), ("long_comment", (100000,), (10000, 1000000))],
    "ply": [("face_lists", (2000,), (500, 2000, 8000)), ("face_lists:ascii", (2000,), (500, 8000)),
            ("vertex_scalars", (2000,), (500, 8000)), ("vertex_scalars:ascii", (2000,), (500, 8000)),
            ("elements", (2000,), (500, 8000)), ("elements:ascii", (2000,), (500, 8000)), ("comments", (20000,), (2000, 200000))],
    "off": [("polygon", (20000,), (2000, 200000)), ("long_comment", (100000,), (1000000,))],
    "stl_ascii": [("solids", (6000,), (600, 16000, 30000)), ("long_name", (100000,), (1000000,))]
    + _named("solids", FEW_SHAPES, (), (30000,)),  # (115 bytes a solid: too long for the quick tier)
}
# formats whose files describe meshes: every entry point takes them
MESH_EXT = ("3mf", "gltf", "glb", "3dxml", "dae", "xaml", "obj", "ply", "off", "stl_ascii")


def make(ext, family, n):
    """The file of one family at size n, as bytes."""
    family, shape = shaped(family)
    kind, _, arg = family.partition(":")
    if kind == "graph":
        if ext == "3mf":
            return threemf_graph(arg, n)
        if ext in ("gltf", "glb"):
            return gltf_graph(arg, n, ext=ext)
        if ext == "3dxml":
            return threedxml_graph(arg, n)
        if ext == "dae":
            return dae_graph(arg, n)
        raise ValueError((ext, family))
    if ext == "3dxml" and family == "records:faces":
        return threedxml_faces(n)
    if ext == "3mf" and kind == "items":
        return threemf_items(n, name=_name("part", shape))
    if ext == "3mf" and kind == "objects":
        return threemf_objects(n, name=_name("part", shape))
    if ext in ("gltf", "glb") and kind == "records":
        return gltf_records(arg, n, ext=ext, shape=shape)
    if ext == "dae" and kind == "nested":
        return dae_nested(n)
    if ext == "dae" and kind == "primitives":
        return dae_primitives(n, name=_name("geo", shape))
    if ext == "xaml":
        return xaml_nested(n)
    if ext == "svg":
        return svg_doc(family, n)
    if ext == "dxf":
        return dxf_doc(family, n)
    if ext == "obj":
        return obj_doc(family, n, shape=shape)
    if ext == "ply":
        return ply_doc(kind, n, encoding=arg or "binary")
    if ext == "off":
        return off_doc(family, n)
    if ext == "stl_ascii":
        return stl_doc(family, n, shape=shape)
    raise ValueError((ext, family))
