"""G-matrix and G-mask: transform matrices by class, and face/vertex masks by class."""

from __future__ import annotations

import numpy as np


def _rot(rng):
    from trimesh import transformations as tf

    q = rng.normal(size=4)
    q /= np.linalg.norm(q)
    return tf.quaternion_matrix(q)


def rotation_axis(axis, angle):
    from trimesh import transformations as tf

    return tf.rotation_matrix(angle, axis)


def matrices(rng, dim=3, classes=None):
    """
    Yield (class_tag, matrix) with matrix (dim+1, dim+1).  Classes:
      identity, near_identity_<side>_<eps> (both sides of the 1e-8 / 1e-6 shortcuts),
      rigid, similarity, mirror_axis, mirror_point, mirror_rot, aniso, shear, affine
    """
    n = dim + 1
    I = np.eye(n)

    def emit(tag, M):
        if classes is None or tag.split(":")[0] in classes:
            return [(tag, np.array(M, dtype=np.float64))]
        return []

    out = []
    out += emit("identity", I)
    for eps in (1e-10, 1e-9, 9e-9, 1.1e-8, 1e-7, 9e-7, 1.1e-6, 1e-5):
        M = I.copy()
        M[0, n - 1] = eps
        out += emit("near_identity:translation:%g" % eps, M)
        M = I.copy()
        M[0, 0] = 1 + eps
        out += emit("near_identity:scale:%g" % eps, M)
        if dim == 3:
            out += emit("near_identity:rotation:%g" % eps, rotation_axis([0, 0, 1], eps))
        else:
            c, s = np.cos(eps), np.sin(eps)
            M = I.copy()
            M[:2, :2] = [[c, -s], [s, c]]
            out += emit("near_identity:rotation:%g" % eps, M)
    for k in range(3):
        if dim == 3:
            R = _rot(rng)
        else:
            a = rng.uniform(-np.pi, np.pi)
            R = I.copy()
            R[:2, :2] = [[np.cos(a), -np.sin(a)], [np.sin(a), np.cos(a)]]
        T = R.copy()
        T[:dim, dim] = rng.uniform(-5, 5, size=dim)
        out += emit("rigid", T)
        for s in ((0.5, 2.0), (1e-3,), (1e3,))[k]:
            S = T.copy()
            S[:dim, :dim] *= s
            out += emit("similarity:%g" % s, S)
        # mirrors
        Mx = I.copy()
        Mx[k % dim, k % dim] = -1
        out += emit("mirror_axis", Mx)
        out += emit("mirror_rot", T @ Mx)
        # a mirror combined with a change of units: the determinant is negative AND tiny
        # (1e-9) or huge, on the far side of any absolute threshold on det
        MS = (T @ Mx).copy()
        MS[:dim, :dim] *= (0.5, 1e-3, 1e3)[k]
        out += emit("mirror_similarity:%g" % (0.5, 1e-3, 1e3)[k], MS)
        A = I.copy()
        A[:dim, :dim] = np.diag(rng.uniform(0.3, 3.0, size=dim))
        out += emit("aniso", A)
        out += emit("aniso_rot", T @ A)
        Sh = I.copy()
        Sh[0, 1] = rng.uniform(0.2, 1.5)
        if dim == 3:
            Sh[1, 2] = rng.uniform(-1.0, 1.0)
        out += emit("shear", Sh)
        while True:
            L = rng.normal(size=(dim, dim))
            if np.linalg.cond(L) < 1e3 and abs(np.linalg.det(L)) > 1e-2:
                break
        G = I.copy()
        G[:dim, :dim] = L
        G[:dim, dim] = rng.uniform(-3, 3, size=dim)
        out += emit("affine", G)
    # a mirror combined with micrometres -> metres: det = -1e-18 (3-D), below any "is it
    # numerically negative" guard of the size of the machine epsilon
    Mu = (T @ Mx).copy()
    Mu[:dim, :dim] *= 1e-6
    out += emit("mirror_similarity:1e-06", Mu)
    if dim == 3:
        P = I.copy()
        P[:3, :3] *= -1
        out += emit("mirror_point", P)
    # linear part differs from the identity by the same constant in every entry: defeats
    # peak-to-peak "allclose" shortcuts although it is far from the identity
    U = I.copy()
    U[:dim, :dim] += 0.5
    out += emit("offset_ones", U)
    neg = I.copy()
    neg[:dim, :dim] = np.diag([-1.5] + [0.7] * (dim - 1))
    out += emit("aniso_mirror", neg)
    return out


def matrix_class_props(M):
    """(det sign, is_similarity, scale) for the linear part."""
    dim = M.shape[0] - 1
    L = M[:dim, :dim]
    d = np.linalg.det(L)
    s = abs(d) ** (1.0 / dim)
    sim = np.allclose(L @ L.T, s * s * np.eye(dim), rtol=0, atol=1e-9 * max(1.0, s * s))
    return d, sim, s


def masks(rng, n):
    """Yield (tag, mask) for an array of n items."""
    out = []
    out.append(("all_true", np.ones(n, dtype=bool)))
    out.append(("all_false", np.zeros(n, dtype=bool)))
    if n:
        m = np.zeros(n, dtype=bool)
        m[int(rng.integers(n))] = True
        out.append(("single", m))
        out.append(("random_bool", rng.random(n) < 0.6))
        k = int(rng.integers(1, n + 1))
        out.append(("unique_int", np.sort(rng.choice(n, size=k, replace=False))))
        out.append(("perm", rng.permutation(n)))
        out.append(("int_repeat", rng.integers(0, n, size=int(rng.integers(1, 2 * n + 1)))))
    out.append(("empty_int", np.array([], dtype=np.int64)))
    return out
