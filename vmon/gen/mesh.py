"""
G-mesh / G-soup: workload generators for triangle meshes.

Everything that returns "(V, F)" returns integer-coordinate int64 vertices and int64 faces of a
closed, consistently outward-wound surface unless the name says otherwise, so that exact
rational oracles can be evaluated on the very same data.
"""

from __future__ import annotations

import itertools
from fractions import Fraction

import numpy as np


def _det3(a, b, c):
    return (
        int(a[0]) * (int(b[1]) * int(c[2]) - int(b[2]) * int(c[1]))
        - int(a[1]) * (int(b[0]) * int(c[2]) - int(b[2]) * int(c[0]))
        + int(a[2]) * (int(b[0]) * int(c[1]) - int(b[1]) * int(c[0]))
    )


def signed_volume6(V, F):
    """6 x signed volume, exact for integer vertices."""
    return sum(_det3(V[f[0]], V[f[1]], V[f[2]]) for f in F)


def tetra(rng, lo=-9, hi=9):
    while True:
        V = rng.integers(lo, hi + 1, size=(4, 3)).astype(np.int64)
        d = _det3(V[1] - V[0], V[2] - V[0], V[3] - V[0])
        if d != 0:
            break
    F = np.array([[0, 2, 1], [0, 1, 3], [1, 2, 3], [0, 3, 2]], dtype=np.int64)
    if signed_volume6(V, F) < 0:
        F = F[:, ::-1].copy()
    return V, F


def box_int(extents=(2, 3, 4), origin=(0, 0, 0)):
    ex = np.asarray(extents, dtype=np.int64)
    V = np.array(list(itertools.product([0, 1], repeat=3)), dtype=np.int64) * ex + np.asarray(origin, dtype=np.int64)
    # vertex index = 4x + 2y + z
    quads = [
        (0, 1, 3, 2),  # x = 0  (outward -x)
        (4, 6, 7, 5),  # x = 1
        (0, 4, 5, 1),  # y = 0
        (2, 3, 7, 6),  # y = 1
        (0, 2, 6, 4),  # z = 0
        (1, 5, 7, 3),  # z = 1
    ]
    F = []
    for a, b, c, d in quads:
        F += [(a, b, c), (a, c, d)]
    F = np.array(F, dtype=np.int64)
    if signed_volume6(V - V.mean(axis=0).astype(np.int64), F) < 0:
        F = F[:, ::-1].copy()
    return V, F


def hull_int(rng, n=8, lo=-6, hi=6):
    """Convex hull of n random lattice points, outward wound (exact orientation test)."""
    from scipy.spatial import ConvexHull

    while True:
        P = np.unique(rng.integers(lo, hi + 1, size=(n, 3)), axis=0).astype(np.int64)
        if len(P) < 4:
            continue
        try:
            h = ConvexHull(P.astype(np.float64), qhull_options="QJ Pp")
        except Exception:
            continue
        used = np.unique(h.simplices)
        V = P[used]
        remap = -np.ones(len(P), dtype=np.int64)
        remap[used] = np.arange(len(used))
        F = remap[h.simplices]
        # orient each face away from an interior point, exactly (scaled centroid)
        c4 = V[:4].sum(axis=0)  # 4 * interior point of the first simplex is not safe; use all
        cN = V.sum(axis=0)  # N * centroid
        N = len(V)
        ok = True
        out = []
        for f in F:
            a, b, c = (V[f[0]] * N - cN), (V[f[1]] * N - cN), (V[f[2]] * N - cN)
            d = _det3(a, b, c)
            if d == 0:
                ok = False
                break
            out.append(f if d > 0 else f[::-1])
        if not ok:
            continue
        F = np.array(out, dtype=np.int64)
        # closedness: every directed edge has its opposite exactly once
        E = {}
        for f in F:
            for i in range(3):
                e = (int(f[i]), int(f[(i + 1) % 3]))
                E[e] = E.get(e, 0) + 1
        if all(v == 1 and E.get((e[1], e[0]), 0) == 1 for e, v in E.items()):
            return V, F


def voxel_surface(cells):
    """
    Boundary surface of a set of unit cubes (integer cell coordinates) as a triangle mesh
    with shared integer vertices, outward wound.  Any genus / several bodies.
    """
    cells = set(map(tuple, cells))
    verts = {}
    F = []

    def vid(p):
        if p not in verts:
            verts[p] = len(verts)
        return verts[p]

    # for each axis direction the quad corners in outward (counter-clockwise seen from outside) order
    dirs = {
        (1, 0, 0): [(1, 0, 0), (1, 1, 0), (1, 1, 1), (1, 0, 1)],
        (-1, 0, 0): [(0, 0, 0), (0, 0, 1), (0, 1, 1), (0, 1, 0)],
        (0, 1, 0): [(0, 1, 0), (0, 1, 1), (1, 1, 1), (1, 1, 0)],
        (0, -1, 0): [(0, 0, 0), (1, 0, 0), (1, 0, 1), (0, 0, 1)],
        (0, 0, 1): [(0, 0, 1), (1, 0, 1), (1, 1, 1), (0, 1, 1)],
        (0, 0, -1): [(0, 0, 0), (0, 1, 0), (1, 1, 0), (1, 0, 0)],
    }
    for c in sorted(cells):
        for d, quad in dirs.items():
            nb = (c[0] + d[0], c[1] + d[1], c[2] + d[2])
            if nb in cells:
                continue
            ids = [vid((c[0] + q[0], c[1] + q[1], c[2] + q[2])) for q in quad]
            F += [(ids[0], ids[1], ids[2]), (ids[0], ids[2], ids[3])]
    V = np.zeros((len(verts), 3), dtype=np.int64)
    for p, i in verts.items():
        V[i] = p
    return V, np.array(F, dtype=np.int64)


def frame_torus(scale=(1, 1, 1)):
    """3x3x1 ring of cubes without the centre: genus 1, integer vertices, manifold."""
    cells = [(x, y, 0) for x in range(3) for y in range(3) if (x, y) != (1, 1)]
    V, F = voxel_surface(cells)
    return V * np.asarray(scale, dtype=np.int64), F


def l_prism():
    cells = [(0, 0, 0), (1, 0, 0), (2, 0, 0), (0, 1, 0), (0, 2, 0), (0, 0, 1)]
    return voxel_surface(cells)


def random_polycube(rng, n=5):
    """Face-connected polycube whose surface is an edge-manifold (retry otherwise)."""
    for _ in range(200):
        cells = {(0, 0, 0)}
        while len(cells) < n:
            c = list(cells)[int(rng.integers(len(cells)))]
            d = [(1, 0, 0), (-1, 0, 0), (0, 1, 0), (0, -1, 0), (0, 0, 1), (0, 0, -1)][int(rng.integers(6))]
            cells.add((c[0] + d[0], c[1] + d[1], c[2] + d[2]))
        V, F = voxel_surface(cells)
        if is_closed_manifold(F):
            return V, F
    return box_int((1, 1, 1))


def is_closed_manifold(F):
    E = {}
    for f in F:
        for i in range(3):
            e = (int(f[i]), int(f[(i + 1) % 3]))
            E[e] = E.get(e, 0) + 1
    return all(v == 1 and E.get((e[1], e[0]), 0) == 1 for e, v in E.items())


def octahedron(r=(2, 3, 4)):
    V = np.array(
        [[r[0], 0, 0], [-r[0], 0, 0], [0, r[1], 0], [0, -r[1], 0], [0, 0, r[2]], [0, 0, -r[2]]],
        dtype=np.int64,
    )
    F = np.array(
        [[0, 2, 4], [2, 1, 4], [1, 3, 4], [3, 0, 4], [2, 0, 5], [1, 2, 5], [3, 1, 5], [0, 3, 5]],
        dtype=np.int64,
    )
    return V, F


def pillow():
    """Two coincident triangles with opposite winding: closed, zero volume."""
    V = np.array([[0, 0, 0], [3, 0, 0], [0, 2, 1]], dtype=np.int64)
    F = np.array([[0, 1, 2], [0, 2, 1]], dtype=np.int64)
    return V, F


def concat(parts):
    Vs, Fs, off = [], [], 0
    for V, F in parts:
        Vs.append(V)
        Fs.append(F + off)
        off += len(V)
    return np.vstack(Vs), np.vstack(Fs)


def invert(V, F):
    return V, F[:, ::-1].copy()


def translate(V, t):
    return V + np.asarray(t, dtype=V.dtype)


# ------------------------------------------------------------------ rational rotations


def rational_rotation(rng, maxq=4):
    """3x3 rotation with rational entries from an integer quaternion (exact)."""
    while True:
        w, x, y, z = [int(v) for v in rng.integers(-maxq, maxq + 1, size=4)]
        n = w * w + x * x + y * y + z * z
        if n:
            break
    R = [
        [w * w + x * x - y * y - z * z, 2 * (x * y - w * z), 2 * (x * z + w * y)],
        [2 * (x * y + w * z), w * w - x * x + y * y - z * z, 2 * (y * z - w * x)],
        [2 * (x * z - w * y), 2 * (y * z + w * x), w * w - x * x - y * y + z * z],
    ]
    return [[Fraction(v, n) for v in row] for row in R]


def frac_to_float(M):
    return np.array([[float(v) for v in row] for row in M], dtype=np.float64)


# ------------------------------------------------------------------ catalogues


def closed_meshes(rng, count=12, allow_multibody=True):
    """Yield (tag, V, F) integer closed oriented meshes of varied classes."""
    fixed = [
        ("box", *box_int((2, 3, 4), (-1, -2, 1))),
        ("octahedron", *octahedron()),
        ("frame_torus", *frame_torus((2, 1, 3))),
        ("l_prism", *l_prism()),
    ]
    for item in fixed:
        yield item
    k = 0
    while k < count:
        r = int(rng.integers(0, 6))
        if r == 0:
            yield ("tetra",) + tetra(rng)
        elif r == 1:
            yield ("hull",) + hull_int(rng, int(rng.integers(5, 13)))
        elif r == 2:
            yield ("polycube",) + random_polycube(rng, int(rng.integers(2, 8)))
        elif r == 3 and allow_multibody:
            a = hull_int(rng, 7)
            b = tetra(rng)
            b = (translate(b[0], [30, 0, 0]), b[1])
            yield ("multibody_disjoint",) + concat([a, b])
        elif r == 4 and allow_multibody:
            a = box_int((6, 6, 6), (-3, -3, -3))
            b = invert(*box_int((2, 2, 2), (-1, -1, -1)))
            yield ("nested_cavity",) + concat([a, b])
        elif r == 5 and allow_multibody:
            a = box_int((4, 4, 4))
            b = box_int((4, 4, 4), (2, 2, 2))
            yield ("overlapping_shells",) + concat([a, b])
        else:
            yield ("hull",) + hull_int(rng, 9)
        k += 1


def to_trimesh(V, F, **kw):
    import trimesh

    kw.setdefault("process", False)
    return trimesh.Trimesh(vertices=np.asarray(V, dtype=np.float64).copy(), faces=np.asarray(F).copy(), **kw)


# ------------------------------------------------------------------ soups


def all_face_arrays(nverts, nfaces):
    """Every (nfaces,3) array with entries < nverts (including repeated indices)."""
    tri = list(itertools.product(range(nverts), repeat=3))
    for combo in itertools.product(tri, repeat=nfaces):
        yield np.array(combo, dtype=np.int64).reshape(nfaces, 3)


def random_soup(rng, nverts=None, nfaces=None):
    nverts = nverts or int(rng.integers(3, 40))
    nfaces = nfaces or int(rng.integers(1, 200))
    return rng.integers(0, nverts, size=(nfaces, 3)).astype(np.int64), nverts


def fan(k=4):
    """k triangles sharing one edge (non-manifold for k>=3)."""
    F = [[0, 1, 2 + i] for i in range(k)]
    return np.array(F, dtype=np.int64), 2 + k


def bowtie():
    return np.array([[0, 1, 2], [0, 3, 4]], dtype=np.int64), 5


def moebius(n=8):
    """Moebius strip with n quads (2n triangles), non-orientable."""
    F = []
    for i in range(n):
        a, b = 2 * i, 2 * i + 1
        if i < n - 1:
            c, d = 2 * (i + 1), 2 * (i + 1) + 1
        else:
            c, d = 1, 0  # twist
        F += [[a, b, c], [b, d, c]]
    return np.array(F, dtype=np.int64), 2 * n


def open_grid(nx=3, ny=3):
    idx = lambda i, j: i * (ny + 1) + j
    F = []
    for i in range(nx):
        for j in range(ny):
            F += [[idx(i, j), idx(i + 1, j), idx(i + 1, j + 1)], [idx(i, j), idx(i + 1, j + 1), idx(i, j + 1)]]
    V = np.array([[i, j, 0] for i in range(nx + 1) for j in range(ny + 1)], dtype=np.int64)
    return V, np.array(F, dtype=np.int64)
