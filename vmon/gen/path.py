"""
G-path: planar drawings made of disjoint / nested simple closed curves with a known answer.

A *drawing* is a forest of rings.  Every ring is a simple closed curve given by base edges:

    ("L", P, Q)                 straight edge between integer points P and Q
    ("A", (cx, cy), r, t0, t1)  circular edge, counter-clockwise from angle t0 to t1
                                (optionally followed by its exact end nodes P, Q)

Ring kinds: rect, convex (cut-corner polygon), star, rectilinear (L / U / stairs), circle,
bullet (rectangle capped by a half circle: lines and an arc in one ring).  Polygon vertices
and circle centres / radii are integers, so area (Fraction, shoelace) and the squared edge
lengths are exact.  Children are placed strictly inside a "safe box" of their parent and
strictly apart from each other (gap >= 2 units), nesting depth <= 3
(shell 0 / hole 1 / island 2 / hole in island 3).

A *presentation* of a drawing cuts every ring into Line (polyline) and Arc (three point)
entities: arcs are split at random angles, runs of straight edges are cut at random nodes,
the ring start is rotated, the ring is walked in either direction, every entity is randomly
reversed, the entity list and the vertex rows are permuted, and coincident end points are
stored as SEPARATE vertex rows (mode "unmerged"), shared rows ("merged") or a mixture.

Everything is driven by a `random.Random`, so (drawing seed, presentation seed) replays a case.
"""

from __future__ import annotations

import math
from fractions import Fraction

import numpy as np

TWO_PI = 2.0 * math.pi


# ----------------------------------------------------------------------------
# exact helpers


def shoelace2(pts):
    """Twice the signed area of an integer polygon (exact int)."""
    s = 0
    n = len(pts)
    for i in range(n):
        x0, y0 = pts[i]
        x1, y1 = pts[(i + 1) % n]
        s += int(x0) * int(y1) - int(x1) * int(y0)
    return s


def _orient(a, b, c):
    return (b[0] - a[0]) * (c[1] - a[1]) - (b[1] - a[1]) * (c[0] - a[0])


def _on_seg(a, b, c):
    return min(a[0], b[0]) <= c[0] <= max(a[0], b[0]) and min(a[1], b[1]) <= c[1] <= max(a[1], b[1])


def _seg_intersect(p1, p2, p3, p4):
    d1, d2 = _orient(p3, p4, p1), _orient(p3, p4, p2)
    d3, d4 = _orient(p1, p2, p3), _orient(p1, p2, p4)
    if ((d1 > 0 and d2 < 0) or (d1 < 0 and d2 > 0)) and ((d3 > 0 and d4 < 0) or (d3 < 0 and d4 > 0)):
        return True
    if d1 == 0 and _on_seg(p3, p4, p1):
        return True
    if d2 == 0 and _on_seg(p3, p4, p2):
        return True
    if d3 == 0 and _on_seg(p1, p2, p3):
        return True
    if d4 == 0 and _on_seg(p1, p2, p4):
        return True
    return False


def is_simple_polygon(pts):
    """Exact test on integer points: no repeated vertex, no zero / straight corner, no crossing."""
    n = len(pts)
    if n < 3 or len(set(pts)) != n:
        return False
    for i in range(n):
        if _orient(pts[i - 1], pts[i], pts[(i + 1) % n]) == 0:
            return False
    for i in range(n):
        for j in range(i + 1, n):
            if j == i + 1 or (i == 0 and j == n - 1):
                continue
            if _seg_intersect(pts[i], pts[(i + 1) % n], pts[j], pts[(j + 1) % n]):
                return False
    return True


# ----------------------------------------------------------------------------
# rings


class Ring:
    __slots__ = ("kind", "edges", "depth", "parent", "children", "inner", "area", "perimeter",
                 "arc_area", "has_arc", "has_line", "bbox", "params")

    def __init__(self, kind, edges, inner, params=None):
        self.kind = kind
        self.edges = edges
        self.inner = inner
        self.depth = 0
        self.parent = None
        self.children = []
        self.params = params or {}
        self._measure()

    def _measure(self):
        area = Fraction(0)
        arc_area = 0.0
        per = 0.0
        pts = []
        xs, ys = [], []
        self.has_arc = self.has_line = False
        for e in self.edges:
            if e[0] == "L":
                self.has_line = True
                P, Q = e[1], e[2]
                pts.append(P)
                per += math.sqrt((Q[0] - P[0]) ** 2 + (Q[1] - P[1]) ** 2)
                xs += [P[0], Q[0]]
                ys += [P[1], Q[1]]
            else:
                self.has_arc = True
                (cx, cy), r, t0, t1 = e[1], e[2], e[3], e[4]
                span = t1 - t0
                per += r * span
                # region between the chord and the arc
                arc_area += 0.5 * r * r * (span - math.sin(span))
                pts.append(e[5] if len(e) > 5 else _arc_point_exact(cx, cy, r, t0))
                # an arc that is a whole circle or a half circle of the generator: bbox from the
                # quadrant points inside the span
                k0 = math.ceil(t0 / (math.pi / 2) - 1e-12)
                k1 = math.floor(t1 / (math.pi / 2) + 1e-12)
                for k in range(k0, k1 + 1):
                    q = _arc_point_exact(cx, cy, r, k * math.pi / 2)
                    xs.append(q[0])
                    ys.append(q[1])
                for t in (t0, t1):
                    q = _arc_point_exact(cx, cy, r, t)
                    xs.append(q[0])
                    ys.append(q[1])
        if len(self.edges) == 1 and self.edges[0][0] == "A":
            # full circle
            r = self.edges[0][2]
            self.area = math.pi * r * r
            self.arc_area = self.area
        elif self.params.get("float_nodes"):
            # nodes that are not integers (opt-in: fillets, inscribed polygons): float shoelace of
            # the chord polygon about its first node + the circular segments
            x0, y0 = float(pts[0][0]), float(pts[0][1])
            q = [(float(a) - x0, float(b) - y0) for a, b in pts]
            poly = 0.5 * math.fsum(q[i][0] * q[(i + 1) % len(q)][1] - q[(i + 1) % len(q)][0] * q[i][1]
                                   for i in range(len(q)))
            assert poly > 0, "rings are generated counter-clockwise"
            self.area = poly + arc_area
            self.arc_area = arc_area
        else:
            poly = Fraction(shoelace2([(int(round(p[0])), int(round(p[1]))) for p in pts]), 2)
            assert poly > 0, "rings are generated counter-clockwise"
            self.area = float(poly) + arc_area if self.has_arc else poly
            self.arc_area = arc_area
        self.perimeter = per
        self.bbox = (min(xs), min(ys), max(xs), max(ys))


_QUAD = {0: (1, 0), 1: (0, 1), 2: (-1, 0), 3: (0, -1)}


def _arc_point_exact(cx, cy, r, t):
    """Point of a circle; exact integers at multiples of 90 degrees."""
    q = t / (math.pi / 2)
    k = round(q)
    if abs(q - k) < 1e-12:
        ux, uy = _QUAD[k % 4]
        return (cx + r * ux, cy + r * uy)
    return (cx + r * math.cos(t), cy + r * math.sin(t))


def _poly_ring(kind, pts, inner, params=None):
    if shoelace2(pts) < 0:
        pts = pts[::-1]
    edges = [("L", pts[i], pts[(i + 1) % len(pts)]) for i in range(len(pts))]
    return Ring(kind, edges, inner, params)


def _shrink(box, m):
    x0, y0, x1, y1 = box
    return (x0 + m, y0 + m, x1 - m, y1 - m)


def make_rect(rnd, box):
    x0, y0, x1, y1 = box
    pts = [(x0, y0), (x1, y0), (x1, y1), (x0, y1)]
    return _poly_ring("rect", pts, _shrink(box, 3))


def make_convex(rnd, box):
    x0, y0, x1, y1 = box
    w, h = x1 - x0, y1 - y0
    cuts = []
    for _ in range(4):
        if rnd.random() < 0.25:
            cuts.append((0, 0))
        else:
            cuts.append((rnd.randint(1, max(1, w // 3)), rnd.randint(1, max(1, h // 3))))
    (a0, b0), (a1, b1), (a2, b2), (a3, b3) = cuts
    pts = []
    # bottom-left, bottom-right, top-right, top-left corners, counter-clockwise
    pts += [(x0, y0)] if a0 == 0 else [(x0, y0 + b0), (x0 + a0, y0)]
    pts += [(x1, y0)] if a1 == 0 else [(x1 - a1, y0), (x1, y0 + b1)]
    pts += [(x1, y1)] if a2 == 0 else [(x1, y1 - b2), (x1 - a2, y1)]
    pts += [(x0, y1)] if a3 == 0 else [(x0 + a3, y1), (x0, y1 - b3)]
    A = max(c[0] for c in cuts)
    B = max(c[1] for c in cuts)
    inner = (x0 + A + 3, y0 + B + 3, x1 - A - 3, y1 - B - 3)
    return _poly_ring("convex", pts, inner)


def make_star(rnd, box):
    x0, y0, x1, y1 = box
    cx, cy = (x0 + x1) // 2, (y0 + y1) // 2
    R = min(x1 - x0, y1 - y0) // 2
    if R < 12:
        return make_rect(rnd, box)
    for _ in range(20):
        n = rnd.randint(3, 8)
        rin = R * rnd.uniform(0.35, 0.7)
        ph = rnd.uniform(0, TWO_PI)
        pts = []
        for k in range(2 * n):
            rad = R if k % 2 == 0 else rin
            t = ph + k * math.pi / n
            pts.append((int(round(cx + rad * math.cos(t))), int(round(cy + rad * math.sin(t)))))
        if is_simple_polygon(pts) and shoelace2(pts) > 0:
            ring = _poly_ring("star", pts, (cx, cy, cx, cy), {"points": n})
            # radius of the largest disc about the centre that stays inside the star
            dmin = float(ring_distance(ring, [(cx, cy)])[0])
            s = max(0, int((dmin - 3) / math.sqrt(2)))
            ring.inner = (cx - s, cy - s, cx + s, cy + s)
            return ring
    return make_rect(rnd, box)


def make_rectilinear(rnd, box):
    x0, y0, x1, y1 = box
    w, h = x1 - x0, y1 - y0
    if w < 12 or h < 12:
        return make_rect(rnd, box)
    sub = rnd.choice(["L", "U", "stairs"])
    if sub == "L":
        nx, ny = rnd.randint(2, w - 6), rnd.randint(2, h - 6)
        pts = [(x0, y0), (x1, y0), (x1, y1 - ny), (x1 - nx, y1 - ny), (x1 - nx, y1), (x0, y1)]
        left = (x0 + 3, y0 + 3, x1 - nx - 3, y1 - 3)
        bottom = (x0 + 3, y0 + 3, x1 - 3, y1 - ny - 3)
        inner = max((left, bottom), key=_box_area)
    elif sub == "U":
        a = rnd.randint(2, (w - 4) // 2 - 1) if (w - 4) // 2 - 1 >= 2 else 2
        b = rnd.randint(3, h - 3)
        pts = [(x0, y0), (x1, y0), (x1, y1), (x1 - a, y1), (x1 - a, y0 + b), (x0 + a, y0 + b),
               (x0 + a, y1), (x0, y1)]
        inner = (x0 + 3, y0 + 3, x1 - 3, y0 + b - 3)
    else:
        k = rnd.randint(2, 4)
        sx, sy = w // (k + 1), h // (k + 1)
        if sx < 2 or sy < 2:
            return make_rect(rnd, box)
        pts = [(x0, y0), (x1, y0)]
        # staircase going up-left from the bottom-right corner
        x, y = x1, y0
        for _ in range(k):
            y += sy
            pts.append((x, y))
            x -= sx
            pts.append((x, y))
        pts.append((x, y1))
        pts.append((x0, y1))
        inner = (x0 + 3, y0 + 3, x - 3, y1 - 3)
    if not is_simple_polygon(pts):
        return make_rect(rnd, box)
    return _poly_ring("rectilinear", pts, inner, {"sub": sub})


def make_circle(rnd, box):
    x0, y0, x1, y1 = box
    cx, cy = (x0 + x1) // 2, (y0 + y1) // 2
    r = min(x1 - x0, y1 - y0) // 2
    if r < 6:
        return make_rect(rnd, box)
    t0 = rnd.choice([0.0, 0.0, math.pi / 2, rnd.uniform(0, TWO_PI)])
    s = int((r - 3) * 0.7)
    ring = Ring("circle", [("A", (cx, cy), r, t0, t0 + TWO_PI)], (cx - s, cy - s, cx + s, cy + s))
    return ring


def make_bullet(rnd, box):
    x0, y0, x1, y1 = box
    w, h = x1 - x0, y1 - y0
    if w % 2:
        x1 -= 1
        w -= 1
    r = w // 2
    hh = h - r
    if r < 6 or hh < 4:
        return make_rect(rnd, box)
    cx, cy = x0 + r, y0 + hh
    edges = [
        ("L", (x0, y0), (x1, y0)),
        ("L", (x1, y0), (x1, cy)),
        ("A", (cx, cy), r, 0.0, math.pi),
        ("L", (x0, cy), (x0, y0)),
    ]
    return Ring("bullet", edges, (x0 + 3, y0 + 3, x1 - 3, cy))


def make_horseshoe(rnd, box, thick=None):
    """
    A U-shaped curve (opening towards any of the four sides) whose centroid lies in its own bay,
    outside the curve.  params['bay'] is the empty box of the concave side: a disjoint curve placed
    there covers the centroid of the horseshoe without being inside it.  A thick horseshoe also
    offers params['lining']: the points >= 3 away from its outline form a thin horseshoe that is
    a hole of it whose centroid lies outside the shell altogether.
    """
    x0, y0, x1, y1 = box
    w, h = x1 - x0, y1 - y0
    if w < 24 or h < 24:
        return make_rect(rnd, box)
    q = rnd.randint(0, 3)
    cw, ch = (w, h) if q % 2 == 0 else (h, w)  # canonical frame size
    cb = (x0, y0, x0 + cw, y0 + ch)
    thick = (rnd.random() < 0.4) if thick is None else thick
    if thick and min(cw, ch) >= 40:
        t = rnd.randint(9, max(9, min(cw // 4, ch // 4, 14)))
    else:
        thick = False
        t = rnd.randint(2, 3)

    def U(m, t):
        # outline of the U whose outer box is cb shrunk by m (not at the open side), wall t
        a0, b0, a1, b1 = cb[0] + m, cb[1] + m, cb[2] - m, cb[3] - m
        return [(a0, b0), (a1, b0), (a1, b1), (a1 - t, b1), (a1 - t, b0 + t), (a0 + t, b0 + t), (a0 + t, b1), (a0, b1)]

    def back(pts):
        # canonical frame -> the frame of `box`; the canonical frame has the size (cw, ch)
        out = []
        for pt in pts:
            u, v = pt[0] - x0, pt[1] - y0
            if q == 0:
                out.append((x0 + u, y0 + v))
            elif q == 1:
                out.append((x0 + (ch - v), y0 + u))
            elif q == 2:
                out.append((x0 + (cw - u), y0 + (ch - v)))
            else:
                out.append((x0 + v, y0 + (cw - u)))
        return out

    def back_box(b):
        (a, c), (d, e) = back([(b[0], b[1]), (b[2], b[3])])
        return (min(a, d), min(c, e), max(a, d), max(c, e))

    pts = back(U(0, t))
    bay = back_box((cb[0] + t + 3, cb[1] + t + 3, cb[2] - t - 3, cb[3] - 1))
    params = {"bay": bay, "thick": bool(thick), "turn": q}
    if thick:
        params["lining"] = back(U(3, t - 6))
    if not is_simple_polygon(pts):
        return make_rect(rnd, box)
    return _poly_ring("horseshoe", pts, (x0, y0, x0, y0), params)


def crowned_edge(P, Q, sag):
    """
    The shallow arc from P to Q (counter-clockwise about its centre) that bulges by `sag` to the right
    of the direction P -> Q, i.e. outwards for a convex ring walked counter-clockwise:
    ("A", (cx, cy), R, t0, t1) with R = (L^2 / 4 + sag^2) / (2 sag).
    """
    dx, dy = Q[0] - P[0], Q[1] - P[1]
    L = math.hypot(dx, dy)
    R = (L * L / 4.0 + sag * sag) / (2.0 * sag)
    nx, ny = dy / L, -dx / L
    d = R - sag
    cx, cy = (P[0] + Q[0]) / 2.0 - nx * d, (P[1] + Q[1]) / 2.0 - ny * d
    half = math.asin(min(1.0, L / (2.0 * R)))
    tm = math.atan2(ny, nx)
    return ("A", (cx, cy), R, tm - half, tm + half, tuple(P), tuple(Q))


def make_crowned(rnd, box):
    """
    A rectangle with one to four sides replaced by shallow arcs bulging outwards (a crowned plate):
    sagitta = chord * 10^U(-4.7, -2.5), i.e. arcs spanning 1.6e-4 ... 0.025 rad with radii of
    40 ... 6000 chords.  Opt-in kind (not part of the default kinds).
    """
    x0, y0, x1, y1 = box
    c = [(x0, y0), (x1, y0), (x1, y1), (x0, y1)]
    crowned = [rnd.random() < 0.5 for _ in range(4)]
    if not any(crowned):
        crowned[rnd.randrange(4)] = True
    edges, sags = [], []
    for i in range(4):
        P, Q = c[i], c[(i + 1) % 4]
        if crowned[i]:
            L = math.hypot(Q[0] - P[0], Q[1] - P[1])
            sag = L * 10.0 ** rnd.uniform(-4.7, -2.5)
            sags.append(sag)
            edges.append(crowned_edge(P, Q, sag))
        else:
            edges.append(("L", P, Q))
    return Ring("crowned", edges, _shrink(box, 3), {"sagittas": sags})


MAKERS = {
    "rect": make_rect, "convex": make_convex, "star": make_star,
    "rectilinear": make_rectilinear, "circle": make_circle, "bullet": make_bullet,
    "horseshoe": make_horseshoe, "crowned": make_crowned,
}
# kinds that are only used when asked for by name
OPT_IN_KINDS = {"crowned"}


def _box_area(b):
    return max(0, b[2] - b[0]) * max(0, b[3] - b[1])


def _split_box(rnd, box, k, gap=4):
    """Cut a box into k side by side boxes separated by a gap."""
    x0, y0, x1, y1 = box
    if k <= 1:
        return [box]
    horizontal = (x1 - x0) >= (y1 - y0)
    lo, hi = (x0, x1) if horizontal else (y0, y1)
    size = (hi - lo - gap * (k - 1)) // k
    out = []
    for i in range(k):
        a = lo + i * (size + gap)
        b = a + size
        out.append((a, y0, b, y1) if horizontal else (x0, a, x1, b))
    return out


def _jitter_box(rnd, box, min_size):
    """A random sub-box of `box` at least min_size wide and high."""
    x0, y0, x1, y1 = box
    w, h = x1 - x0, y1 - y0
    nw = rnd.randint(max(min_size, w * 2 // 3), w)
    nh = rnd.randint(max(min_size, h * 2 // 3), h)
    ox = rnd.randint(0, w - nw)
    oy = rnd.randint(0, h - nh)
    return (x0 + ox, y0 + oy, x0 + ox + nw, y0 + oy + nh)


class Drawing:
    def __init__(self, rings, seed=None, kinds=None):
        self.rings = rings
        self.seed = seed
        self.kinds = kinds

    # ---- exact expectations
    @property
    def has_arc(self):
        return any(r.has_arc for r in self.rings)

    @property
    def input_class(self):
        a = any(r.has_arc for r in self.rings)
        l = any(r.has_line for r in self.rings)
        return "mixed" if a and l else ("arcs" if a else "lines")

    def shells(self):
        return [i for i, r in enumerate(self.rings) if r.depth % 2 == 0]

    def expected_edges(self):
        """(shell ring, hole ring) pairs: even depth parent with its direct children."""
        return {(r.parent, i) for i, r in enumerate(self.rings) if r.depth % 2 == 1}

    def region_area(self, i):
        r = self.rings[i]
        a = r.area
        for c in r.children:
            a = a - self.rings[c].area
        return a

    def area(self):
        tot = 0
        for i in self.shells():
            tot = tot + self.region_area(i)
        return float(tot)

    def area_exact(self):
        """Fraction when no ring has an arc, else None."""
        if self.has_arc:
            return None
        return sum((self.region_area(i) for i in self.shells()), Fraction(0))

    def length(self):
        return float(sum(r.perimeter for r in self.rings))

    def arc_length(self):
        tot = 0.0
        for r in self.rings:
            for e in r.edges:
                if e[0] == "A":
                    tot += e[2] * (e[4] - e[3])
        return tot

    def arc_area(self):
        return float(sum(r.arc_area for r in self.rings))

    def bounds(self):
        b = np.array([r.bbox for r in self.rings], dtype=np.float64)
        return np.array([[b[:, 0].min(), b[:, 1].min()], [b[:, 2].max(), b[:, 3].max()]])

    def depth_profile(self):
        return tuple(sorted(r.depth for r in self.rings))

    def shape(self):
        """Canonical nesting shape (forest as nested sorted tuples of kinds)."""

        def rec(i):
            r = self.rings[i]
            return (r.kind, tuple(sorted(rec(c) for c in r.children)))

        return tuple(sorted(rec(i) for i, r in enumerate(self.rings) if r.parent is None))

    def describe(self):
        return [{"kind": r.kind, "depth": r.depth, "parent": r.parent, "bbox": list(r.bbox)} for r in self.rings]


def make_drawing(rnd, kinds=None, max_depth=3, size=None, max_rings=10):
    """
    kinds: allowed ring kinds (default all).  Returns a Drawing with 1..max_rings rings.

    The drawing stays below ~800 units across: Path.merge_vertices rounds to
    `tol.merge * scale` (1e-5 x diagonal), i.e. a 0.01 grid here, while distinct generated
    points are >= 0.9 apart.
    """
    kinds = list(kinds or [k for k in MAKERS if k not in OPT_IN_KINDS])
    size = size or rnd.choice([40, 80, 160, 240])
    ox, oy = rnd.randint(-200, 200), rnd.randint(-200, 200)
    ntop = rnd.choice([1, 1, 2, 2, 3])
    rings = []

    def place(box, depth, parent):
        kind = rnd.choice(kinds)
        sub = _jitter_box(rnd, box, 8)
        ring = MAKERS[kind](rnd, sub)
        ring.depth, ring.parent = depth, parent
        idx = len(rings)
        rings.append(ring)
        if parent is not None:
            rings[parent].children.append(idx)
        if ring.kind == "horseshoe":
            bay = ring.params["bay"]
            if min(bay[2] - bay[0], bay[3] - bay[1]) >= 8 and rnd.random() < 0.8 and len(rings) < max_rings:
                # a disjoint curve of the same depth in the concave side, over the horseshoe's centroid
                k2 = rnd.choice([k for k in ("rect", "convex", "circle", "star") if k in kinds] or ["rect"])
                sib = MAKERS[k2](rnd, bay)
                sib.depth, sib.parent = depth, parent
                sidx = len(rings)
                rings.append(sib)
                if parent is not None:
                    rings[parent].children.append(sidx)
            if ring.params.get("lining") and depth < max_depth and rnd.random() < 0.8 and len(rings) < max_rings:
                lin = _poly_ring("horseshoe", ring.params["lining"], (0, 0, 0, 0), {"lining_of": idx})
                lin.depth, lin.parent = depth + 1, idx
                rings.append(lin)
                ring.children.append(len(rings) - 1)
        inner = ring.inner
        iw, ih = inner[2] - inner[0], inner[3] - inner[1]
        if depth < max_depth and min(iw, ih) >= 10 and rnd.random() < 0.75 and len(rings) < max_rings:
            k = 1
            if max(iw, ih) >= 30 and rnd.random() < 0.5:
                k = 2
            if max(iw, ih) >= 60 and rnd.random() < 0.25:
                k = 3
            for cell in _split_box(rnd, inner, k):
                if (min(cell[2] - cell[0], cell[3] - cell[1]) >= 8 and rnd.random() < 0.85
                        and len(rings) < max_rings):
                    place(cell, depth + 1, idx)
        return idx

    top = (ox, oy, ox + size * ntop, oy + size)
    for cell in _split_box(rnd, top, ntop, gap=rnd.randint(3, 20)):
        place(cell, 0, None)
    return Drawing(rings, kinds=kinds)


def drawing_from_seed(seed, kinds=None, max_depth=3, max_rings=10):
    import random

    d = make_drawing(random.Random(int(seed)), kinds=kinds, max_depth=max_depth, max_rings=max_rings)
    d.seed = int(seed)
    return d


# ----------------------------------------------------------------------------
# opt-in drawings with features next to the library's resolution (float nodes)


def _link(rings, child, parent):
    rings[child].parent = parent
    rings[child].depth = rings[parent].depth + 1
    rings[parent].children.append(child)


def make_rounded_ring(rnd, box, radius, corners=None):
    """
    A rectangle (float box) whose corners are broken by a fillet (quarter arc), a chamfer (one short
    straight edge) or left sharp; straight edges start and end exactly at the nodes of the corner
    pieces.  corners: four of "fillet" / "chamfer" / "sharp" (default: random, at least one fillet).
    """
    x0, y0, x1, y1 = [float(v) for v in box]
    r = float(radius)
    if corners is None:
        corners = [rnd.choice(["fillet", "fillet", "fillet", "chamfer", "sharp"]) for _ in range(4)]
        if "fillet" not in corners:
            corners[rnd.randrange(4)] = "fillet"
    # corner k: centre of the fillet, start angle (quarter turns); walking counter-clockwise the
    # corners come in the order bottom-right, top-right, top-left, bottom-left
    cen = [(x1 - r, y0 + r, 3), (x1 - r, y1 - r, 0), (x0 + r, y1 - r, 1), (x0 + r, y0 + r, 2)]
    sharp = [(x1, y0), (x1, y1), (x0, y1), (x0, y0)]
    pieces = []  # per corner: (entry node, exit node, edge or None)
    for k in range(4):
        cx, cy, q = cen[k]
        a = _arc_point_exact(cx, cy, r, q * math.pi / 2)
        b = _arc_point_exact(cx, cy, r, (q + 1) * math.pi / 2)
        if corners[k] == "fillet":
            pieces.append((a, b, ("A", (cx, cy), r, q * math.pi / 2, (q + 1) * math.pi / 2, a, b)))
        elif corners[k] == "chamfer":
            pieces.append((a, b, ("L", a, b)))
        else:
            pieces.append((sharp[k], sharp[k], None))
    edges = []
    for k in range(4):
        prev = pieces[k - 1]
        edges.append(("L", prev[1], pieces[k][0]))
        if pieces[k][2] is not None:
            edges.append(pieces[k][2])
    return Ring("rounded", edges, (x0, y0, x1, y1), {"float_nodes": True, "radius": r, "corners": list(corners)})


def make_fillet_drawing(rnd):
    """
    One or two rounded plates (optionally with a rounded window) whose corner radius lies between
    3e-6 and 5e-4 of the diagonal of the drawing - on both sides of the grid to which
    Path.merge_vertices rounds (1e-5 ... 1e-4 of the diagonal).  Everything else (sides, gaps) is
    larger than 5 % of the plate.  Float placement: where the corners fall on the grid is random.
    """
    size = 10.0 ** rnd.uniform(0.0, 3.3)
    w, h = size * rnd.uniform(0.5, 1.0), size * rnd.uniform(0.5, 1.0)
    ox, oy = rnd.uniform(-2.0, 2.0) * size, rnd.uniform(-2.0, 2.0) * size
    n = rnd.choice([1, 1, 2])
    total = math.hypot(w * n * 1.2, h)
    rings = []
    for i in range(n):
        box = (ox + i * 1.2 * w, oy, ox + i * 1.2 * w + w, oy + h)
        rad = total * 10.0 ** rnd.uniform(-5.5, -3.3)
        rings.append(make_rounded_ring(rnd, box, rad))
        outer = len(rings) - 1
        if rnd.random() < 0.5:
            m = rnd.uniform(0.1, 0.3)
            inner = (box[0] + m * w, box[1] + m * h, box[2] - m * w, box[3] - m * h)
            rad = total * 10.0 ** rnd.uniform(-5.5, -3.3)
            rings.append(make_rounded_ring(rnd, inner, rad))
            _link(rings, len(rings) - 1, outer)
    return Drawing(rings, kinds=["rounded"])


def make_close_drawing(rnd):
    """
    Two nested curves separated by a gap of 1e-4 ... 6e-4 of the radius of the outer circle - less
    than the sagitta of the chords into which an arc is legitimately polygonised (8e-4 ... 1.4e-3 of the
    radius), more than the merge grid of the drawing (<= 2.9e-4 of the radius; the control points
    are checked to be further apart than that by the caller):
      fit         a concentric circle
      eccentric   a smaller circle touching distance away from the outer one at one side
      inscribed   a convex polygon with 3-6 corners at the gap from the outer circle
    """
    R = rnd.randint(10, 120)
    cx, cy = rnd.randint(-200, 200), rnd.randint(-200, 200)
    gap = R * 10.0 ** rnd.uniform(-4.0, -3.22)
    t0 = rnd.choice([0.0, math.pi / 2, rnd.uniform(0, TWO_PI)])
    outer = Ring("circle", [("A", (cx, cy), R, t0, t0 + TWO_PI)], (cx, cy, cx, cy))
    variant = rnd.choice(["fit", "fit", "eccentric", "inscribed"])
    if variant == "fit":
        t1 = rnd.uniform(0, TWO_PI)
        inner = Ring("circle", [("A", (cx, cy), R - gap, t1, t1 + TWO_PI)], (cx, cy, cx, cy))
    elif variant == "eccentric":
        rho = R * rnd.uniform(0.3, 0.8)
        a = rnd.uniform(0, TWO_PI)
        d = R - gap - rho
        t1 = rnd.uniform(0, TWO_PI)
        c2 = (cx + d * math.cos(a), cy + d * math.sin(a))
        inner = Ring("circle", [("A", c2, rho, t1, t1 + TWO_PI)], (cx, cy, cx, cy))
    else:
        n = rnd.randint(3, 6)
        while True:
            ang = sorted(rnd.uniform(0, TWO_PI) for _ in range(n))
            d = [(ang[(i + 1) % n] - ang[i]) % TWO_PI for i in range(n)]
            if min(d) > 0.3 and max(d) < 0.9 * math.pi:
                break
        pts = [(cx + (R - gap) * math.cos(t), cy + (R - gap) * math.sin(t)) for t in ang]
        edges = [("L", pts[i], pts[(i + 1) % n]) for i in range(n)]
        inner = Ring("polygon", edges, (cx, cy, cx, cy), {"float_nodes": True})
    rings = [outer, inner]
    _link(rings, 1, 0)
    d = Drawing(rings, kinds=["close:" + variant])
    d.gap = gap
    return d


SPECIAL = {"fillet": make_fillet_drawing, "close": make_close_drawing}


def special_drawing_from_seed(cls, seed):
    import random

    d = SPECIAL[cls](random.Random(int(seed)))
    d.seed = int(seed)
    return d


# ----------------------------------------------------------------------------
# presentations


class Presentation:
    """
    entities : list of (type, [vertex rows], closed_flag)   type in {"Line", "Arc"}
    vertices : (n, 2) float64
    ent_ring : ring index of every entity
    ent_seq  : position of the entity along its ring (0..m-1 in walking order)
    ring_len : number of entities of each ring
    """

    def __init__(self, entities, vertices, ent_ring, ent_seq, ring_len, mode, seed=None):
        self.entities, self.vertices = entities, vertices
        self.ent_ring, self.ent_seq, self.ring_len = ent_ring, ent_seq, ring_len
        self.mode = mode
        self.seed = seed

    def build_entities(self):
        from trimesh.path.entities import Arc, Line

        out = []
        for typ, pts, closed in self.entities:
            if typ == "Line":
                out.append(Line(np.array(pts, dtype=np.int64)))
            elif closed:
                out.append(Arc(np.array(pts, dtype=np.int64), closed=True))
            else:
                out.append(Arc(np.array(pts, dtype=np.int64)))
        return out

    def build(self, matrix=None, process=True):
        """A new Path2D (new entity objects, new vertex array), optionally with transformed vertices."""
        import trimesh

        V = self.vertices.copy()
        if matrix is not None:
            V = V @ np.asarray(matrix)[:2, :2].T + np.asarray(matrix)[:2, 2]
        return trimesh.path.Path2D(entities=self.build_entities(), vertices=V, process=process)

    def signature(self):
        return (
            tuple((t, tuple(p), c) for t, p, c in self.entities),
            self.vertices.tobytes(),
        )


def _refine_ring(rnd, ring, allow_closed_arc=True, arc_pieces=None):
    """
    Split the base edges of a ring into final edges:
      ("L", P, Q) or ("A", P, M, Q)   with P, M, Q points; or ("C", P, M, Q) a closed circle entity.
    Walking order is counter-clockwise.

    arc_pieces = (lo, hi[, "mid"]): opt-in fine splitting - every arc is cut into randint(lo, hi) pieces per
    full turn (at least one), of equal or moderately unequal size, the control point anywhere in the
    middle 60 % of a piece.  None: the default splitting into 1-4 pieces of at least 0.5 rad.
    """
    out = []
    for e in ring.edges:
        if e[0] == "L":
            out.append(e)
            continue
        (cx, cy), r, t0, t1 = e[1], e[2], e[3], e[4]
        span = t1 - t0
        full = abs(span - TWO_PI) < 1e-12
        if arc_pieces is not None and arc_pieces[0] == "major":
            # opt-in ("major",): a full circle as one piece of 0.6 .. 0.8 of a turn and its complement, any
            # other arc in one piece; the control point of every piece next to one of its ends.  Which way
            # round a piece goes may not be read off where its control point sits (seeded change C14-r2-2)
            if full:
                a = rnd.uniform(0.6, 0.8) * TWO_PI
                cuts = [t0, t0 + (a if rnd.random() < 0.5 else TWO_PI - a), t1]
            else:
                cuts = [t0, t1]
            pts = [_arc_point_exact(cx, cy, r, t) for t in cuts]
            pts[-1] = pts[0] if full else pts[-1]
            if not full and len(e) > 5:
                pts[0], pts[-1] = e[5], e[6]
            for i in range(len(cuts) - 1):
                frac = rnd.uniform(0.03, 0.1)
                if rnd.random() < 0.5:
                    frac = 1.0 - frac
                tm = cuts[i] + (cuts[i + 1] - cuts[i]) * frac
                out.append(("A", pts[i], _arc_point_exact(cx, cy, r, tm), pts[i + 1]))
            continue
        if arc_pieces is not None:
            k = max(1, int(round(rnd.randint(arc_pieces[0], arc_pieces[1]) * span / TWO_PI)))
            # (lo, hi, "mid"): pieces of nearly equal size with the control point near their middle,
            # which keeps all control points as far apart as the number of pieces allows
            mid = len(arc_pieces) > 2 and arc_pieces[2] == "mid"
            j = 0.1 if mid else 0.25
            if k > 1 and rnd.random() < 0.5:
                cuts = [t0] + [t0 + span * (i + rnd.uniform(-j, j)) / k for i in range(1, k)] + [t1]
            else:
                cuts = [t0 + span * i / k for i in range(k + 1)]
            pts = [_arc_point_exact(cx, cy, r, t) for t in cuts]
            pts[-1] = pts[0] if full else _arc_point_exact(cx, cy, r, t1)
            if len(e) > 5:
                # the exact end nodes of the arc (shared with the neighbouring straight edges)
                pts[0], pts[-1] = e[5], e[6]
            for i in range(k):
                tm = cuts[i] + (cuts[i + 1] - cuts[i]) * (rnd.uniform(0.4, 0.6) if mid else rnd.uniform(0.2, 0.8))
                out.append(("A", pts[i], _arc_point_exact(cx, cy, r, tm), pts[i + 1]))
            continue
        if full and allow_closed_arc and rnd.random() < 0.12:
            a = t0
            out.append(("C", _arc_point_exact(cx, cy, r, a), _arc_point_exact(cx, cy, r, a + 2.0),
                        _arc_point_exact(cx, cy, r, a + 4.0)))
            continue
        if full:
            k = rnd.choice([2, 2, 3, 4])
        else:
            k = rnd.choice([1, 1, 2, 3])
        if rnd.random() < 0.5:
            cuts = [t0 + span * i / k for i in range(k + 1)]
        else:
            # random cut angles, every piece between 0.5 rad and 0.8 of a turn
            for _ in range(50):
                inner = sorted(rnd.uniform(t0, t1) for _ in range(k - 1))
                cuts = [t0] + inner + [t1]
                d = [cuts[i + 1] - cuts[i] for i in range(k)]
                if min(d) > 0.5 and max(d) < 0.8 * TWO_PI:
                    break
            else:
                cuts = [t0 + span * i / k for i in range(k + 1)]
        pts = [_arc_point_exact(cx, cy, r, t) for t in cuts]
        if full:
            pts[-1] = pts[0]
        elif len(e) > 5:
            pts[0], pts[-1] = e[5], e[6]
        for i in range(k):
            # the middle control point anywhere in the middle 40 % of the piece
            # ... or, a third of the time, anywhere on it: a three point arc is defined by ANY
            # interior point, also one close to an end of a long (> 180 degree) piece
            u = rnd.random()
            frac = 0.5 if u < 0.4 else (rnd.uniform(0.3, 0.7) if u < 0.7 else rnd.uniform(0.06, 0.94))
            if u >= 0.88:
                # ... and next to one of its ends (what decides "the long way round" must not be
                # where the control point sits; from seeded change C14-r2-2)
                frac = rnd.uniform(0.03, 0.1)
                if rnd.random() < 0.5:
                    frac = 1.0 - frac
            tm = cuts[i] + (cuts[i + 1] - cuts[i]) * frac
            out.append(("A", pts[i], _arc_point_exact(cx, cy, r, tm), pts[i + 1]))
    return out


def present(drawing, rnd, mode=None, p_cut=None, allow_closed_arc=True, arc_pieces=None):
    """One random presentation of the drawing."""
    mode = mode or rnd.choice(["unmerged", "unmerged", "mixed", "merged"])
    p_cut = rnd.choice([0.0, 0.2, 0.5, 1.0]) if p_cut is None else p_cut
    rows = []  # vertex rows

    def new_row(p):
        rows.append((float(p[0]), float(p[1])))
        return len(rows) - 1

    entities, ent_ring, ent_seq, ring_len = [], [], [], []
    for ri, ring in enumerate(drawing.rings):
        edges = _refine_ring(rnd, ring, allow_closed_arc, arc_pieces)
        n = len(edges)
        if rnd.random() < 0.5:
            # walk the ring clockwise
            rev = []
            for e in reversed(edges):
                if e[0] == "L":
                    rev.append(("L", e[2], e[1]))
                else:
                    rev.append((e[0], e[3], e[2], e[1]))
            edges = rev
        start = rnd.randrange(n)
        edges = edges[start:] + edges[:start]
        # group into entities: list of (type, [points...])
        groups = []
        cur = None
        for e in edges:
            if e[0] == "L":
                if cur is not None and rnd.random() >= p_cut:
                    cur.append(e[2])
                else:
                    cur = [e[1], e[2]]
                    groups.append(["Line", cur, False])
            else:
                cur = None
                groups.append(["Arc", [e[1], e[2], e[3]], e[0] == "C"])
        # shared node rows for merged mode: position -> row
        shared = {}
        seq = 0
        for typ, pts, closed in groups:
            idx = []
            for j, p in enumerate(pts):
                is_end = j in (0, len(pts) - 1) and not closed
                if is_end:
                    share = mode == "merged" or (mode == "mixed" and rnd.random() < 0.5)
                    key = (float(p[0]), float(p[1]))
                    if share:
                        if key not in shared:
                            shared[key] = new_row(p)
                        idx.append(shared[key])
                    else:
                        idx.append(new_row(p))
                else:
                    idx.append(new_row(p))
            if rnd.random() < 0.5:
                idx = idx[::-1]
            entities.append((typ, idx, closed))
            ent_ring.append(ri)
            ent_seq.append(seq)
            seq += 1
        ring_len.append(seq)
    # permute entities
    order = list(range(len(entities)))
    rnd.shuffle(order)
    entities = [entities[i] for i in order]
    ent_ring = [ent_ring[i] for i in order]
    ent_seq = [ent_seq[i] for i in order]
    # permute vertex rows
    perm = list(range(len(rows)))
    rnd.shuffle(perm)  # perm[new] = old
    inv = [0] * len(perm)
    for new, old in enumerate(perm):
        inv[old] = new
    V = np.array([rows[old] for old in perm], dtype=np.float64).reshape((-1, 2))
    entities = [(t, [inv[i] for i in idx], c) for t, idx, c in entities]
    return Presentation(entities, V, ent_ring, ent_seq, ring_len, mode)


def presentation_from_seed(drawing, seed, **kw):
    import random

    p = present(drawing, random.Random(int(seed)), **kw)
    p.seed = int(seed)
    return p


# ----------------------------------------------------------------------------
# geometry of the generating rings, used to identify which ring a reconstructed curve is


def ring_distance(ring, q):
    """Distance of points q (m, 2) to the exact boundary of a ring -> (m,)"""
    q = np.asarray(q, dtype=np.float64).reshape((-1, 2))
    best = np.full(len(q), np.inf)
    for e in ring.edges:
        if e[0] == "L":
            a = np.array(e[1], dtype=np.float64)
            b = np.array(e[2], dtype=np.float64)
            ab = b - a
            t = np.clip(((q - a) @ ab) / (ab @ ab), 0.0, 1.0)
            d = np.linalg.norm(q - (a + t[:, None] * ab), axis=1)
        else:
            c = np.array(e[1], dtype=np.float64)
            r, t0, t1 = e[2], e[3], e[4]
            v = q - c
            rad = np.linalg.norm(v, axis=1)
            d = np.abs(rad - r)
            if t1 - t0 < TWO_PI - 1e-12:
                ang = np.mod(np.arctan2(v[:, 1], v[:, 0]) - t0, TWO_PI)
                outside = ang > (t1 - t0) + 1e-9
                if outside.any():
                    p0 = c + r * np.array([math.cos(t0), math.sin(t0)])
                    p1 = c + r * np.array([math.cos(t1), math.sin(t1)])
                    de = np.minimum(np.linalg.norm(q - p0, axis=1), np.linalg.norm(q - p1, axis=1))
                    d = np.where(outside, de, d)
        best = np.minimum(best, d)
    return best
