"""
Shared machinery for every runtime monitor: seeds, budgets, sharding, verdicts,
evidence files, known findings and replay files.

A property module (vmon/props/cXX.py) defines

    PROP      = "C02"
    LEVEL     = "exploration" | "fault_enumeration"
    RULE      = "how cases are generated and what makes one distinct / non-trivial"
    ANCHORS   = ["trimesh/caching.py:TrackedArray.__hash__", ...]   functions that MUST be
                entered by the workload, else the verdict is INCONCLUSIVE
    SHARDS    = {"quick": 1, "thorough": 16}
    BUDGET    = {"quick": 60, "thorough": 600}      wall seconds (soft) per shard
    MIN_EVENTS= {"quick": 100, "thorough": 1000}    fewer distinct non-trivial cases -> inconclusive
    ASSUMPTIONS = [...]
    def workload(run): ...   drives the real code, calls run.case / run.violation / ...
    def replay(run, case): ...   optional: re-executes one recorded case

Verdicts (three valued):  exit 0 held on what was observed, exit 1 violated (one line
`VIOLATION property=<id> replay=<path>` per distinct unlisted mechanism key), exit 2
inconclusive (line `INCONCLUSIVE property=<id> reason=...`).
"""

from __future__ import annotations

import hashlib
import importlib
import json
import os
import pickle
import random
import shutil
import subprocess
import sys
import tempfile
import time
import traceback

ROOT = os.path.dirname(os.path.dirname(os.path.abspath(__file__)))
REPO = os.environ.get("VERIF_REPO", "/repo")
FINDINGS_FILE = os.path.join(ROOT, "KNOWN_FINDINGS.txt")
SCRATCH = bool(os.environ.get("VERIF_REPO"))
# runs against a scratch tree (VERIF_REPO) never touch the committed evidence
EVIDENCE_DIR = os.path.join(ROOT, ".work", "scratch-evidence") if SCRATCH else os.path.join(ROOT, "evidence")
REPLAY_DIR = os.path.join(ROOT, ".work", "scratch-replay") if SCRATCH else os.path.join(ROOT, "replay")
MAX_SAMPLES = 8
MAX_WITNESS_PER_KEY = 3
_AUTO_SAMPLE_AT = frozenset((1, 2, 10, 100, 1000, 10000, 100000))


def jsonable(x, depth=0):
    """Best-effort conversion of numpy-laden structures into JSON-able ones."""
    import numpy as np

    if depth > 8:
        return repr(x)[:200]
    if x is None or isinstance(x, (bool, int, str)):
        return x
    if isinstance(x, float):
        if x != x or x in (float("inf"), float("-inf")):
            return repr(x)
        return x
    if isinstance(x, (np.bool_,)):
        return bool(x)
    if isinstance(x, np.integer):
        return int(x)
    if isinstance(x, np.floating):
        return jsonable(float(x))
    if isinstance(x, np.ndarray):
        if x.size > 400:
            return {
                "ndarray": True,
                "shape": list(x.shape),
                "dtype": str(x.dtype),
                "head": jsonable(x.ravel()[:60].tolist(), depth + 1),
            }
        return jsonable(x.tolist(), depth + 1)
    if isinstance(x, dict):
        return {str(k): jsonable(v, depth + 1) for k, v in x.items()}
    if isinstance(x, (list, tuple, set, frozenset)):
        return [jsonable(v, depth + 1) for v in x]
    if isinstance(x, bytes):
        return {"bytes_hex": x[:256].hex(), "len": len(x)}
    return repr(x)[:300]


def digest_of(*parts) -> str:
    """Structural digest of a case used for the distinct-case count."""
    import numpy as np

    h = hashlib.blake2b(digest_size=8)
    for p in parts:
        if isinstance(p, np.ndarray):
            h.update(str(p.dtype).encode())
            h.update(str(p.shape).encode())
            h.update(np.ascontiguousarray(p).tobytes())
        elif isinstance(p, bytes):
            h.update(p)
        else:
            h.update(repr(p).encode())
        h.update(b"|")
    return h.hexdigest()


class Finding:
    def __init__(self, status, prop, key, text):
        self.status, self.prop, self.key, self.text = status, prop, key, text


def load_findings(path=FINDINGS_FILE):
    """
    KNOWN_FINDINGS.txt lines:
      open: property=C02 key=<mechanism-key> :: <what fails>
      fixed: property=C02 <commit> <what failed>
    The file is never written at run time.
    """
    out = []
    if not os.path.exists(path):
        return out
    with open(path) as f:
        for line in f:
            line = line.strip()
            if not line or line.startswith("#"):
                continue
            if line.startswith("open:"):
                body = line[len("open:"):].strip()
                head, _, text = body.partition("::")
                fields = dict(
                    tok.split("=", 1) for tok in head.split() if "=" in tok
                )
                out.append(
                    Finding("open", fields.get("property"), fields.get("key"), text.strip())
                )
            elif line.startswith("fixed:"):
                body = line[len("fixed:"):].strip()
                toks = body.split(None, 2)
                prop = toks[0].split("=", 1)[1] if toks and "=" in toks[0] else None
                out.append(Finding("fixed", prop, None, body))
    return out


WALL_SLACK = 2.5


class Run:
    """State of one check run (or one shard of it)."""

    def __init__(self, prop, tier, seed, shard=(0, 1), budget=60.0, replaying=False):
        import numpy as np

        self.prop = prop
        self.tier = tier
        self.seed = int(seed)
        self.shard = shard
        self.replaying = replaying
        sub = (self.seed * 1000003 + shard[0] * 7919 + 17) % (2**32)
        self.subseed = sub
        self.rng = np.random.default_rng(sub)
        self.pyrng = random.Random(sub)
        # trimesh itself draws from the global generators
        np.random.seed(sub)
        random.seed(sub)
        self.t0 = time.time()
        self.c0 = time.process_time()
        # budgets are counted in CPU seconds of this process so that a loaded machine does not
        # shrink the workload (and turn a run inconclusive); the wall clock still bounds a run at
        # WALL_SLACK x budget.  Monitors that wait for child processes (C20) use the wall clock.
        self.clock = "cpu"
        self.budget = float(budget)
        self.evaluations = 0
        self.distinct = set()  # (tag, digest) of non-trivial cases
        self.trivial = 0
        self.tags = {}  # tag -> count
        self.counters = {}
        self.states = {}  # kind -> set
        self.samples = []
        self.violations = {}  # key -> {"what":..., "count":n, "witnesses":[...]}
        self.inconclusive_reasons = []
        self.entered = set()  # anchored functions entered
        self.notes = {}
        self.skipped = {}

    # ------------------------------------------------------------ budget
    def elapsed(self):
        wall = time.time() - self.t0
        if self.clock == "wall":
            return wall
        return max(time.process_time() - self.c0, wall / WALL_SLACK)

    def time_left(self):
        return self.budget - self.elapsed()

    def out_of_time(self, frac=1.0):
        return self.elapsed() > self.budget * frac

    def mine(self, i):
        """True when enumerated item number i belongs to this shard."""
        return i % self.shard[1] == self.shard[0]

    # ------------------------------------------------------------ recording
    def case(self, tag, *digest_parts, nontrivial=True, sample=None):
        self.evaluations += 1
        self.tags[tag] = self.tags.get(tag, 0) + 1
        if nontrivial:
            self.distinct.add((tag, digest_of(*digest_parts) if digest_parts else str(self.evaluations)))
        else:
            self.trivial += 1
        if sample is not None:
            self.sample(sample, tag=tag)
        elif len(self.samples) < MAX_SAMPLES and nontrivial and (self.evaluations in _AUTO_SAMPLE_AT or not self.samples):
            # every evidence file shows a few of the actual cases even when the property
            # module never nominates one: the case as it was digested (class tag + inputs)
            self.samples.append({"tag": tag, "auto": True, "case": jsonable(list(digest_parts))})

    def sample(self, obj, tag=None):
        # keep the first few and then a thin reservoir so samples span the run
        entry = {"tag": tag, "case": jsonable(obj)} if tag else jsonable(obj)
        if len(self.samples) < MAX_SAMPLES:
            self.samples.append(entry)
        elif self.pyrng_sample() < 0.002:
            self.samples[self._sample_slot()] = entry

    def pyrng_sample(self):
        # separate generator: sampling for evidence must not perturb the workload stream
        if not hasattr(self, "_srng"):
            self._srng = random.Random(self.subseed ^ 0x5A5A)
        return self._srng.random()

    def _sample_slot(self):
        return self._srng.randrange(2, MAX_SAMPLES)

    def count(self, name, n=1):
        self.counters[name] = self.counters.get(name, 0) + n

    def state(self, kind, value):
        self.states.setdefault(kind, set()).add(value if isinstance(value, (str, int, tuple, frozenset)) else repr(value))

    def skip(self, why):
        self.skipped[why] = self.skipped.get(why, 0) + 1

    def note(self, name, value):
        self.notes[name] = jsonable(value)

    def violation(self, key, what, case=None):
        """
        key  : mechanism key made of structural features only (never random values)
        what : one-line human description
        case : JSON-able witness (inputs, observed, expected)
        """
        key = str(key).replace(" ", "_")
        if isinstance(case, dict):
            # what a replay needs to rebuild this shard's deterministic generators
            case = dict(case, _subseed=self.subseed, _shard=list(self.shard), _tier=self.tier)
        v = self.violations.setdefault(key, {"what": what, "count": 0, "witnesses": []})
        v["count"] += 1
        if len(v["witnesses"]) < MAX_WITNESS_PER_KEY:
            v["witnesses"].append(jsonable(case))

    def inconclusive(self, reason):
        if reason not in self.inconclusive_reasons:
            self.inconclusive_reasons.append(reason)

    # ------------------------------------------------------------ merging shards
    def export_state(self):
        return {
            "evaluations": self.evaluations,
            "distinct": self.distinct,
            "trivial": self.trivial,
            "tags": self.tags,
            "counters": self.counters,
            "states": self.states,
            "samples": self.samples,
            "violations": self.violations,
            "inconclusive": self.inconclusive_reasons,
            "entered": self.entered,
            "notes": self.notes,
            "skipped": self.skipped,
        }

    def merge_state(self, st):
        self.evaluations += st["evaluations"]
        self.distinct |= st["distinct"]
        self.trivial += st["trivial"]
        for k, v in st["tags"].items():
            self.tags[k] = self.tags.get(k, 0) + v
        for k, v in st["counters"].items():
            if isinstance(v, (int, float)):
                self.counters[k] = self.counters.get(k, 0) + v
        for k, v in st["states"].items():
            self.states.setdefault(k, set()).update(v)
        for s in st["samples"]:
            if len(self.samples) < MAX_SAMPLES:
                self.samples.append(s)
        for k, v in st["violations"].items():
            mine = self.violations.setdefault(k, {"what": v["what"], "count": 0, "witnesses": []})
            mine["count"] += v["count"]
            for w in v["witnesses"]:
                if len(mine["witnesses"]) < MAX_WITNESS_PER_KEY:
                    mine["witnesses"].append(w)
        for r in st["inconclusive"]:
            self.inconclusive(r)
        self.entered |= st["entered"]
        for k, v in st["notes"].items():
            self.notes.setdefault(k, v)
        for k, v in st["skipped"].items():
            self.skipped[k] = self.skipped.get(k, 0) + v


# -------------------------------------------------------------------- driver


def _load_module(prop):
    return importlib.import_module("vmon.props." + prop.lower())


def _check_tree(run):
    """The checks must observe /repo's working tree."""
    try:
        import trimesh
    except BaseException as e:  # noqa
        run.inconclusive("trimesh not importable: %r" % (e,))
        return False
    # trimesh logs (with tracebacks) on fallbacks it handles itself; keep check output clean
    import logging

    logging.getLogger("trimesh").setLevel(logging.CRITICAL + 1)
    where = os.path.realpath(os.path.dirname(trimesh.__file__))
    want = os.path.realpath(os.path.join(REPO, "trimesh"))
    if where != want:
        run.inconclusive("trimesh imported from %s, not %s" % (where, want))
        return False
    return True


def run_shard(mod, run):
    """Execute the workload of one shard in this process under the anchor probe."""
    from . import instrument

    if not _check_tree(run):
        return
    probe = instrument.AnchorProbe(
        repo=REPO, line_files=getattr(mod, "LINE_FILES", ())
    )
    probe.start()
    try:
        mod.workload(run)
    except KeyboardInterrupt:
        raise
    except BaseException as e:  # the harness itself failed: never "held"
        run.inconclusive(
            "workload crashed: %s: %s | %s"
            % (type(e).__name__, e, traceback.format_exc().strip().splitlines()[-3:])
        )
    finally:
        probe.stop()
    run.entered |= probe.entered
    if probe.lines:
        run.notes["lines_executed"] = {k: len(v) for k, v in probe.lines.items()}
        run._lines = probe.lines


def finish(mod, run, wall):
    """Apply known findings, write evidence and replay files, print verdict lines."""
    prop = run.prop
    findings = [f for f in load_findings() if f.prop == prop]
    open_keys = {f.key: f for f in findings if f.status == "open"}

    # anchors that must have been reached
    anchors = list(getattr(mod, "ANCHORS", ()))
    missing = [a for a in anchors if a not in run.entered]
    if missing and not run.replaying:
        run.inconclusive("anchored mechanism never entered: " + ", ".join(missing))
    min_events = getattr(mod, "MIN_EVENTS", {}).get(run.tier, 2)
    if len(run.distinct) < max(2, min_events) and not run.replaying:
        run.inconclusive(
            "only %d distinct non-trivial cases observed (< %d)" % (len(run.distinct), min_events)
        )

    known_seen, new = {}, {}
    for key, v in run.violations.items():
        if key in open_keys:
            known_seen[key] = v
        else:
            new[key] = v

    os.makedirs(REPLAY_DIR, exist_ok=True)
    if not run.replaying:
        # witnesses of earlier runs of this property are superseded by this run
        for old in os.listdir(REPLAY_DIR):
            if old.startswith(prop + "-") and old.endswith(".json"):
                try:
                    os.remove(os.path.join(REPLAY_DIR, old))
                except OSError:
                    pass
    lines = []
    for key, f in sorted(open_keys.items()):
        seen = known_seen.get(key)
        lines.append(
            "KNOWN-FINDING: property=%s key=%s %s (%s)"
            % (
                prop,
                key,
                f.text,
                "observed %d times this run" % seen["count"] if seen else "not reached this run",
            )
        )
    replay_paths = []
    for key, v in sorted(new.items()):
        name = "%s-%s.json" % (prop, hashlib.blake2b(key.encode(), digest_size=6).hexdigest())
        path = os.path.join(REPLAY_DIR, name)
        with open(path, "w") as fh:
            json.dump(
                {
                    "property_id": prop,
                    "key": key,
                    "what": v["what"],
                    "count": v["count"],
                    "tier": run.tier,
                    "seed": run.seed,
                    "witnesses": v["witnesses"],
                },
                fh,
                indent=1,
            )
        replay_paths.append(path)
        lines.append("VIOLATION property=%s replay=%s key=%s :: %s (x%d)" % (prop, path, key, v["what"], v["count"]))

    # evidence
    coverage = {
        "evaluations": int(run.evaluations),
        "distinct_nontrivial": int(len(run.distinct)),
        "rule": getattr(mod, "RULE", ""),
        "samples": run.samples[:MAX_SAMPLES] or [],
        "trivial_cases": int(run.trivial),
        "case_classes": dict(sorted(run.tags.items())),
        "counters": dict(sorted(run.counters.items())),
        "distinct_monitored_states": {k: len(v) for k, v in sorted(run.states.items())},
        "monitored_state_examples": {
            k: sorted(map(str, v))[:12] for k, v in sorted(run.states.items())
        },
        "anchors_required": anchors,
        "anchors_missing": missing,
        "anchored_functions_entered": len(run.entered),
        "anchored_functions_entered_list": sorted(run.entered)[:400],
        "skipped": run.skipped,
        "notes": run.notes,
        "known_findings_observed": {k: v["count"] for k, v in known_seen.items()},
        "known_findings_listed": sorted(open_keys),
        "new_violation_keys": sorted(new),
        "inconclusive": run.inconclusive_reasons,
        "shards": run.shard[1],
        "exhaustive": bool(getattr(mod, "EXHAUSTIVE", {}).get(run.tier, False)),
    }
    ev = {
        "property_id": prop,
        "tier": run.tier,
        "seed": run.seed,
        "level": getattr(mod, "LEVEL", "exploration"),
        "coverage": coverage,
        "assumptions": list(getattr(mod, "ASSUMPTIONS", [])),
        "wall_s": round(wall, 3),
        "violations": len(new),
    }
    if not run.replaying:
        os.makedirs(EVIDENCE_DIR, exist_ok=True)
        tmp = os.path.join(EVIDENCE_DIR, ".%s.json.tmp" % prop)
        with open(tmp, "w") as fh:
            json.dump(ev, fh, indent=1, sort_keys=False)
            fh.write("\n")
        os.replace(tmp, os.path.join(EVIDENCE_DIR, "%s.json" % prop))

    for ln in lines:
        print(ln)
    print(
        "SUMMARY property=%s tier=%s seed=%d evaluations=%d distinct_nontrivial=%d "
        "known_seen=%d new=%d entered=%d wall=%.1fs"
        % (prop, run.tier, run.seed, run.evaluations, len(run.distinct), len(known_seen), len(new), len(run.entered), wall)
    )
    # inconclusive reasons are always shown (a crashed workload must not hide behind a violation)
    for r in run.inconclusive_reasons:
        print("INCONCLUSIVE property=%s reason=%s" % (prop, r))
    if new:
        return 1
    if run.inconclusive_reasons:
        return 2
    return 0


def main(argv=None):
    import argparse

    ap = argparse.ArgumentParser()
    ap.add_argument("prop")
    ap.add_argument("--tier", default=os.environ.get("VERIF_TIER", "quick"))
    ap.add_argument("--shard", default=None, help="i/n (internal)")
    ap.add_argument("--out", default=None, help="pickle file for shard state (internal)")
    ap.add_argument("--replay", default=None)
    ap.add_argument("--budget", type=float, default=None)
    ap.add_argument("--shards", type=int, default=None)
    args = ap.parse_args(argv)
    prop = args.prop.upper()
    tier = args.tier if args.tier in ("quick", "thorough") else "quick"
    try:
        seed = int(os.environ.get("VERIF_SEED", "0") or 0)
    except ValueError:
        seed = int.from_bytes(hashlib.blake2b(os.environ["VERIF_SEED"].encode(), digest_size=4).digest(), "big")
    mod = _load_module(prop)
    budget = args.budget or float(os.environ.get("VERIF_BUDGET", 0) or 0) or getattr(
        mod, "BUDGET", {}
    ).get(tier, 60 if tier == "quick" else 600)
    t0 = time.time()

    if args.replay:
        with open(args.replay) as fh:
            rec = json.load(fh)
        run = Run(prop, rec.get("tier", tier), rec.get("seed", seed), budget=budget, replaying=True)
        run.clock = getattr(mod, "CLOCK", "cpu")
        if hasattr(mod, "replay"):
            if _check_tree(run):
                for w in rec.get("witnesses", []):
                    mod.replay(run, w)
        else:
            # generic replay: re-run the recorded tier/seed and report whether the key recurs
            return _run_all(mod, prop, rec.get("tier", tier), rec.get("seed", seed), budget, t0, want_key=rec.get("key"))
        code = finish(mod, run, time.time() - t0)
        return code

    if args.shard:
        i, n = map(int, args.shard.split("/"))
        run = Run(prop, tier, seed, shard=(i, n), budget=budget)
        run.clock = getattr(mod, "CLOCK", "cpu")
        run_shard(mod, run)
        with open(args.out, "wb") as fh:
            pickle.dump(run.export_state(), fh)
        return 0

    return _run_all(mod, prop, tier, seed, budget, t0, nshards=args.shards)


def _run_all(mod, prop, tier, seed, budget, t0, want_key=None, nshards=None):
    n = nshards or getattr(mod, "SHARDS", {}).get(tier, 1)
    n = max(1, min(int(n), int(os.environ.get("VERIF_MAX_SHARDS", 16))))
    run = Run(prop, tier, seed, shard=(0, n), budget=budget)
    run.clock = getattr(mod, "CLOCK", "cpu")
    if n == 1:
        run_shard(mod, run)
    else:
        work = tempfile.mkdtemp(prefix="shards-%s-" % prop, dir=_workdir())
        try:
            procs = []
            for i in range(n):
                out = os.path.join(work, "s%d.pkl" % i)
                log = open(os.path.join(work, "s%d.log" % i), "w")
                cmd = [sys.executable, "-m", "vmon.harness", prop, "--tier", tier,
                       "--shard", "%d/%d" % (i, n), "--out", out, "--budget", str(budget)]
                procs.append((i, out, log, subprocess.Popen(cmd, stdout=log, stderr=subprocess.STDOUT, cwd=ROOT)))
            # generous watchdog: its firing is inconclusive, never a violation
            deadline = time.time() + budget * 3 + 120
            for i, out, log, p in procs:
                try:
                    p.wait(timeout=max(1.0, deadline - time.time()))
                except subprocess.TimeoutExpired:
                    p.kill()
                    p.wait()
                    run.inconclusive("shard %d hit the wall-clock watchdog" % i)
                log.close()
                if os.path.exists(out):
                    with open(out, "rb") as fh:
                        run.merge_state(pickle.load(fh))
                else:
                    tail = open(log.name).read()[-600:]
                    run.inconclusive("shard %d produced no result (exit %s): %s" % (i, p.returncode, tail.replace("\n", " | ")))
        finally:
            shutil.rmtree(work, ignore_errors=True)
    code = finish(mod, run, time.time() - t0)
    if want_key is not None:
        print("REPLAY key=%s %s" % (want_key, "reproduced" if want_key in run.violations else "not reproduced"))
    return code


def _workdir():
    d = os.path.join(ROOT, ".work")
    os.makedirs(d, exist_ok=True)
    return d


if __name__ == "__main__":
    sys.exit(main())
