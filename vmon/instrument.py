"""
Instrumentation attached from the harness (no repository edits):

* AnchorProbe      sys.monitoring PY_START (+ optional LINE) on files under /repo/trimesh;
                   each location is DISABLEd after its first hit, so the cost is ~5 %.
* CacheProbe       observing wrappers around every `caching.cache_decorator` property;
                   records (class, property, hit|miss) WITHOUT calling Cache.verify itself.
* walker           object-graph walk collecting ndarray leaves; aliasing report.
* contracts        icontract class invariants with evaluation counters.
"""

from __future__ import annotations

import os
import sys


class AnchorProbe:
    TOOL = 3  # sys.monitoring.COVERAGE_ID is 1, PROFILER 2; use a free slot

    def __init__(self, repo="/repo", line_files=()):
        self.prefix = os.path.realpath(os.path.join(repo, "trimesh")) + os.sep
        self.repo = os.path.realpath(repo) + os.sep
        self.entered = set()
        self.lines = {}
        self.line_files = tuple(line_files)
        self._on = False

    def _rel(self, filename):
        fn = os.path.realpath(filename) if not filename.startswith(self.repo) else filename
        return fn[len(self.repo):]

    def start(self):
        mon = sys.monitoring
        try:
            mon.use_tool_id(self.TOOL, "vmon-anchor")
        except ValueError:
            return
        E = mon.events

        def on_start(code, offset):
            fn = code.co_filename
            if fn.startswith(self.prefix):
                self.entered.add(fn[len(self.repo):] + ":" + code.co_qualname)
            return mon.DISABLE

        mon.register_callback(self.TOOL, E.PY_START, on_start)
        events = E.PY_START
        if self.line_files:
            wanted = tuple(os.path.join(self.repo, f) for f in self.line_files)

            def on_line(code, line):
                fn = code.co_filename
                if fn in wanted:
                    self.lines.setdefault(fn[len(self.repo):], set()).add(line)
                return mon.DISABLE

            mon.register_callback(self.TOOL, E.LINE, on_line)
            events |= E.LINE
        mon.set_events(self.TOOL, events)
        self._on = True

    def stop(self):
        if not self._on:
            return
        mon = sys.monitoring
        mon.set_events(self.TOOL, 0)
        mon.register_callback(self.TOOL, mon.events.PY_START, None)
        mon.register_callback(self.TOOL, mon.events.LINE, None)
        mon.free_tool_id(self.TOOL)
        self._on = False


# ----------------------------------------------------------------------------
# cache probe


class CacheProbe:
    """
    Re-wrap every property created by trimesh.caching.cache_decorator with an observing
    wrapper.  The wrapper looks at the raw cache dict before delegating (it never calls
    verify(), so a mutant that drops verification is not masked) and records whether the
    value came back from the cache.
    """

    def __init__(self):
        self.events = 0
        self.hits = 0
        self.miss = 0
        self.by_prop = {}
        self.installed = []  # (cls, name, original property)
        self.log = None  # optional list receiving (cls, name, hit)

    @staticmethod
    def discover():
        import trimesh  # noqa
        import trimesh.base, trimesh.parent, trimesh.points, trimesh.primitives  # noqa
        import trimesh.path.path, trimesh.scene.scene, trimesh.scene.transforms  # noqa
        import trimesh.visual.color, trimesh.visual.texture, trimesh.voxel.base  # noqa
        import trimesh.voxel.encoding, trimesh.ray.ray_triangle  # noqa

        found = []
        seen = set()
        for modname, module in list(sys.modules.items()):
            if not modname.startswith("trimesh") or module is None:
                continue
            for cname, cls in list(vars(module).items()):
                if not isinstance(cls, type) or id(cls) in seen:
                    continue
                if not getattr(cls, "__module__", "").startswith("trimesh"):
                    continue
                seen.add(id(cls))
                for name, attr in list(vars(cls).items()):
                    if not isinstance(attr, property) or attr.fget is None:
                        continue
                    fget = attr.fget
                    code = getattr(fget, "__code__", None)
                    if code is None or not code.co_filename.endswith("caching.py"):
                        continue
                    if not hasattr(fget, "__wrapped__"):
                        continue
                    found.append((cls, name, attr))
        return found

    def install(self):
        probe = self
        for cls, name, prop in self.discover():
            orig = prop.fget

            def make(orig, cls, name):
                key = orig.__wrapped__.__name__

                def observed(self_obj):
                    cache = getattr(self_obj, "_cache", None)
                    had = cache is not None and key in cache.cache
                    before = cache.cache.get(key) if had else None
                    value = orig(self_obj)
                    hit = had and value is before
                    probe.events += 1
                    if hit:
                        probe.hits += 1
                    else:
                        probe.miss += 1
                    rec = probe.by_prop.setdefault(cls.__name__ + "." + name, [0, 0])
                    rec[0 if hit else 1] += 1
                    if probe.log is not None:
                        probe.log.append((cls.__name__, name, hit))
                    return value

                observed.__wrapped__ = orig.__wrapped__
                observed.__name__ = getattr(orig, "__name__", name)
                observed.__doc__ = orig.__doc__
                return observed

            new = property(make(orig, cls, name), prop.fset, prop.fdel, prop.__doc__)
            setattr(cls, name, new)
            self.installed.append((cls, name, prop))
        return len(self.installed)

    def uninstall(self):
        for cls, name, prop in self.installed:
            setattr(cls, name, prop)
        self.installed = []


def cached_property_names(cls):
    """Names of cache_decorator properties visible on cls (through the MRO)."""
    out = []
    for klass in cls.__mro__:
        for name, attr in vars(klass).items():
            if isinstance(attr, property) and attr.fget is not None:
                f = attr.fget
                w = getattr(f, "__wrapped__", None)
                code = getattr(f, "__code__", None)
                if w is not None and (
                    (code is not None and code.co_filename.endswith("caching.py"))
                    or getattr(f, "__name__", "") == "observed"
                ):
                    if name not in out:
                        out.append(name)
    return out


# ----------------------------------------------------------------------------
# object graph walker


def walk_arrays(root, max_nodes=20000):
    """
    Iterative walk over __dict__, dict / list / tuple / set members collecting every
    ndarray leaf as (path, array).
    """
    import numpy as np

    out = []
    seen = set()
    stack = [("", root)]
    n = 0
    while stack and n < max_nodes:
        path, obj = stack.pop()
        oid = id(obj)
        if oid in seen:
            continue
        seen.add(oid)
        n += 1
        if isinstance(obj, np.ndarray):
            out.append((path, obj))
            continue
        if obj is None or isinstance(obj, (str, bytes, int, float, bool, complex, type)):
            continue
        if isinstance(obj, dict):
            for k, v in obj.items():
                stack.append((path + "[%r]" % (k,), v))
            continue
        if isinstance(obj, (list, tuple, set, frozenset)):
            for i, v in enumerate(obj):
                stack.append((path + "[%d]" % i, v))
            continue
        mod = type(obj).__module__ or ""
        if not (mod.startswith("trimesh") or mod.startswith("collections") or mod == "builtins"):
            # do not descend into foreign objects (rtree, shapely, networkx ...)
            continue
        d = getattr(obj, "__dict__", None)
        if isinstance(d, dict):
            for k, v in d.items():
                stack.append((path + "." + k, v))
        if hasattr(obj, "__slots__"):
            for k in obj.__slots__:
                if hasattr(obj, k):
                    stack.append((path + "." + k, getattr(obj, k)))
    return out


def shared_mutable(a_root, b_root):
    """Pairs of array leaves of the two roots that share memory, one side writeable."""
    import numpy as np

    A = walk_arrays(a_root)
    B = walk_arrays(b_root)
    out = []
    for pa, xa in A:
        if xa.size == 0:
            continue
        for pb, xb in B:
            if xb.size == 0:
                continue
            if xa is xb or np.shares_memory(xa, xb):
                if xa.flags.writeable or xb.flags.writeable:
                    out.append((pa, pb))
    return out


# ----------------------------------------------------------------------------
# contracts


class ContractCounter:
    def __init__(self):
        self.evaluations = {}

    def tick(self, name):
        self.evaluations[name] = self.evaluations.get(name, 0) + 1


def have_icontract():
    try:
        import icontract  # noqa

        return True
    except Exception:
        return False
