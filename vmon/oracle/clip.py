"""
Exact plane / triangle clipping oracle (C11).

Everything is evaluated in rational arithmetic (fractions.Fraction): the mesh has integer
vertices, the plane has an integer normal `n` and a rational origin `o`, so the signed
quantity d(p) = n . (p - o) is exact for every vertex and every derived point.

Nothing in this file imports trimesh.
"""

from __future__ import annotations

from fractions import Fraction as Fr
from math import sqrt


def fr(x):
    """Fraction from int / Fraction / (num, den) / 'a/b' / exact float."""
    if isinstance(x, Fr):
        return x
    if isinstance(x, (list, tuple)):
        return Fr(int(x[0]), int(x[1]))
    if isinstance(x, float):
        return Fr(x)  # exact binary value
    if isinstance(x, str):
        return Fr(x)
    return Fr(int(x))


def vec(p):
    return tuple(fr(c) for c in p)


def dot(a, b):
    return a[0] * b[0] + a[1] * b[1] + a[2] * b[2]


def sub(a, b):
    return (a[0] - b[0], a[1] - b[1], a[2] - b[2])


def cross(a, b):
    return (
        a[1] * b[2] - a[2] * b[1],
        a[2] * b[0] - a[0] * b[2],
        a[0] * b[1] - a[1] * b[0],
    )


def det3(a, b, c):
    return dot(a, cross(b, c))


def lerp(p, q, t):
    return (p[0] + (q[0] - p[0]) * t, p[1] + (q[1] - p[1]) * t, p[2] + (q[2] - p[2]) * t)


def sgn(x):
    return (x > 0) - (x < 0)


def to_float(p):
    return [float(c) for c in p]


class Plane:
    """Plane n.(p-o)=0 with rational data; `nlen` = |n| as a float (only used for metric gaps)."""

    def __init__(self, normal, origin):
        self.n = vec(normal)
        self.o = vec(origin)
        self.nlen = sqrt(float(dot(self.n, self.n)))

    def d(self, p):
        return dot(self.n, sub(p, self.o))

    def flipped(self):
        return Plane(tuple(-c for c in self.n), self.o)


class MeshPlane:
    """Exact classification of an integer mesh against one plane."""

    def __init__(self, V, F, plane, band=None):
        self.V = [tuple(Fr(int(c)) for c in v) for v in V]
        self.F = [tuple(int(i) for i in f) for f in F]
        self.plane = plane
        self.dv = [plane.d(v) for v in self.V]
        self.sv = [sgn(d) for d in self.dv]
        # `band` (a metric distance): vertices off the plane by no more than this are classified
        # as ON the plane (sign 0, the vertex itself is the intersection point) - the reading of a
        # code that works with a merge tolerance; `in_band` lists them.  Default: exact signs.
        self.in_band = []
        if band is not None:
            for i, d in enumerate(self.dv):
                if d != 0 and abs(float(d)) / plane.nlen <= band:
                    self.sv[i] = 0
                    self.in_band.append(i)
        self.fsign = [(self.sv[a], self.sv[b], self.sv[c]) for a, b, c in self.F]

    # ------------------------------------------------------------ placement facts
    def min_offplane_distance(self):
        """Smallest non-zero metric distance of a vertex to the plane (float); inf if none."""
        ds = [abs(float(d)) / self.plane.nlen for d in self.dv if d != 0]
        return min(ds) if ds else float("inf")

    def vertices_on_plane(self):
        return [i for i, s in enumerate(self.sv) if s == 0]

    def has_edge_in_plane(self, faces=None):
        it = self.fsign if faces is None else (self.fsign[i] for i in faces)
        return any(s.count(0) >= 2 for s in it)

    def has_vertex_on_plane(self, faces=None):
        it = self.fsign if faces is None else (self.fsign[i] for i in faces)
        return any(0 in s for s in it)

    # ------------------------------------------------------------ section
    def crossing(self, fi):
        s = self.fsign[fi]
        return (1 in s) and (-1 in s)

    def segment(self, fi):
        """
        Exact intersection segment of the plane with face fi when the plane separates
        two of its vertices (signs contain + and -), else None.  Returned as a pair of
        rational points (unordered).
        """
        s = self.fsign[fi]
        if not ((1 in s) and (-1 in s)):
            return None
        f = self.F[fi]
        pts = []
        for k in range(3):
            a, b = f[k], f[(k + 1) % 3]
            sa, sb = self.sv[a], self.sv[b]
            if sa == 0:
                pts.append(self.V[a])
            if sa * sb < 0:
                t = self.dv[a] / (self.dv[a] - self.dv[b])
                pts.append(lerp(self.V[a], self.V[b], t))
        # one on-plane vertex + one crossing, or two crossings
        assert len(pts) == 2, (s, pts)
        return pts[0], pts[1]

    def expected_segments(self, faces=None):
        """{face index: (p, q)} for every face the plane properly crosses."""
        out = {}
        for fi in range(len(self.F)) if faces is None else faces:
            seg = self.segment(int(fi))
            if seg is not None:
                out[int(fi)] = seg
        return out

    # ------------------------------------------------------------ pattern coding (for evidence)
    def pattern(self, fi):
        """
        (sorted sign string, rotation code).  The rotation code says *where in the face's
        index order* the distinguished vertex sits, so that all index rotations of the
        code's quad / triangle reconstruction are told apart:
          --+ / -++ / --0 / 0++ / -00 / 00+ : position of the odd vertex (0..2)
          -0+ : position of the on-plane vertex, and whether the next vertex is + or -
          --- / 000 / +++ : 0
        """
        s = self.fsign[fi]
        name = "".join("-0+"[v + 1] for v in sorted(s))
        if name in ("---", "000", "+++"):
            return name, 0
        if name == "-0+":
            z = s.index(0)
            return name, (z, "+" if s[(z + 1) % 3] > 0 else "-")
        # odd one out
        for k in range(3):
            if s.count(s[k]) == 1:
                return name, k
        raise AssertionError(s)


# ---------------------------------------------------------------- half-space clipping


def clip_polygon(poly, plane, keep_on=True, band=None):
    """
    Sutherland-Hodgman: part of the convex polygon `poly` (list of rational points) with
    d >= 0.  A polygon lying entirely in the plane is kept iff keep_on.  With `band` (a metric
    distance) points no further than that from the plane count as lying on it.
    """
    if not poly:
        return []
    d = [plane.d(p) for p in poly]
    if band is not None:
        d = [Fr(0) if abs(float(x)) / plane.nlen <= band else x for x in d]
    if all(x == 0 for x in d):
        return list(poly) if keep_on else []
    out = []
    n = len(poly)
    for i in range(n):
        p, q = poly[i], poly[(i + 1) % n]
        dp, dq = d[i], d[(i + 1) % n]
        if dp >= 0:
            out.append(p)
        if (dp > 0 and dq < 0) or (dp < 0 and dq > 0):
            out.append(lerp(p, q, dp / (dp - dq)))
    # drop consecutive duplicates
    res = []
    for p in out:
        if not res or res[-1] != p:
            res.append(p)
    if len(res) > 1 and res[0] == res[-1]:
        res.pop()
    return res if len(res) >= 3 else []


def polygon_normal2(poly):
    """Twice the vector area of a planar polygon (fan from its first point)."""
    acc = (Fr(0), Fr(0), Fr(0))
    for i in range(1, len(poly) - 1):
        c = cross(sub(poly[i], poly[0]), sub(poly[i + 1], poly[0]))
        acc = (acc[0] + c[0], acc[1] + c[1], acc[2] + c[2])
    return acc


class SliceOracle:
    """
    Positive-side part of an integer mesh under one or several planes.

    For every face f: ratio r_f in [0, 1] (rational) of its area that survives, so that
      scalar area  = sum r_f * |N_f| / 2            (one float sqrt per face)
      vector area  = sum r_f * N_f / 2              (exact)
      volume about a point c = sum over the clipped polygons of fan determinants / 6 (exact)
    """

    def __init__(self, V, F, planes, faces=None, band=None):
        self.V = [tuple(Fr(int(c)) for c in v) for v in V]
        self.F = [tuple(int(i) for i in f) for f in F]
        self.planes = list(planes)
        self.faces = list(range(len(self.F))) if faces is None else [int(i) for i in faces]
        self.N2 = {}
        self.ratio_lo = {}
        self.ratio_hi = {}
        self.poly_hi = {}
        self.coplanar = set()
        # smallest non-zero metric distance of any intermediate vertex (after the planes
        # applied so far) to the next plane: multi-plane cases stay out of threshold bands
        self.min_gap = float("inf")
        for fi in self.faces:
            tri = [self.V[i] for i in self.F[fi]]
            N = cross(sub(tri[1], tri[0]), sub(tri[2], tri[0]))
            self.N2[fi] = N
            nn = dot(N, N)
            lo = hi = list(tri)
            for pl in self.planes:
                if all(pl.d(p) == 0 or (band is not None and abs(float(pl.d(p))) / pl.nlen <= band) for p in tri):
                    self.coplanar.add(fi)
                for p in hi:
                    dd = pl.d(p)
                    if dd != 0:
                        self.min_gap = min(self.min_gap, abs(float(dd)) / pl.nlen)
                lo = clip_polygon(lo, pl, keep_on=False, band=band)
                hi = clip_polygon(hi, pl, keep_on=True, band=band)
            self.poly_hi[fi] = hi
            if nn == 0:
                self.ratio_lo[fi] = self.ratio_hi[fi] = Fr(0)
                continue
            self.ratio_lo[fi] = dot(polygon_normal2(lo), N) / nn if lo else Fr(0)
            self.ratio_hi[fi] = dot(polygon_normal2(hi), N) / nn if hi else Fr(0)

    def face_area(self, fi):
        return sqrt(float(dot(self.N2[fi], self.N2[fi]))) / 2.0

    def area_bounds(self):
        """(lower, upper): coplanar faces dropped / kept."""
        lo = sum(float(self.ratio_lo[f]) * self.face_area(f) for f in self.faces)
        hi = sum(float(self.ratio_hi[f]) * self.face_area(f) for f in self.faces)
        return lo, hi

    def coplanar_facing(self, sense):
        """Area of coplanar faces whose normal is along (sense>0) / against the FIRST plane normal."""
        n = self.planes[0].n
        return sum(
            self.face_area(f) for f in self.coplanar if sgn(dot(self.N2[f], n)) * sense > 0
        )

    def total_area(self):
        return sum(self.face_area(f) for f in self.faces)

    def volume6_about(self, c):
        """
        6 x signed volume enclosed by the clipped surface plus any cap lying in a plane
        through c (such a cap contributes nothing).  Exact.  Coplanar faces contribute 0
        when c is on their plane.
        """
        acc = Fr(0)
        for fi in self.faces:
            poly = self.poly_hi[fi]
            for i in range(1, len(poly) - 1):
                acc += det3(sub(poly[0], c), sub(poly[i], c), sub(poly[i + 1], c))
        return acc


def volume6(V, F):
    """6 x signed volume of an integer mesh, exact."""
    acc = 0
    for a, b, c in F:
        A, B, C = V[int(a)], V[int(b)], V[int(c)]
        acc += (
            int(A[0]) * (int(B[1]) * int(C[2]) - int(B[2]) * int(C[1]))
            - int(A[1]) * (int(B[0]) * int(C[2]) - int(B[2]) * int(C[0]))
            + int(A[2]) * (int(B[0]) * int(C[1]) - int(B[1]) * int(C[0]))
        )
    return acc
