"""
Dict-forest reference model of a scene graph (C09, C10).

State: parent[child], matrix[child] (the single edge into each non-root frame), the set of
frame names, the geometry name attached to a frame, and the base frame.  Nothing is cached:
every query walks to the root.

    W(n)    = M[r1] . M[r2] ... M[n]      product of the edges from n's root down to n
    T(a, b) = W(a)^-1 . W(b)              == SceneGraph.get(frame_to=b, frame_from=a)
    a, b connected  <=>  root(a) == root(b)

Plain numpy only; no trimesh import.
"""

from __future__ import annotations

import numpy as np

_NO = object()


def quaternion_to_matrix(q):
    """Homogeneous rotation of a unit quaternion [w, x, y, z] (textbook formula)."""
    w, x, y, z = [float(v) for v in q]
    n = w * w + x * x + y * y + z * z
    s = 2.0 / n
    M = np.eye(4)
    M[:3, :3] = [
        [1 - s * (y * y + z * z), s * (x * y - w * z), s * (x * z + w * y)],
        [s * (x * y + w * z), 1 - s * (x * x + z * z), s * (y * z - w * x)],
        [s * (x * z - w * y), s * (y * z + w * x), 1 - s * (x * x + y * y)],
    ]
    return M


def axis_angle_to_matrix(axis, angle):
    """Rodrigues: R = I + sin(t) K + (1 - cos(t)) K^2 for the unit axis."""
    a = np.asarray(axis, dtype=np.float64)
    a = a / np.linalg.norm(a)
    K = np.array([[0, -a[2], a[1]], [a[2], 0, -a[0]], [-a[1], a[0], 0]])
    M = np.eye(4)
    M[:3, :3] = np.eye(3) + np.sin(angle) * K + (1 - np.cos(angle)) * (K @ K)
    return M


def kwargs_matrix(kw):
    """
    The matrix denoted by update() keyword arguments, per the documented rules: a matrix takes
    precedence over everything; otherwise quaternion or axis+angle give the rotation, and a
    translation is added to it; nothing given denotes the identity.
    """
    if kw.get("matrix") is not None:
        return np.array(kw["matrix"], dtype=np.float64).reshape(4, 4).copy()
    if kw.get("quaternion") is not None:
        M = quaternion_to_matrix(kw["quaternion"])
    elif kw.get("axis") is not None and kw.get("angle") is not None:
        M = axis_angle_to_matrix(kw["axis"], kw["angle"])
    else:
        M = np.eye(4)
    if kw.get("translation") is not None:
        M[:3, 3] += np.asarray(kw["translation"], dtype=np.float64)
    return M


class Disconnected(Exception):
    pass


class Forest:
    def __init__(self, base="world"):
        self.base = base
        self.parent = {}
        self.matrix = {}
        self.nodes = {}  # insertion ordered set
        self.geometry = {}  # node -> geometry name
        # history features (classification only, never used to compute an expected value):
        # former: (old_parent, child) pairs whose edge was replaced by a re-parent and has
        #         since been neither reinstated nor lost one of its frames
        self.former = set()
        self.reparented_onto_former = False

    # ------------------------------------------------------------------ edits
    def copy(self):
        f = Forest(self.base)
        f.parent = dict(self.parent)
        f.matrix = {k: v.copy() for k, v in self.matrix.items()}
        f.nodes = dict(self.nodes)
        f.geometry = dict(self.geometry)
        f.former = set(self.former)
        f.reparented_onto_former = self.reparented_onto_former
        return f

    def would_cycle(self, frame_to, frame_from):
        """True when making frame_from the parent of frame_to closes a loop."""
        n = frame_from
        for _ in range(len(self.nodes) + 2):
            if n == frame_to:
                return True
            n = self.parent.get(n)
            if n is None:
                return False
        return True

    def update(self, frame_to, frame_from=None, matrix=None, geometry=_NO):
        """The single edge into frame_to becomes frame_from -> frame_to with `matrix`."""
        if frame_from is None:
            frame_from = self.base
        if self.would_cycle(frame_to, frame_from):
            raise ValueError("not a forest")
        old = self.parent.get(frame_to)
        kind = "new" if old is None else ("same" if old == frame_from else "reparent")
        if kind == "reparent":
            self.former.add((old, frame_to))
        if (frame_from, frame_to) in self.former:
            self.former.discard((frame_from, frame_to))
            self.reparented_onto_former = True
        self.nodes.setdefault(frame_from, True)
        self.nodes.setdefault(frame_to, True)
        self.parent[frame_to] = frame_from
        self.matrix[frame_to] = np.eye(4) if matrix is None else np.array(matrix, dtype=np.float64)
        if geometry is not _NO:
            self.geometry[frame_to] = geometry
        return kind

    def remove_node(self, u):
        if u not in self.nodes:
            return False
        for c in [c for c, p in self.parent.items() if p == u]:
            del self.parent[c]
            del self.matrix[c]
        self.parent.pop(u, None)
        self.matrix.pop(u, None)
        del self.nodes[u]
        self.geometry.pop(u, None)
        self.former = {e for e in self.former if u not in e}
        return True

    def remove_geometries(self, names):
        names = {names} if isinstance(names, str) else set(names)
        for n in [n for n, g in self.geometry.items() if g in names]:
            del self.geometry[n]

    def clear(self):
        self.parent, self.matrix, self.nodes, self.geometry = {}, {}, {}, {}
        self.former = set()
        self.reparented_onto_former = False

    # ------------------------------------------------------------------ queries
    def root_world(self, n):
        """(root of n, W(n))"""
        W = np.eye(4)
        for _ in range(len(self.nodes) + 2):
            p = self.parent.get(n)
            if p is None:
                return n, W
            W = self.matrix[n] @ W
            n = p
        raise RuntimeError("cycle in the reference forest")

    def connected(self, a, b):
        if a not in self.nodes or b not in self.nodes:
            return False
        return self.root_world(a)[0] == self.root_world(b)[0]

    def T(self, frame_from, frame_to):
        """Expected SceneGraph.get(frame_to, frame_from)[0]; raises Disconnected."""
        if frame_from not in self.nodes or frame_to not in self.nodes:
            raise Disconnected((frame_from, frame_to))
        ra, Wa = self.root_world(frame_from)
        rb, Wb = self.root_world(frame_to)
        if ra != rb:
            raise Disconnected((frame_from, frame_to))
        if frame_from == frame_to:
            return np.eye(4)
        return np.linalg.inv(Wa) @ Wb

    def world(self, node):
        """Matrix placing `node` in the base frame, or None when not connected to it."""
        try:
            return self.T(self.base, node)
        except Disconnected:
            return None

    def path(self, a, b):
        """Node sequence a .. b through the common ancestor (None if disconnected)."""
        if not self.connected(a, b):
            return None
        up_a, n = [a], a
        while n in self.parent:
            n = self.parent[n]
            up_a.append(n)
        up_b, n = [b], b
        while n not in up_a:
            n = self.parent[n]
            up_b.append(n)
        return up_a[: up_a.index(up_b[-1]) + 1] + up_b[-2::-1]

    def children(self, n):
        return [c for c, p in self.parent.items() if p == n]

    def descendants(self, n):
        out, todo = [], [n]
        while todo:
            x = todo.pop()
            out.append(x)
            todo.extend(self.children(x))
        return out

    def depth(self, n):
        d = 0
        while n in self.parent:
            n = self.parent[n]
            d += 1
        return d

    def nodes_geometry(self):
        return {n for n in self.nodes if n in self.geometry}

    def geometry_nodes(self):
        out = {}
        for n, g in self.geometry.items():
            out.setdefault(g, set()).add(n)
        return out

    def instances(self):
        """[(node, geometry name, world matrix)] for every node with geometry reachable from base."""
        out = []
        for n in self.nodes:
            if n in self.geometry:
                W = self.world(n)
                if W is not None:
                    out.append((n, self.geometry[n], W))
        return out

    def shape(self):
        """Canonical unlabeled shape: sorted nested tuples, one per root."""

        def canon(n):
            return tuple(sorted(canon(c) for c in self.children(n)))

        roots = [n for n in self.nodes if n not in self.parent]
        return repr(tuple(sorted(canon(r) for r in roots))).replace(" ", "").replace(",)", ")")

    def isolated(self):
        return [n for n in self.nodes if n not in self.parent and not self.children(n)]
