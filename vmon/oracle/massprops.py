"""
Exact mass properties of a closed oriented triangle surface.

Independent of trimesh: signed tetrahedron decomposition from the origin evaluated in exact
integer / rational arithmetic on the *very same float64 (or integer) coordinates* the mesh holds.

For a face (a, b, c) with d = det[a b c] the tetrahedron (0, a, b, c) contributes

    volume              d / 6
    int x_i             d / 24  * (a_i + b_i + c_i)
    int x_i x_j         d / 120 * (a_i a_j + b_i b_j + c_i c_j + (a_i+b_i+c_i)(a_j+b_j+c_j))

(the monomial integrals over a simplex; summing the signed tetrahedra of a closed oriented surface
gives the integral over the enclosed solid, counted with winding number for overlapping shells).
Every float64 is a dyadic rational, so all coordinates are first brought to one common power-of-two
denominator D and the sums are evaluated in Python integers; the results are Fractions.

    ex = exact_mass(V, F)
    ex.volume, ex.first[i], ex.second[i][j]          Fractions (density 1)
    ex.center_mass()                                 [Fraction]*3   (ValueError when volume == 0)
    ex.inertia_about(p)                              3x3 Fractions about the point p, world axes
    ex.inertia_com(center=None)                      about the centre of mass (or: parallel-axis
                                                     shift of the origin tensor with `center`
                                                     *treated as* the centre of mass)
    ex.inertia_frame(R, t, center=None)              about the point t, expressed in the axes that
                                                     are the columns of R (R rational / float)
    ex.area                                          float, from exact |cross|^2 and 40-digit sqrt
    ex.mag_*                                         float upper bounds of sum|terms| of a float64
                                                     surface-integral evaluation (for tolerances)
    ex.tol_*(k=64)                                   absolute float tolerances derived from them
    ex.local(ref)                                    the same solid in coordinates relative to ref:
                                                     exact moments about ref, mag_* / tol_* of an
                                                     evaluation on fl(V - ref)

Magnitude bounds.  A float64 evaluation from vertex coordinates forms, per face, products of a
cross-product component N_i = (e1 x e2)_i with a polynomial of degree 1..3 in the coordinates.
With Nabs_i = |e1_j e2_k| + |e1_k e2_j| and S_i = |a_i| + |b_i| + |c_i| every monomial sum of such
an evaluation is bounded by
    volume   sum Nabs_x S_x / 6            first_i   sum Nabs_i S_i^2 / 24
    second_ii sum Nabs_i S_i^3 / 60        second_ij sum (Nabs_i S_i^2 S_j + Nabs_j S_j^2 S_i) / 40
so `k * eps * mag` with k = 64 covers the rounding of any reasonable evaluation order while being
~1e-14 relative to the terms: a wrong coefficient or index shows unless the cancellation ratio
mag / |result| (reported as ex.cancellation_*) approaches 1e14.
"""

from __future__ import annotations

import decimal
from fractions import Fraction

import numpy as np

EPS = float(np.finfo(np.float64).eps)
_CTX = decimal.Context(prec=50)


def _to_common_ints(V):
    """rows of Python ints and the common denominator D (a power of two, or 1)."""
    A = np.asarray(V)
    if A.dtype.kind in "iu":
        return [[int(x) for x in row] for row in A.tolist()], 1
    A = np.asarray(A, dtype=np.float64)
    if not np.isfinite(A).all():
        raise ValueError("non-finite coordinate")
    ratios = [[float(x).as_integer_ratio() for x in row] for row in A.tolist()]
    D = 1
    for row in ratios:
        for _, d in row:
            if d > D:
                D = d
    return [[n * (D // d) for n, d in row] for row in ratios], D


def _frac(x):
    if isinstance(x, Fraction):
        return x
    if isinstance(x, (int, np.integer)):
        return Fraction(int(x))
    return Fraction(float(x))  # exact: floats are dyadic rationals


class ExactMass:
    def __init__(self, V, F):
        P, D = _to_common_ints(V)
        F = [[int(i) for i in f] for f in np.asarray(F).tolist()]
        self.n_faces = len(F)
        self.denominator = D
        v6 = 0
        f24 = [0, 0, 0]
        s120 = [[0, 0, 0], [0, 0, 0], [0, 0, 0]]
        area_dec = decimal.Decimal(0)
        for ia, ib, ic in F:
            a, b, c = P[ia], P[ib], P[ic]
            d = (
                a[0] * (b[1] * c[2] - b[2] * c[1])
                - a[1] * (b[0] * c[2] - b[2] * c[0])
                + a[2] * (b[0] * c[1] - b[1] * c[0])
            )
            s = (a[0] + b[0] + c[0], a[1] + b[1] + c[1], a[2] + b[2] + c[2])
            if d:
                v6 += d
                for i in range(3):
                    f24[i] += d * s[i]
                    for j in range(i, 3):
                        s120[i][j] += d * (a[i] * a[j] + b[i] * b[j] + c[i] * c[j] + s[i] * s[j])
            # area from the exact squared cross product
            e1 = (b[0] - a[0], b[1] - a[1], b[2] - a[2])
            e2 = (c[0] - a[0], c[1] - a[1], c[2] - a[2])
            n0 = e1[1] * e2[2] - e1[2] * e2[1]
            n1 = e1[2] * e2[0] - e1[0] * e2[2]
            n2 = e1[0] * e2[1] - e1[1] * e2[0]
            nn = n0 * n0 + n1 * n1 + n2 * n2
            if nn:
                area_dec += _CTX.sqrt(decimal.Decimal(nn))
        self.volume = Fraction(v6, 6 * D**3)
        self.first = [Fraction(f24[i], 24 * D**4) for i in range(3)]
        self.second = [[None] * 3 for _ in range(3)]
        for i in range(3):
            for j in range(i, 3):
                self.second[i][j] = self.second[j][i] = Fraction(s120[i][j], 120 * D**5)
        self.area = float(_CTX.divide(area_dec, decimal.Decimal(2 * D * D)))
        self._VF = (V, F)
        self._magnitudes(V, F)

    def local(self, ref):
        """
        The same solid seen from the point `ref` (floats): exact volume / first / second moments
        shifted exactly, and the magnitude bounds (hence tol_*) of a float64 surface-integral
        evaluation carried out on the coordinates fl(V - ref) instead of V, i.e. of a
        translation-invariant evaluation.  Positions handed to tol_inertia / tol_center_mass of
        the view are relative to `ref`.
        """
        ref = [float(x) for x in ref]
        o = object.__new__(ExactMass)
        o.n_faces, o.denominator = self.n_faces, self.denominator
        o.volume = self.volume
        o.first = [self.first[i] - self.volume * _frac(ref[i]) for i in range(3)]
        o.second = self.second_about(ref)
        o.area = self.area
        V, F = self._VF
        Vl = np.asarray(V, dtype=np.float64) - np.asarray(ref, dtype=np.float64)
        o._VF = (Vl, F)
        o._magnitudes(Vl, F)
        return o

    # ------------------------------------------------------------------ magnitudes
    def _magnitudes(self, V, F):
        A = np.abs(np.asarray(V, dtype=np.float64))
        Vf = np.asarray(V, dtype=np.float64)
        F = np.asarray(F, dtype=np.int64).reshape(-1, 3)
        if len(F) == 0:
            self.mag_volume = 0.0
            self.mag_first = np.zeros(3)
            self.mag_second = np.zeros((3, 3))
            self.mag_area = 0.0
            return
        T = Vf[F]
        e1 = np.abs(T[:, 1] - T[:, 0])
        e2a = np.abs(T[:, 2] - T[:, 1])
        e2b = np.abs(T[:, 2] - T[:, 0])
        e2 = np.maximum(e2a, e2b)  # whichever second edge an implementation uses
        nabs = np.stack(
            [
                e1[:, 1] * e2[:, 2] + e1[:, 2] * e2[:, 1],
                e1[:, 2] * e2[:, 0] + e1[:, 0] * e2[:, 2],
                e1[:, 0] * e2[:, 1] + e1[:, 1] * e2[:, 0],
            ],
            axis=1,
        )
        S = A[F].sum(axis=1)  # (n,3)
        # any axis may be used for the volume (divergence theorem): take the largest bound
        self.mag_volume = float(max((nabs[:, i] * S[:, i]).sum() for i in range(3)) / 6.0)
        self.mag_first = (nabs * S**2).sum(axis=0) / 24.0
        m2 = np.zeros((3, 3))
        for i in range(3):
            m2[i, i] = (nabs[:, i] * S[:, i] ** 3).sum() / 60.0
            for j in range(3):
                if i != j:
                    m2[i, j] = (
                        nabs[:, i] * S[:, i] ** 2 * S[:, j] + nabs[:, j] * S[:, j] ** 2 * S[:, i]
                    ).sum() / 40.0
        self.mag_second = m2
        self.mag_area = float(np.sqrt((nabs**2).sum(axis=1)).sum() / 2.0)

    # ------------------------------------------------------------------ exact derived values
    def center_mass(self):
        if self.volume == 0:
            raise ValueError("zero volume")
        return [f / self.volume for f in self.first]

    def second_about(self, p):
        """int (x-p)_i (x-p)_j dV, exact."""
        p = [_frac(x) for x in p]
        V, Fi, S = self.volume, self.first, self.second
        return [
            [S[i][j] - p[i] * Fi[j] - p[j] * Fi[i] + V * p[i] * p[j] for j in range(3)]
            for i in range(3)
        ]

    @staticmethod
    def _tensor_from_second(S):
        tr = S[0][0] + S[1][1] + S[2][2]
        return [[(tr if i == j else 0) - S[i][j] for j in range(3)] for i in range(3)]

    def inertia_about(self, p):
        """Inertia tensor (density 1) of the uniform solid about the point p, world axes."""
        return self._tensor_from_second(self.second_about(p))

    @staticmethod
    def parallel_axis(a):
        """|a|^2 I - a a^T"""
        a = [_frac(x) for x in a]
        n = a[0] * a[0] + a[1] * a[1] + a[2] * a[2]
        return [[(n if i == j else 0) - a[i] * a[j] for j in range(3)] for i in range(3)]

    def inertia_com(self, center=None):
        """
        center None: tensor about the exact centre of mass.
        center given: the parallel-axis law with `center` treated as the centre of mass,
        I_origin - V * (|c|^2 I - c c^T)   (what "the stated centre of mass is honoured" means
        for a body whose mass distribution is otherwise described by the uniform solid).
        """
        if center is None:
            return self.inertia_about(self.center_mass())
        Io = self.inertia_about([0, 0, 0])
        pa = self.parallel_axis(center)
        return [[Io[i][j] - self.volume * pa[i][j] for j in range(3)] for i in range(3)]

    def inertia_point(self, t, center=None):
        """Tensor about the point t in world axes (with an optional stated centre of mass)."""
        if center is None:
            return self.inertia_about(t)
        Ic = self.inertia_com(center)
        t = [_frac(x) for x in t]
        c = [_frac(x) for x in center]
        pa = self.parallel_axis([t[i] - c[i] for i in range(3)])
        return [[Ic[i][j] + self.volume * pa[i][j] for j in range(3)] for i in range(3)]

    def inertia_frame(self, R, t, center=None):
        """
        Tensor about the point t expressed in the frame whose axes are the COLUMNS of R
        (frame -> world rotation): R^T I_t R.
        """
        It = self.inertia_point(t, center)
        R = [[_frac(x) for x in row] for row in R]
        tmp = [[sum(It[i][k] * R[k][j] for k in range(3)) for j in range(3)] for i in range(3)]
        return [[sum(R[k][i] * tmp[k][j] for k in range(3)) for j in range(3)] for i in range(3)]

    # ------------------------------------------------------------------ float views
    @staticmethod
    def f(x):
        if isinstance(x, list):
            return np.array([ExactMass.f(v) for v in x], dtype=np.float64)
        return float(x)

    # ------------------------------------------------------------------ tolerances
    def tol_volume(self, k=64):
        return k * EPS * self.mag_volume

    def tol_first(self, k=64):
        return k * EPS * self.mag_first

    def tol_second(self, k=64):
        return k * EPS * self.mag_second

    def tol_area(self, k=64):
        return k * EPS * self.mag_area

    def tol_center_mass(self, k=64):
        V = abs(float(self.volume))
        c = np.abs(self.f(self.center_mass()))
        return (self.tol_first(k) + c * self.tol_volume(k)) / V + 4 * EPS * c

    def tol_inertia(self, center, tol_center, about=None, k=64):
        """
        Entry-wise tolerance of I_origin - V*PA(center) [+ V*PA(about-center)] evaluated in
        float64 from integrals carrying tol_second / tol_volume and a centre carrying tol_center.
        """
        V = abs(float(self.volume))
        tv = self.tol_volume(k)
        ts = self.tol_second(k)
        S = np.abs(self.f([[x for x in row] for row in self.second]))
        c = np.abs(np.asarray(center, dtype=np.float64))
        tc = np.asarray(tol_center, dtype=np.float64)
        out = np.zeros((3, 3))

        def shift(vec, tvec):
            o = np.zeros((3, 3))
            for i in range(3):
                for j in range(3):
                    if i == j:
                        oth = [a for a in range(3) if a != i]
                        o[i, j] = sum(tv * vec[a] ** 2 + 2 * V * vec[a] * tvec[a] + 8 * EPS * V * vec[a] ** 2 for a in oth)
                    else:
                        o[i, j] = tv * vec[i] * vec[j] + V * (vec[i] * tvec[j] + vec[j] * tvec[i]) + 8 * EPS * V * vec[i] * vec[j]
            return o

        for i in range(3):
            for j in range(3):
                if i == j:
                    oth = [a for a in range(3) if a != i]
                    out[i, j] = sum(ts[a, a] + 8 * EPS * S[a, a] for a in oth)
                else:
                    out[i, j] = ts[i, j] + 8 * EPS * S[i, j]
        out += shift(c, tc)
        if about is not None:
            a = np.abs(np.asarray(about, dtype=np.float64)) + c
            out += shift(a, tc)
        return out

    # ------------------------------------------------------------------ cancellation report
    def cancellation(self):
        V = abs(float(self.volume))
        out = {"volume": self.mag_volume / V if V else float("inf")}
        S = np.abs(self.f([[x for x in row] for row in self.second]))
        with np.errstate(divide="ignore", invalid="ignore"):
            out["second_max"] = float(np.nanmax(np.where(S > 0, self.mag_second / S, np.nan))) if (S > 0).any() else float("inf")
        return out


def exact_mass(V, F):
    return ExactMass(V, F)


def rotate_tensor(R, I):
    """R I R^T in exact arithmetic."""
    R = [[_frac(x) for x in row] for row in R]
    tmp = [[sum(R[i][k] * I[k][j] for k in range(3)) for j in range(3)] for i in range(3)]
    return [[sum(tmp[i][k] * R[j][k] for k in range(3)) for j in range(3)] for i in range(3)]
