"""
Independent exhaustive references for C12 (plain numpy, float64, every triangle):

* ray_table        every ray against every triangle (Moeller-Trumbore) plus the quantities the
                   general-position filter needs (line-to-edge distance, grazing angle)
* winding_number   solid-angle winding number (Van Oosterom - Strackee), independent of rays
* closest_on_triangles   project-and-clamp closest point of every point on every triangle with
                   the Voronoi region (A, B, C, AB, BC, AC, face) that attains it

Nothing here calls trimesh.
"""

from __future__ import annotations

import numpy as np

REGIONS = ("A", "B", "C", "AB", "BC", "AC", "face")


def unit(v):
    v = np.asarray(v, dtype=np.float64)
    return v / np.linalg.norm(v, axis=-1, keepdims=True)


def tri_normals(T):
    N = np.cross(T[:, 1] - T[:, 0], T[:, 2] - T[:, 0])
    L = np.linalg.norm(N, axis=1)
    return N / L[:, None], L


def line_segment_distance(O, D, P0, P1):
    """
    Distance between infinite lines (O + t D, D unit; shape (m,3)) and segments P0->P1 (n,3).
    Returns (m, n).
    """
    E = (P1 - P0)[None, :, :]  # (1,n,3)
    W = P0[None, :, :] - O[:, None, :]  # (m,n,3)
    Dm = D[:, None, :]
    b = (Dm * E).sum(-1)  # (m,n)
    c = (E * E).sum(-1)  # (1,n)
    dd = (Dm * W).sum(-1)
    ee = (E * W).sum(-1)
    denom = c - b * b  # a == 1
    with np.errstate(divide="ignore", invalid="ignore"):
        s = np.where(denom > 1e-14 * c, (b * dd - ee) / denom, 0.0)
    s = np.clip(s, 0.0, 1.0)
    Q = W + s[..., None] * E  # point on the segment relative to O
    tl = (Q * Dm).sum(-1)
    R = Q - tl[..., None] * Dm
    return np.sqrt((R * R).sum(-1))


def ray_table(T, O, D):
    """
    T (n,3,3) triangles, O (m,3) origins, D (m,3) directions (any length > 0).

    Returns dict of (m,n) arrays:
      t        ray parameter of the plane hit in units of the UNIT direction (distance)
      bary     (m,n,3) barycentric coordinates of the plane hit
      dn       unit direction . unit normal
      edge     distance from the ray's LINE to the nearest of the triangle's three edges
      pierce   the line passes strictly through the triangle (sign test of edge moments,
               no division) - meaningful also for grazing rays
    """
    T = np.asarray(T, dtype=np.float64)
    O = np.asarray(O, dtype=np.float64)
    D = unit(D)
    A, B, C = T[:, 0], T[:, 1], T[:, 2]
    E1, E2 = B - A, C - A
    Nn, _ = tri_normals(T)
    dn = D @ Nn.T
    P = np.cross(D[:, None, :], E2[None, :, :])  # (m,n,3)
    det = (P * E1[None]).sum(-1)
    TV = O[:, None, :] - A[None, :, :]
    Q = np.cross(TV, E1[None])
    with np.errstate(divide="ignore", invalid="ignore"):
        inv = 1.0 / det
        u = (TV * P).sum(-1) * inv
        v = (D[:, None, :] * Q).sum(-1) * inv
        t = (E2[None] * Q).sum(-1) * inv
    bary = np.stack([1.0 - u - v, u, v], axis=-1)
    # edge moments: sign test
    VA = A[None] - O[:, None, :]
    VB = B[None] - O[:, None, :]
    VC = C[None] - O[:, None, :]
    Dm = D[:, None, :]
    s0 = (Dm * np.cross(VA, VB)).sum(-1)
    s1 = (Dm * np.cross(VB, VC)).sum(-1)
    s2 = (Dm * np.cross(VC, VA)).sum(-1)
    pierce = ((s0 > 0) & (s1 > 0) & (s2 > 0)) | ((s0 < 0) & (s1 < 0) & (s2 < 0))
    edge = np.minimum(
        np.minimum(line_segment_distance(O, D, A, B), line_segment_distance(O, D, B, C)),
        line_segment_distance(O, D, C, A),
    )
    return {"t": t, "bary": bary, "dn": dn, "edge": edge, "pierce": pierce, "D": D}


def classify_rays(tab, scale, delta, graze=1e-3, near=10.0):
    """
    General-position filter computed by the oracle itself.

    A ray is kept iff for EVERY triangle
      * its line stays >= delta*scale away from all three edges (so the plane hit is either
        inside by a margin or outside by a margin),
      * a pierced triangle is crossed at |d.n| >= graze,
      * a pierced triangle is not within near*delta*scale of the origin (either side).
    Returns keep (m,), hit (m,n) bool = pierced ahead of the origin.
    """
    pierce = tab["pierce"]
    # bary based inside test must agree with the sign test on kept rays
    with np.errstate(invalid="ignore"):
        inside_b = (tab["bary"] > 0).all(-1)
    ok_edge = (tab["edge"] >= delta * scale).all(axis=1)
    grazing = (pierce & (np.abs(tab["dn"]) < graze)).any(axis=1)
    with np.errstate(invalid="ignore"):
        close = (pierce & (np.abs(tab["t"]) < near * delta * scale)).any(axis=1)
        disagree = (pierce != inside_b) & (np.abs(tab["dn"]) >= graze)
    keep = ok_edge & ~grazing & ~close & ~disagree.any(axis=1)
    with np.errstate(invalid="ignore"):
        hit = pierce & (tab["t"] > 0)
    return keep, hit


# ------------------------------------------------------------------ winding number


def winding_number(T, P, chunk=2000):
    """Sum of signed solid angles / 4 pi for points P (m,3) against triangles T (n,3,3)."""
    T = np.asarray(T, dtype=np.float64)
    P = np.asarray(P, dtype=np.float64)
    out = np.zeros(len(P))
    for s in range(0, len(P), chunk):
        p = P[s : s + chunk]
        a = T[None, :, 0] - p[:, None]
        b = T[None, :, 1] - p[:, None]
        c = T[None, :, 2] - p[:, None]
        la, lb, lc = (np.linalg.norm(x, axis=-1) for x in (a, b, c))
        num = (a * np.cross(b, c)).sum(-1)
        den = la * lb * lc + (a * b).sum(-1) * lc + (b * c).sum(-1) * la + (c * a).sum(-1) * lb
        out[s : s + chunk] = (2.0 * np.arctan2(num, den)).sum(axis=1) / (4.0 * np.pi)
    return out


# ------------------------------------------------------------------ closest point


def _closest_on_segment(P, S0, S1):
    """P (m,1,3) or (k,3) broadcastable with S0,S1; returns closest point and parameter."""
    E = S1 - S0
    ee = (E * E).sum(-1)
    with np.errstate(divide="ignore", invalid="ignore"):
        s = ((P - S0) * E).sum(-1) / ee
    s = np.where(ee > 0, s, 0.0)
    s = np.clip(s, 0.0, 1.0)
    return S0 + s[..., None] * E, s


def closest_pairs(T, P):
    """
    Row-wise: closest point of P[i] on triangle T[i].  Project onto the plane; if the foot
    point is inside (edge-function test) it is the answer, otherwise the nearest of the three
    clamped edge projections.  Returns (closest (k,3), distance (k,), region code index (k,)).
    """
    T = np.asarray(T, dtype=np.float64)
    P = np.asarray(P, dtype=np.float64)
    A, B, C = T[:, 0], T[:, 1], T[:, 2]
    N = np.cross(B - A, C - A)
    nn = (N * N).sum(-1)
    with np.errstate(divide="ignore", invalid="ignore"):
        h = ((P - A) * N).sum(-1) / nn
    h = np.where(nn > 0, h, 0.0)
    F = P - h[:, None] * N  # foot point on the plane
    # edge functions: positive when F is on the inner side of each edge
    e0 = (np.cross(B - A, F - A) * N).sum(-1)
    e1 = (np.cross(C - B, F - B) * N).sum(-1)
    e2 = (np.cross(A - C, F - C) * N).sum(-1)
    # a triangle whose height is below 1e-8 of its longest edge (zero-area face given by three
    # collinear vertices, up to rounding) has no usable plane: it is its three edges
    L2 = np.maximum(((B - A) ** 2).sum(-1), np.maximum(((C - B) ** 2).sum(-1), ((A - C) ** 2).sum(-1)))
    inside = (e0 >= 0) & (e1 >= 0) & (e2 >= 0) & (nn > 1e-16 * L2 * L2)
    cands = []
    for (S0, S1, codes) in ((A, B, (0, 3, 1)), (B, C, (1, 4, 2)), (C, A, (2, 5, 0))):
        q, s = _closest_on_segment(P, S0, S1)
        d = np.linalg.norm(P - q, axis=-1)
        code = np.where(s <= 0.0, codes[0], np.where(s >= 1.0, codes[2], codes[1]))
        cands.append((q, d, code))
    qs = np.stack([c[0] for c in cands], axis=0)  # (3,k,3)
    ds = np.stack([c[1] for c in cands], axis=0)
    cs = np.stack([c[2] for c in cands], axis=0)
    best = ds.argmin(axis=0)
    idx = np.arange(len(P))
    q_e, d_e, c_e = qs[best, idx], ds[best, idx], cs[best, idx]
    closest = np.where(inside[:, None], F, q_e)
    dist = np.where(inside, np.linalg.norm(P - F, axis=-1), d_e)
    region = np.where(inside, 6, c_e)
    return closest, dist, region


def closest_on_triangles(T, P):
    """
    Every point against every triangle.  Returns
      dist (m,n), closest (m,n,3), region (m,n)
    """
    T = np.asarray(T, dtype=np.float64)
    P = np.asarray(P, dtype=np.float64)
    m, n = len(P), len(T)
    TT = np.broadcast_to(T[None], (m, n, 3, 3)).reshape(-1, 3, 3)
    PP = np.broadcast_to(P[:, None], (m, n, 3)).reshape(-1, 3)
    c, d, r = closest_pairs(TT, PP)
    return d.reshape(m, n), c.reshape(m, n, 3), r.reshape(m, n)


def point_triangle_distance(T, P):
    """Row-wise distance only."""
    return closest_pairs(T, P)[1]
