"""
Independent oracles for created shapes (C15): plain numpy / math, no trimesh.

* mesh_measures(V, F)      signed volume, area, centre of mass, inertia about the centre of mass
                           (signed tetrahedra from the mean vertex, float64)
* topology(F)              watertight / winding consistent / degenerate faces from edge counting
* revolve_closed_form(..)  volume and area of a profile revolved as a stack of frusta of
                           inscribed regular N-gons (full turn) or of k flat wedges (partial turn)
* revolve_points(..)       the vertex set such a tessellation must have
* analytic inertia tensors of box, cylinder, sphere (about the centre, local axes)
"""

from __future__ import annotations

import math

import numpy as np


def mesh_measures(V, F):
    V = np.asarray(V, dtype=np.float64)
    F = np.asarray(F, dtype=np.int64)
    o = V.mean(axis=0) if len(V) else np.zeros(3)
    a, b, c = V[F[:, 0]] - o, V[F[:, 1]] - o, V[F[:, 2]] - o
    cr = np.cross(b - a, c - a)
    area = 0.5 * float(np.linalg.norm(cr, axis=1).sum())
    d = np.einsum("ij,ij->i", a, np.cross(b, c))
    vol = float(d.sum()) / 6.0
    out = {"volume": vol, "area": area, "bounds": np.array([V.min(axis=0), V.max(axis=0)]) if len(V) else None}
    if abs(vol) > 0:
        s = a + b + c
        first = (d[:, None] * s).sum(axis=0) / 24.0
        com_local = first / vol
        # second moments about o
        sec = np.zeros((3, 3))
        for i in range(3):
            for j in range(3):
                sec[i, j] = float((d * (a[:, i] * a[:, j] + b[:, i] * b[:, j] + c[:, i] * c[:, j] + s[:, i] * s[:, j])).sum()) / 120.0
        # shift to the centre of mass
        sec_c = sec - vol * np.outer(com_local, com_local)
        I = np.trace(sec_c) * np.eye(3) - sec_c
        out["center_mass"] = com_local + o
        out["inertia"] = I
    return out


def topology(F, nv=None):
    """
    watertight: every undirected edge is shared by exactly two faces
    consistent: every directed edge occurs exactly once (adjacent faces traverse it oppositely)
    """
    F = np.asarray(F, dtype=np.int64)
    deg = int(((F[:, 0] == F[:, 1]) | (F[:, 1] == F[:, 2]) | (F[:, 0] == F[:, 2])).sum())
    E = np.concatenate([F[:, [0, 1]], F[:, [1, 2]], F[:, [2, 0]]])
    big = int(E.max()) + 1 if len(E) else 1
    directed = E[:, 0] * big + E[:, 1]
    und = np.minimum(E[:, 0], E[:, 1]) * big + np.maximum(E[:, 0], E[:, 1])
    _, cu = np.unique(und, return_counts=True)
    _, cd = np.unique(directed, return_counts=True)
    watertight = bool(len(cu) and (cu == 2).all()) and deg == 0
    consistent = bool((cd == 1).all())
    # connected components over faces through shared vertices
    comp = None
    if len(F):
        parent = np.arange(int(F.max()) + 1)

        def find(x):
            while parent[x] != x:
                parent[x] = parent[parent[x]]
                x = parent[x]
            return x

        for f in F:
            ra, rb, rc = find(f[0]), find(f[1]), find(f[2])
            parent[rb] = ra
            parent[rc] = ra
        comp = len({find(int(v)) for v in np.unique(F)})
    return {"watertight": watertight, "consistent": consistent, "degenerate": deg,
            "open_edges": int((cu == 1).sum()), "nonmanifold_edges": int((cu > 2).sum()), "components": comp,
            "euler": (len(np.unique(F)) - len(cu) + len(F)) if len(F) else 0}


def _closed(profile):
    p = [tuple(map(float, q)) for q in profile]
    if p[0] != p[-1]:
        p = p + [p[0]]
    return p


def profile_area(profile):
    p = _closed(profile)
    return 0.5 * sum(p[i][0] * p[i + 1][1] - p[i + 1][0] * p[i][1] for i in range(len(p) - 1))


def revolve_closed_form(profile, sections, angle=None, cap=True):
    """
    profile: (r, z) points, counter-clockwise once closed (closing edge added if needed).
    full turn (angle None): stack of frusta of inscribed regular `sections`-gons.
    partial turn: `sections` flat wedges of angle/sections each; caps are the profile polygon.
    Returns (volume, area).
    """
    p = _closed(profile)
    N = int(sections)
    if angle is None:
        dth = 2.0 * math.pi / N
    else:
        dth = float(angle) / N
    kv = N * 0.5 * math.sin(dth)
    V = A = 0.0
    for (r1, z1), (r2, z2) in zip(p[:-1], p[1:]):
        V += kv * (z2 - z1) * (r1 * r1 + r1 * r2 + r2 * r2) / 3.0
        side = (r1 + r2) * math.sin(dth / 2.0)  # mean chord of the two rims
        A += N * side * math.hypot(z2 - z1, (r2 - r1) * math.cos(dth / 2.0))
    if angle is not None and cap:
        A += 2.0 * abs(profile_area(profile))
    return V, A


def revolve_smooth(profile, angle=None):
    """Volume and area of the smooth solid of revolution (Pappus / Green)."""
    p = _closed(profile)
    ang = 2.0 * math.pi if angle is None else float(angle)
    V = A = 0.0
    for (r1, z1), (r2, z2) in zip(p[:-1], p[1:]):
        V += 0.5 * ang * (z2 - z1) * (r1 * r1 + r1 * r2 + r2 * r2) / 3.0
        A += ang * 0.5 * (r1 + r2) * math.hypot(z2 - z1, r2 - r1)
    return V, A


def revolve_points(profile, sections, angle=None):
    """Vertex set of the tessellation (points on the axis appear once)."""
    pts = []
    N = int(sections)
    if angle is None:
        thetas = [2.0 * math.pi * j / N for j in range(N)]
    else:
        thetas = [float(angle) * j / N for j in range(N + 1)]
    for r, z in profile:
        if abs(r) < 1e-14:
            pts.append((0.0, 0.0, float(z)))
        else:
            for t in thetas:
                pts.append((r * math.cos(t), r * math.sin(t), float(z)))
    return np.array(pts, dtype=np.float64)


def same_point_set(A, B, tol):
    """Every point of A has a point of B within tol and vice versa (sets, duplicates ignored)."""
    A = np.asarray(A, dtype=np.float64).reshape((-1, 3))
    B = np.asarray(B, dtype=np.float64).reshape((-1, 3))
    if len(A) == 0 or len(B) == 0:
        return len(A) == len(B), np.inf
    # sort-free O(n m) in chunks is fine for the sizes used (<= ~5000 points)
    worst = 0.0
    for X, Y in ((A, B), (B, A)):
        for i in range(0, len(X), 512):
            d = np.linalg.norm(X[i:i + 512, None, :] - Y[None, :, :], axis=2).min(axis=1)
            worst = max(worst, float(d.max()))
    return worst <= tol, worst


# ---------------------------------------------------------------------------- analytic tensors


def box_inertia(extents, mass=None):
    a, b, c = map(float, extents)
    m = a * b * c if mass is None else mass
    return np.diag([m * (b * b + c * c) / 12.0, m * (a * a + c * c) / 12.0, m * (a * a + b * b) / 12.0])


def cylinder_inertia(radius, height, mass=None):
    r, h = float(radius), float(height)
    m = math.pi * r * r * h if mass is None else mass
    return np.diag([m * (3 * r * r + h * h) / 12.0, m * (3 * r * r + h * h) / 12.0, m * r * r / 2.0])


def sphere_inertia(radius, mass=None):
    r = float(radius)
    m = 4.0 / 3.0 * math.pi * r ** 3 if mass is None else mass
    return np.eye(3) * (0.4 * m * r * r)


def rotate_tensor(R, I):
    R = np.asarray(R, dtype=np.float64)[:3, :3]
    return R @ I @ R.T


# ---------------------------------------------------------------------------- profiles


def profile_cylinder(radius, height):
    h = abs(float(height)) / 2.0
    return [(0.0, -h), (radius, -h), (radius, h), (0.0, h)]


def profile_cone(radius, height):
    return [(0.0, 0.0), (radius, 0.0), (0.0, height)]


def profile_annulus(r_min, r_max, height):
    h = abs(float(height)) / 2.0
    return [(r_min, -h), (r_max, -h), (r_max, h), (r_min, h)]


def profile_torus(major, minor, n):
    return [(major + minor * math.cos(2 * math.pi * k / n), minor * math.sin(2 * math.pi * k / n)) for k in range(n)]


def profile_uv_sphere(radius, nlat):
    """nlat points from the south to the north pole, uniformly spaced in latitude."""
    out = []
    for k in range(nlat):
        t = math.pi * k / (nlat - 1)
        r = radius * math.sin(t)
        if k in (0, nlat - 1):
            r = 0.0
        out.append((r, -radius * math.cos(t)))
    return out


def profile_capsule(radius, height, nlat):
    """half circle of nlat points (nlat even), lower half moved down and upper half up by height/2"""
    out = []
    half = nlat // 2
    for k in range(nlat):
        t = -math.pi / 2 + math.pi * k / (nlat - 1)
        r = radius * math.cos(t)
        if k in (0, nlat - 1):
            r = 0.0
        z = radius * math.sin(t) + (-height / 2.0 if k < half else height / 2.0)
        out.append((r, z))
    return out
