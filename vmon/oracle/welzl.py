"""
Independent minimal enclosing ball (Welzl, move-to-front) for C16, plain numpy, any dimension
(used for d = 2, 3), plus an O(n^(d+1)) brute-force version used to self-check it on small inputs.

min_ball(P) -> dict(center, radius, support (indices of a MINIMAL support set), boundary (indices
of all points on the sphere), min_coeff (smallest convex coefficient of the centre over the
support), margin (smallest relative depth of the non-boundary points)).
"""

from __future__ import annotations

import itertools

import numpy as np


def ball_through(Q):
    """Smallest ball with all rows of Q (k, d), k <= d+1, on its boundary (centre in their affine hull)."""
    Q = np.asarray(Q, dtype=np.float64)
    k = len(Q)
    if k == 0:
        return None, -1.0
    if k == 1:
        return Q[0].copy(), 0.0
    A = Q[1:] - Q[0]
    G = A @ A.T
    b = 0.5 * np.diag(G)
    try:
        lam = np.linalg.solve(G, b)
    except np.linalg.LinAlgError:
        lam = np.linalg.lstsq(G, b, rcond=None)[0]
    c = Q[0] + lam @ A
    r = float(np.sqrt(((Q - c) ** 2).sum(axis=1).max()))
    return c, r


def _inside(c, r, p, eps):
    if c is None:
        return False
    return float(((p - c) ** 2).sum()) <= r * r * (1.0 + eps) + 1e-300


def welzl(P, rng=None, eps=1e-12):
    """Move-to-front Welzl.  Returns (center, radius)."""
    P = np.asarray(P, dtype=np.float64)
    n, d = P.shape
    order = list(range(n))
    if rng is not None:
        rng.shuffle(order)
    pts = [P[i] for i in order]

    def mtf(m, R):
        c, r = ball_through(np.array(R).reshape(-1, d)) if R else (None, -1.0)
        if len(R) == d + 1:
            return c, r
        i = 0
        while i < m:
            p = pts[i]
            if not _inside(c, r, p, eps):
                c, r = mtf(i, R + [p])
                pts.insert(0, pts.pop(i))
            i += 1
        return c, r

    return mtf(n, [])


def _convex_coefficients(Q, c):
    """Affine coefficients of c over the rows of Q (least squares in the affine hull)."""
    A = np.vstack([Q.T, np.ones(len(Q))])
    b = np.append(c, 1.0)
    return np.linalg.lstsq(A, b, rcond=None)[0]


def min_ball(P, rng=None, boundary_tol=1e-9):
    P = np.asarray(P, dtype=np.float64)
    n, d = P.shape
    # translate / scale to O(1) for conditioning, solve, map back
    lo, hi = P.min(axis=0), P.max(axis=0)
    ext = float(np.linalg.norm(hi - lo)) or 1.0
    Q = (P - (lo + hi) / 2.0) / ext
    c, r = welzl(Q, rng=rng)
    dist = np.sqrt(((Q - c) ** 2).sum(axis=1))
    # the enclosing radius actually needed by this centre
    r = float(dist.max())
    boundary = np.nonzero(dist >= r * (1.0 - boundary_tol) - 1e-300)[0]
    support = None
    min_coeff = 0.0
    if len(boundary) <= 10:
        for k in range(2, d + 2):
            best = None
            for comb in itertools.combinations(boundary.tolist(), k):
                cc, rr = ball_through(Q[list(comb)])
                if abs(rr - r) <= 1e-9 * max(r, 1e-300) and np.linalg.norm(cc - c) <= 1e-7 * max(r, 1e-300):
                    lam = _convex_coefficients(Q[list(comb)], c)
                    if lam.min() >= -1e-9 and (best is None or lam.min() > best[1]):
                        best = (comb, float(lam.min()))
            if best is not None:
                support, min_coeff = list(best[0]), best[1]
                break
    inner = np.setdiff1d(np.arange(n), boundary)
    margin = float(((r - dist[inner]) / r).min()) if len(inner) and r > 0 else 1.0
    return {
        "center": c * ext + (lo + hi) / 2.0,
        "radius": r * ext,
        "support": support,
        "boundary": boundary.tolist(),
        "min_coeff": min_coeff,
        "margin": margin,
    }


def brute_min_ball(P):
    """All subsets of size 2..d+1: smallest ball through a subset that contains every point."""
    P = np.asarray(P, dtype=np.float64)
    n, d = P.shape
    best = (None, np.inf, None)
    for k in range(2, d + 2):
        for comb in itertools.combinations(range(n), k):
            c, r = ball_through(P[list(comb)])
            if r >= best[1] or not np.isfinite(r):
                continue
            if (((P - c) ** 2).sum(axis=1) <= r * r * (1 + 1e-10)).all():
                best = (c, r, list(comb))
    return best
