"""
C01 - derived mesh values never go stale (the cache is history independent).

Monitor shape: history + executable reference model.  A history is
    reads_1 ; mutator_1 ; [reads_2 ; mutator_2 ; ...]
on a real Trimesh, using only the library's own mutators.  After EVERY mutator the full set
of observable values (dynamically discovered cache_decorator properties + plain properties +
query methods) of the mutated mesh is compared with the same values of the reference model:
`Trimesh(vertices.copy(), faces.copy(), process=False)` carrying the same density /
centre-of-mass overrides.  The cache-read probe (instrument.CacheProbe) shows that the
compared reads were indeed served from a non-empty cache.
"""

from __future__ import annotations

import copy as _copy

import numpy as np

from .. import instrument
from ..gen import matrix as gx
from ..gen import mesh as gm

PROP = "C01"
LEVEL = "exploration"
RULE = (
    "histories reads_1;mutator;(reads;mutator)* over start meshes (box, lattice hull, genus-1 frame "
    "torus with 64 faces, open grid, soup with degenerate/duplicate faces, multibody) x mutators "
    "(apply_transform per matrix class, apply_scale, apply_translation, rezero, apply_obb, "
    "convert_units, invert, update_faces/update_vertices per mask class, merge/unmerge vertices, "
    "remove_*, process, fix_normals, fill_holes, density/center_mass setters, face_normals setter, "
    "in-place edits by tracked numpy routes, by numpy routes that bypass the tracked array's methods, "
    "through views taken before a read, through arrays the mesh shares with a caller or another mesh; "
    "reassignment, copies (edit either side, observe the other), in-place edits of the objects that "
    "library calls and reads hand out; library functions that take the mesh - free functions of "
    "comparison / repair / graph / proximity / intersections / exchange, query objects - called as the "
    "FIRST access after an edit whose invalidation is still pending) x read-sets (none, each single "
    "value, all, random subsets). distinct = (mesh class, read-set, mutator sequence); non-trivial = "
    "the mutator ran on a non-empty cache or a post-mutation read was a cache hit."
)
ANCHORS = [
    "trimesh/caching.py:Cache.verify",
    "trimesh/caching.py:Cache.clear",
    "trimesh/caching.py:Cache.__exit__",
    "trimesh/caching.py:Cache.id_set",
    "trimesh/base.py:Trimesh.apply_transform",
    "trimesh/base.py:Trimesh.invert",
    "trimesh/base.py:Trimesh.update_faces",
    "trimesh/base.py:Trimesh.update_vertices",
    "trimesh/base.py:Trimesh.process",
    "trimesh/base.py:Trimesh.face_normals",
    "trimesh/base.py:Trimesh.unmerge_vertices",
    "trimesh/repair.py:fix_normals",
    "trimesh/grouping.py:merge_vertices",
]
SHARDS = {"quick": 1, "thorough": 16}
BUDGET = {"quick": 50, "thorough": 540}
MIN_EVENTS = {"quick": 300, "thorough": 5000}
ASSUMPTIONS = [
    "the reference model is the library itself on a freshly constructed mesh (process=False): "
    "this monitor decides history independence, not the correctness of a fresh value (C03/C05/C12 do)",
    "values whose fresh evaluation raises are skipped for that case and counted",
]

# values not compared, with the reason
EXCLUDE = {
    "identifier_hash": "derived from identifier, compared there",
    "principal_inertia_vectors": "eigenvector sign/order is not a function of the arrays for degenerate spectra",
    "principal_inertia_transform": "same",
    "symmetry": "depends on principal axes of degenerate spectra",
    "symmetry_axis": "same",
    "symmetry_section": "same",
    "smooth_shaded": "returns a new mesh built by a graph search; covered by C07",
    "visual": "not a derived geometric value",
    "ray": "query object, compared through its answers",
    "nearest": "query object, compared through its answers",
    "permutate": "helper object",
    "mutable": "flag",
    "units": "metadata",
    "scene": "method",
    "as_open3d": "foreign",
    "kdtree": "compared through queries",
    "triangles_tree": "compared through queries",
    "edges_sorted_tree": "compared through queries",
    "face_adjacency_tree": "compared through queries",
    "face_adjacency_edges_tree": "compared through queries",
    "convex_hull": "compared through volume/bounds below",
    "bounding_box": "primitive object, compared through bounds",
    "bounding_box_oriented": "optimisation result; C16",
    "bounding_sphere": "C16",
    "bounding_cylinder": "C16",
    "bounding_primitive": "C16",
    "vertex_adjacency_graph": "compared as edge set below",
    "face_angles_sparse": "sparse, compared dense below",
    "faces_sparse": "sparse, compared dense below",
    "edges_sparse": "sparse, compared dense below",
    "identifier": "rotation-invariant identifier with quantisation; unstable under rounding by design",
    "facets_on_hull": "depends on convex hull tolerances; compared only when hull is stable (not judged)",
}

_FIXED_RAYS_O = np.array(
    [[-7.3, 0.31, 0.27], [0.33, -9.1, 0.41], [0.29, 0.37, 11.3], [5.1, 4.3, 3.7],
     [-3.3, -4.1, -5.7], [0.41, 0.43, 0.47], [1.13, 0.77, 0.59], [8.9, -7.7, 0.21]]
)
_FIXED_RAYS_D = np.array(
    [[1, 0.013, 0.007], [0.011, 1, 0.017], [0.003, 0.019, -1], [-1, -0.83, -0.71],
     [0.61, 0.73, 1.0], [0.3, -0.2, 1.0], [-1, 0.1, 0.05], [-1, 0.9, 0.02]], dtype=float
)
_FIXED_POINTS = np.array(
    [[0.41, 0.43, 0.47], [1.13, 0.77, 0.59], [-2.3, 0.2, 0.1], [9.7, 9.1, 8.3],
     [0.9, 1.7, 2.9], [-0.6, -1.1, 1.9], [2.45, 0.55, 1.5], [0.5, 0.5, 0.5]]
)


# ---------------------------------------------------------------------------
# observation


def value_names():
    import trimesh

    names = instrument.cached_property_names(trimesh.Trimesh)
    extra = []
    for klass in trimesh.Trimesh.__mro__:
        for n, a in vars(klass).items():
            if isinstance(a, property) and not n.startswith("_") and n not in names and n not in extra:
                extra.append(n)
    allnames = [n for n in names + extra if n not in EXCLUDE]
    return sorted(allnames)


def _canon(v):
    """Turn a value into something comparable."""
    import scipy.sparse

    if v is None or isinstance(v, (bool, int, float, str, np.bool_, np.integer, np.floating)):
        return v
    if isinstance(v, np.ndarray):
        return np.asarray(v)
    if scipy.sparse.issparse(v):
        return np.asarray(v.todense())
    if isinstance(v, (list, tuple)):
        return [_canon(x) for x in v]
    if isinstance(v, dict):
        return {k: _canon(x) for k, x in v.items()}
    if hasattr(v, "__dataclass_fields__"):
        return {k: _canon(getattr(v, k)) for k in v.__dataclass_fields__}
    if hasattr(v, "edges") and hasattr(v, "nodes"):
        return sorted(tuple(sorted(map(int, e))) for e in v.edges())
    return ("unhandled", type(v).__name__)


def _extra_reads(m, scale):
    """Query-style reads: (name, thunk)."""
    from trimesh.ray import ray_triangle

    out = {}
    O = _FIXED_RAYS_O * scale["s"] + scale["c"]
    D = _FIXED_RAYS_D
    P = _FIXED_POINTS * scale["s"] * 0.35 + scale["c"]

    def ray_default():
        loc, ir, it = m.ray.intersects_location(O, D, multiple_hits=True)
        order = np.lexsort((it, ir))
        return {"ray": ir[order], "tri": it[order], "loc": loc[order]}

    def ray_native():
        r = m.__dict__.get("_vmon_native")
        if r is None:
            r = ray_triangle.RayMeshIntersector(m)
            m.__dict__["_vmon_native"] = r
        loc, ir, it = r.intersects_location(O, D, multiple_hits=True)
        order = np.lexsort((it, ir))
        return {"ray": ir[order], "tri": it[order], "loc": loc[order]}

    out["q_ray_default"] = ray_default
    out["q_ray_native"] = ray_native
    out["q_ray_any"] = lambda: m.ray.intersects_any(O, D)
    out["q_ray_first"] = lambda: m.ray.intersects_first(O, D)
    out["q_on_surface_distance"] = lambda: m.nearest.on_surface(P)[1]
    # the closest POINT is not unique when two faces are equally near (every symmetric solid):
    # which one is returned legitimately depends on 1-ulp details; the distance is judged
    out["q_nearest_vertex"] = lambda: m.nearest.vertex(P)[0]
    out["q_kdtree"] = lambda: m.kdtree.query(P)[0]
    out["q_tri_tree"] = lambda: sorted(m.triangles_tree.intersection(np.r_[P[0] - scale["s"], P[0] + scale["s"]]))
    out["q_hash"] = lambda: m.__hash__()
    out["q_faces_sparse"] = lambda: np.asarray(m.faces_sparse.todense())
    out["q_vag"] = lambda: sorted(tuple(sorted(map(int, e))) for e in m.vertex_adjacency_graph.edges())
    out["q_hull_volume"] = lambda: float(m.convex_hull.volume)
    out["q_hull_bounds"] = lambda: np.asarray(m.convex_hull.bounds)
    out["q_bbox"] = lambda: np.asarray(m.bounding_box.bounds)
    # building this table must not read anything from the mesh (a read verifies the cache and
    # would heal exactly the stale state the histories are trying to produce), so whether the
    # mesh is closed is decided inside the thunks
    def contains():
        return m.contains(P) if m.is_watertight else "not_closed"

    def signed_distance():
        return m.nearest.signed_distance(P) if m.is_watertight else "not_closed"

    out["q_contains"] = contains
    out["q_signed_distance"] = signed_distance
    return out


class Raised:
    def __init__(self, e):
        self.t = type(e).__name__

    def __repr__(self):
        return "Raised(%s)" % self.t


def read(m, name, extra):
    if name in RANDOMIZED:
        # same retry directions for the mutated mesh, the fresh one and the twins
        np.random.seed(20261004)
    try:
        if name == "identifier":
            # uncompared, but it takes the cache lock (comparison.py) - a useful pre-read
            return _canon(m.identifier)
        if name in extra:
            return _canon(extra[name]())
        return _canon(getattr(m, name))
    except Exception as e:  # noqa
        return Raised(e)


def differ(a, b, name, scale, tight=1.0):
    """None if equal, else a short description."""
    if isinstance(a, Raised) or isinstance(b, Raised):
        if isinstance(a, Raised) and isinstance(b, Raised):
            return None
        return "raised vs value: %r / %s" % (a if isinstance(a, Raised) else "value", b if isinstance(b, Raised) else "value")
    if a is None or b is None:
        return None if (a is None and b is None) else "None vs value"
    if isinstance(a, dict):
        if not isinstance(b, dict) or set(a) != set(b):
            return "dict keys differ"
        for k in a:
            d = differ(a[k], b[k], name, scale, tight)
            if d:
                return "%s: %s" % (k, d)
        return None
    if isinstance(a, list):
        if not isinstance(b, list) or len(a) != len(b):
            return "list length %s vs %s" % (len(a), len(b) if isinstance(b, list) else "?")
        for x, y in zip(a, b):
            d = differ(x, y, name, scale, tight)
            if d:
                return d
        return None
    if isinstance(a, tuple) or isinstance(a, str):
        return None if a == b else "%r != %r" % (a, b)
    a_ = np.asarray(a)
    b_ = np.asarray(b)
    if a_.shape != b_.shape:
        return "shape %s vs %s" % (a_.shape, b_.shape)
    if a_.dtype.kind in "biu" and b_.dtype.kind in "biu":
        if np.array_equal(a_, b_):
            return None
        return "integer/bool values differ (%d entries)" % int((a_ != b_).sum())
    if a_.dtype.kind in "fc" or b_.dtype.kind in "fc":
        a_ = a_.astype(np.float64)
        b_ = b_.astype(np.float64)
        both_nan = np.isnan(a_) & np.isnan(b_)
        # tolerance: the two sides run the same code on the same arrays; what legitimately
        # differs is (i) normals carried across a transform (rounding) and (ii) the documented
        # 1e-6 rotation shortcut which may leave normals up to 1e-6 rad off.
        mag = max(1.0, float(np.nanmax(np.abs(b_))) if b_.size else 1.0)
        tol = 1e-9 * mag + 5e-6 * _normal_slack(name) * mag
        if name == "integral_mean_curvature":
            # sum over edges of angle * length / 2: an angle between (nearly) parallel normals
            # carries sqrt(eps) ~ 3e-8 rad of rounding whatever the code does
            tol += 1e-7 * scale.get("edge_sum", 0.0)
        tol *= tight
        bad = ~(np.isclose(a_, b_, rtol=1e-9, atol=tol) | both_nan)
        if bad.any():
            return "float values differ: max abs err %.3g (tol %.3g)" % (
                float(np.nanmax(np.abs(a_ - b_)[bad])) if np.isfinite(np.abs(a_ - b_)[bad]).any() else float("nan"), tol)
        return None
    return None if np.array_equal(a_, b_) else "values differ"


_NORMAL_DERIVED = (
    "face_normals", "vertex_normals", "face_adjacency_angles", "face_adjacency_projections",
    "integral_mean_curvature", "facets_normal", "face_adjacency_radius", "q_signed_distance",
    "q_on_surface_point",
)


def _normal_slack(name):
    return 1.0 if name in _NORMAL_DERIVED else 0.0


# ---------------------------------------------------------------------------
# reference model


def fresh_of(m):
    import trimesh

    f = trimesh.Trimesh(
        vertices=np.array(m.vertices, dtype=np.float64).copy(),
        faces=np.array(m.faces).copy(),
        process=False,
    )
    # overrides in the order they were set: the hash of the data store follows insertion order,
    # which is not part of the statement ("equal arrays hash equal")
    for key in m._data.data:
        if key == "density":
            f.density = float(m._data.data["density"])
        elif key == "center_mass":
            f.center_mass = np.array(m._data.data["center_mass"]).copy()
    return f


# query reads whose answers rest on trimesh's ABSOLUTE tolerances (embree advance offset,
# tol.merge on squared distances in proximity.closest_point, tol.zero in ray/triangle tests):
# outside unit-ish extents a 1-ulp difference in transported normals flips them (C12 findings),
# so they are judged in the well-scaled regime only
SCALE_GATED = ("q_ray_default", "q_ray_any", "q_ray_first", "q_contains", "q_signed_distance",
               "q_ray_native", "q_on_surface_distance", "q_on_surface_point")
# mutator classes whose defect (if any) is "the edit is not noticed at all": see Monitor.compare
HASH_FIRST = ("inplace:bypass:", "inplace:view:", "alias:", "observer+edit_result:")
# mutator classes that are self-contained or only mean something on a warm cache: the empty
# read-set of section (1) is skipped for them
NEEDS_READS = HASH_FIRST + ("copy.copy+mutate_original_observe_copy:",)
# steps that are never silent: an edit that goes unnoticed (or a cached object moved behind the
# mesh's back) poisons everything that follows, and what a later step would show is the fault of
# this one - it is compared right away so that the key names the right mutator
ALWAYS_OBSERVED = HASH_FIRST + (
    "copy.copy+mutate_original_observe_copy:", "copy.copy+mutate_copy_observe_original:edit_hull",
    "process:merge_norm", "unmerge+normals+", "near_duplicate_vertex+")
# compared first at every step (see Monitor.compare)
ROOT_VALUES = ("face_normals", "vertex_normals")
# reads that fall back to the global numpy RNG (contains_points retries a random direction)
RANDOMIZED = ("q_contains", "q_signed_distance")


def _transport(n, R):
    """Rotate normals there and back with the library's own code path: realistic rounding."""
    from trimesh import transformations as tf
    from trimesh import util

    a = util.unitize(tf.transform_points(n, R, translate=False))
    return util.unitize(tf.transform_points(a, R.T, translate=False))


def perturbed_twin(f, run, style="noise"):
    """Fresh mesh with the same arrays whose stored normals are off by a few ulp."""
    try:
        g = fresh_of(f)
        rng = np.random.default_rng(12345)
        if style == "transport":
            from trimesh import transformations as tf

            R = tf.rotation_matrix(0.8123, [0.31, -0.57, 0.76])
            fn = np.array(f.face_normals, dtype=np.float64)
            if fn.shape == np.shape(g.faces) and len(fn):
                g._cache["face_normals"] = _transport(fn, R)
            vn = np.array(f.vertex_normals, dtype=np.float64)
            if vn.shape == np.shape(g.vertices) and len(vn):
                g._cache["vertex_normals"] = _transport(vn, R)
            return g
        if style == "pose":
            # normals COMPUTED in another pose of the same surface and carried back - exactly what
            # the library legitimately holds after a rigid transform.  trimesh's angle weights go
            # through arccos of unit-vector dot products, which loses half the digits for corner
            # angles near 0 or pi: at such vertices the computed normal depends on the pose at the
            # 1e-5 level, and a carried value is no more stale than a recomputed one is exact
            import trimesh
            from trimesh import transformations as tf
            from trimesh import util

            R = tf.rotation_matrix(1.1371, [-0.42, 0.66, 0.62])
            V = np.array(f.vertices, dtype=np.float64)
            if not np.isfinite(V).all():
                return None
            other = trimesh.Trimesh(tf.transform_points(V, R), np.array(f.faces).copy(), process=False)
            fn = np.array(other.face_normals, dtype=np.float64)
            vn = np.array(other.vertex_normals, dtype=np.float64)
            if fn.shape == np.shape(g.faces) and len(fn):
                g._cache["face_normals"] = util.unitize(tf.transform_points(fn, R.T, translate=False))
            if vn.shape == np.shape(g.vertices) and len(vn):
                g._cache["vertex_normals"] = util.unitize(tf.transform_points(vn, R.T, translate=False))
            return g
        if style == "vertex_rounding":
            # the same surface with vertex positions off by their own rounding (rotated there and
            # back through the library's code path, ~1e-16 relative to the coordinates) and nothing
            # stored: a value that moves by more than the tolerance under THIS is decided by
            # rounding of the positions (slivers next to the degeneracy thresholds, normal sums
            # that nearly cancel), not by what is cached
            from trimesh import transformations as tf

            R = tf.rotation_matrix(0.8123, [0.31, -0.57, 0.76])
            V = np.array(f.vertices, dtype=np.float64)
            fin = np.isfinite(V).all(axis=1)
            V2 = V.copy()
            V2[fin] = tf.transform_points(tf.transform_points(V[fin], R), R.T)
            g.vertices = V2
            return g
        fn = np.array(f.face_normals, dtype=np.float64)
        if fn.shape == np.shape(g.faces) and len(fn):
            # "noise": a few ulp.  "noise_carried": what normals look like after they were carried
            # through a few transforms (the mesh in the witness held -n to 4e-13 where a fresh mesh
            # computes exactly -n): face normals that cancel exactly on a fresh mesh (back-to-back
            # faces) then leave a sum above unitize's zero threshold, i.e. a unit vector of noise
            e = 1e-12 if style == "noise_carried" else 1e-15
            p = fn * (1.0 + e * rng.standard_normal(fn.shape)) + 0.1 * e * rng.standard_normal(fn.shape)
            # a face WITHOUT a normal (zero row: repeated index, zero area) keeps none: a unit
            # vector of noise there is not "rounding of the stored normal" (it hid a sliver that
            # a merge had collapsed and that still carried its old normal - round 4, defect 3b)
            p[np.linalg.norm(fn, axis=1) == 0] = 0.0
            nrm = np.linalg.norm(p, axis=1)
            ok = nrm > 0
            p[ok] /= nrm[ok].reshape((-1, 1))
            g._cache["face_normals"] = p
        # vertex normals are NOT stored on this twin: they are recomputed from the perturbed
        # face normals, which exposes vertices whose weighted normal sum nearly cancels (there
        # the recomputed direction is rounding noise, while a transported one is the old noise
        # rotated - both legitimate, neither comparable)
        return g
    except Exception:
        run.count("perturbed_twin_unavailable")
        return None


# ---------------------------------------------------------------------------
# start meshes


def start_meshes(rng, tier):
    out = []
    V, F = gm.box_int((2, 3, 4), (-1, -1, -2))
    out.append(("box", gm.to_trimesh(V, F)))
    V, F = gm.frame_torus((2, 1, 3))
    out.append(("frame_torus64", gm.to_trimesh(V, F)))
    V, F = gm.hull_int(rng, 9)
    out.append(("hull", gm.to_trimesh(V, F)))
    # trailing unreferenced vertices: removing them leaves the face bytes unchanged, which is
    # the only way the vertex-normal salvage of update_vertices runs on a warm cache
    V, F = gm.octahedron((2, 3, 1))
    V = np.vstack([V, [[9, 9, 9], [-8, 7, 6]]])
    out.append(("octa_trailing_unreferenced", gm.to_trimesh(V, F)))
    # every face with vertices of its own (as STL files and creation.box() come): merging has
    # something to merge, and creases where normals differ
    V, F = gm.box_int((3, 2, 4), (1, -2, -1))
    out.append(("box_split_vertices", gm.to_trimesh(V[F].reshape(-1, 3), np.arange(len(F) * 3).reshape(-1, 3))))
    if tier == "thorough":
        V, F = gm.open_grid(3, 2)
        out.append(("open_grid", gm.to_trimesh(V, F)))
        V, F = gm.concat([gm.tetra(rng), (gm.translate(gm.box_int((1, 2, 1))[0], [20, 0, 0]), gm.box_int((1, 2, 1))[1])])
        out.append(("multibody", gm.to_trimesh(V, F)))
        # soup: duplicate vertex, unreferenced vertex, degenerate + duplicate face
        V, F = gm.octahedron()
        V = np.vstack([V, V[0], [50, 50, 50]])
        F = np.vstack([F, [0, 0, 1], F[0], [6, 2, 4]])
        out.append(("soup", gm.to_trimesh(V, F)))
        V, F = gm.l_prism()
        out.append(("l_prism", gm.to_trimesh(V, F)))
        V, F = gm.invert(*gm.octahedron((3, 2, 1)))
        out.append(("inverted_octa", gm.to_trimesh(V, F)))
    return out


def _edit_result(res, seen=None, depth=0):
    """
    Edit in place whatever a library call handed out, through the interfaces the library tracks
    (`vertices *= 2` on geometry, in-place operators on arrays).  Refusals (read-only) are fine.
    Returns the number of edits made.
    """
    import trimesh

    if seen is None:
        seen = set()
    if res is None or id(res) in seen or depth > 3:
        return 0
    seen.add(id(res))
    done = 0
    if isinstance(res, trimesh.Scene):
        for g in list(res.geometry.values()):
            done += _edit_result(g, seen, depth + 1)
        return done
    if isinstance(res, (trimesh.Trimesh, trimesh.path.path.Path, trimesh.PointCloud)):
        try:
            v = res.vertices
            if len(v):
                v *= 2.0
                done += 1
        except Exception:
            pass
        return done
    if isinstance(res, np.ndarray):
        try:
            if res.flags.writeable and res.size > 1 and res.dtype.kind == "f":
                res *= 2.0
                done += 1
            elif res.flags.writeable and res.ndim >= 1 and len(res) > 1 and res.dtype.kind in "iu":
                res[...] = res[::-1].copy()
                done += 1
        except Exception:
            pass
        return done
    if hasattr(res, "__dataclass_fields__"):
        res = [getattr(res, k, None) for k in res.__dataclass_fields__]
    if isinstance(res, dict):
        res = list(res.values())
    if isinstance(res, (list, tuple)):
        for x in res[:96]:
            done += _edit_result(x, seen, depth + 1)
    return done


# ---------------------------------------------------------------------------
# mutators: name -> fn(mesh, rng) (may return a replacement mesh)


def mutators(rng):
    import trimesh

    muts = []

    def add(name, fn):
        muts.append((name, fn))

    for tag, M in gx.matrices(rng, dim=3):
        name = "apply_transform:" + tag
        k = 1
        while any(n == name for n, _ in muts):
            k += 1
            name = "apply_transform:%s#%d" % (tag, k)
        add(name, (lambda M: lambda m, r: m.apply_transform(M))(M))
    add("apply_scale:scalar", lambda m, r: m.apply_scale(2.5))
    add("apply_scale:per_axis", lambda m, r: m.apply_scale([1.0, 2.0, 0.5]))
    add("apply_scale:negative", lambda m, r: m.apply_scale(-1.5))
    add("apply_scale:per_axis_negative", lambda m, r: m.apply_scale([1.0, -2.0, 0.5]))
    add("apply_translation", lambda m, r: m.apply_translation([0.5, -1.25, 3.0]))
    add("rezero", lambda m, r: m.rezero())
    add("apply_obb", lambda m, r: m.apply_obb())
    add("convert_units", lambda m, r: (setattr(m, "units", "inches"), m.convert_units("mm"))[-1])
    add("invert", lambda m, r: m.invert())

    def upd_faces(kind):
        def f(m, r):
            for tag, mask in gx.masks(r, len(m.faces)):
                if tag == kind:
                    m.update_faces(mask)
                    return

        return f

    for kind in ("all_true", "all_false", "single", "random_bool", "unique_int", "perm", "int_repeat"):
        add("update_faces:" + kind, upd_faces(kind))

    def upd_vertices(kind):
        def f(m, r):
            n = len(m.vertices)
            if kind == "referenced_bool":
                mask = np.zeros(n, dtype=bool)
                mask[np.unique(m.faces)] = True
                keep_f = np.ones(len(m.faces), dtype=bool)
            else:
                # drop one vertex and every face using it, then mask
                drop = int(r.integers(n))
                keep_f = ~(np.asarray(m.faces) == drop).any(axis=1)
                m.update_faces(keep_f)
                mask = np.ones(n, dtype=bool)
                mask[drop] = False
            m.update_vertices(mask)

        return f

    def drop_last_unreferenced(m, r):
        ref = np.zeros(len(m.vertices), dtype=bool)
        ref[np.unique(m.faces)] = True
        idx = np.nonzero(~ref)[0]
        mask = np.ones(len(m.vertices), dtype=bool)
        if len(idx):
            mask[idx[0]] = False  # the first unreferenced one only
        m.update_vertices(mask)

    add("update_vertices:first_unreferenced", drop_last_unreferenced)
    add("update_vertices:referenced_bool", upd_vertices("referenced_bool"))
    add("update_vertices:drop_one", upd_vertices("drop_one"))
    add("merge_vertices", lambda m, r: m.merge_vertices())
    add("merge_vertices:opts", lambda m, r: m.merge_vertices(merge_tex=True, merge_norm=True))
    add("unmerge_vertices", lambda m, r: m.unmerge_vertices())
    add("unmerge_merge", lambda m, r: (m.unmerge_vertices(), m.merge_vertices()))
    add("remove_unreferenced_vertices", lambda m, r: m.remove_unreferenced_vertices())
    add("remove_infinite_values", lambda m, r: m.remove_infinite_values())

    def nan_then_remove(m, r):
        m.vertices[int(r.integers(len(m.vertices)))] = np.nan
        m.remove_infinite_values()

    add("nan_vertex+remove_infinite_values", nan_then_remove)
    add("process", lambda m, r: m.process())
    add("process:validate", lambda m, r: m.process(validate=True))
    add("fix_normals", lambda m, r: m.fix_normals())

    def rewind_fix(m, r):
        f = np.array(m.faces)
        k = r.random(len(f)) < 0.4
        f[k] = f[k][:, ::-1]
        m.faces = f
        m.fix_normals()

    add("rewind+fix_normals", rewind_fix)

    def rewind_process(m, r):
        f = np.array(m.faces)
        k = r.random(len(f)) < 0.4
        f[k] = f[k][:, ::-1]
        m.faces = f
        _ = m.face_normals, m.vertex_normals  # normals of the re-wound faces are cached ...
        m.process(validate=True)  # ... while fix_normals re-winds under the cache lock

    add("rewind+normals+process:validate", rewind_process)

    def hole_fill(m, r):
        keep = np.ones(len(m.faces), dtype=bool)
        keep[int(r.integers(len(m.faces)))] = False
        m.update_faces(keep)
        m.fill_holes()

    add("hole+fill_holes", hole_fill)

    def hole_fill_at(frac, pair=False):
        def f(m, r):
            n = len(m.faces)
            i = min(n - 1, int(frac * n))
            keep = np.ones(n, dtype=bool)
            keep[i] = False
            if pair:
                # also drop a neighbour across an edge: a quad hole
                adj = np.asarray(m.face_adjacency)
                nb = [b if a == i else a for a, b in adj if i in (a, b)]
                if nb:
                    keep[nb[0]] = False
            m.update_faces(keep)
            m.fill_holes()

        return f

    # whether the patch face gets reversed by the winding loop depends on where the boundary
    # cycle starts: several fixed positions so that both outcomes occur in every run
    for frac in (0.05, 0.3, 0.55, 0.8, 0.97):
        add("hole@%.2f+fill_holes" % frac, hole_fill_at(frac))
    for frac in (0.2, 0.7):
        add("quadhole@%.2f+fill_holes" % frac, hole_fill_at(frac, pair=True))
    add("density_set", lambda m, r: setattr(m, "density", 2.75))
    add("center_mass_set", lambda m, r: setattr(m, "center_mass", [0.1, 0.2, 0.3]))

    def normals_correct(m, r):
        from trimesh import triangles as tri

        n, valid = tri.normals(np.asarray(m.vertices)[np.asarray(m.faces)])
        full = np.zeros((len(m.faces), 3))
        full[valid] = n
        m.face_normals = full

    add("face_normals_set:correct", normals_correct)

    def normals_wrong(m, r):
        m.face_normals = np.tile([0.0, 0.6, 0.8], (len(m.faces), 1))

    add("face_normals_set:contradicting", normals_wrong)

    def vnormals_none(m, r):
        m.vertex_normals = None

    add("vertex_normals_set:none", vnormals_none)
    # in-place edits by routes that C02 shows are tracked
    add("inplace:v_setitem", lambda m, r: m.vertices.__setitem__((int(r.integers(len(m.vertices))), 0), 7.5))
    add("inplace:v_setitem_late", lambda m, r: m.vertices.__setitem__((len(m.vertices) - 1, 2), -6.5))
    add("inplace:v_iadd", lambda m, r: m.vertices.__iadd__([0.5, 0.25, -1.0]))
    add("inplace:v_imul", lambda m, r: m.vertices.__imul__(1.5))
    add("inplace:v_slice", lambda m, r: m.vertices.__setitem__(slice(0, 2), m.vertices[:2] * 1.1 + 0.3))
    # the remaining in-place operators and methods the tracked array overrides
    _R = np.array([[0.0, -1.0, 0.0], [1.0, 0.0, 0.0], [0.0, 0.0, 1.0]])

    def v_imatmul(m, r):
        v = m.vertices
        v @= _R.T  # rotate all vertices a quarter turn about z, in place

    add("inplace:v_imatmul", v_imatmul)
    add("inplace:v_isub", lambda m, r: m.vertices.__isub__([0.25, -0.5, 1.0]))
    add("inplace:v_itruediv", lambda m, r: m.vertices.__itruediv__(2.0))
    add("inplace:v_ipow", lambda m, r: m.vertices.__ipow__(3))
    add("inplace:v_col_fill", lambda m, r: m.vertices.__setitem__((slice(None), 2), np.asarray(m.vertices)[:, 2] * 2.0 + 0.75))
    add("inplace:v_put", lambda m, r: m.vertices.put([0, 4], [3.25, -2.5]))

    # somebody else looks at the array's hash between the edit and the mesh's next read: the
    # array's "dirty" flag is consumed by whoever hashes it first
    def edit_then_array_hash(m, r):
        m.vertices[len(m.vertices) - 1, 1] += 2.75
        m.vertices.__hash__()
        m.faces.__hash__()

    add("inplace:v_setitem+array_hashed_by_caller", edit_then_array_hash)

    def edit_seen_first_by_second_owner(m, r):
        import trimesh

        # a second mesh built on the very same tracked arrays (no copy is taken for them)
        other = trimesh.Trimesh(vertices=m.vertices, faces=m.faces, process=False)
        _ = other.area, other.bounds, other.volume
        m.vertices[0, 2] -= 3.5
        _ = other.area, other.bounds  # the second owner reads (and hashes the arrays) first

    add("inplace:v_setitem+second_owner_reads_first", edit_seen_first_by_second_owner)
    add("inplace:f_sort_rows_cyclic", lambda m, r: m.faces.__setitem__(Ellipsis, np.roll(np.array(m.faces), 1, axis=1)))
    add("inplace:f_setitem", lambda m, r: m.faces.__setitem__(0, np.array(m.faces[0])[::-1].copy()))
    add("inplace:f_setitem_last", lambda m, r: m.faces.__setitem__(len(m.faces) - 1, np.array(m.faces[-1])[[1, 2, 0]].copy()))
    add("inplace:f_fliplr_all", lambda m, r: m.faces.__setitem__(Ellipsis, np.array(m.faces)[:, ::-1].copy()))
    add("reassign:vertices", lambda m, r: setattr(m, "vertices", np.array(m.vertices) * [1.0, 2.0, 3.0] + 1.0))
    add("reassign:faces", lambda m, r: setattr(m, "faces", np.array(m.faces)[::-1].copy()))
    add("reassign:faces_subset", lambda m, r: setattr(m, "faces", np.array(m.faces)[1:].copy()))
    # copies: continue with the copy
    add("copy", lambda m, r: m.copy())
    add("copy:include_cache", lambda m, r: m.copy(include_cache=True))
    add("copy.copy", lambda m, r: _copy.copy(m))
    add("copy.deepcopy", lambda m, r: _copy.deepcopy(m))

    def copy_cache_then_edit(m, r):
        c = m.copy(include_cache=True)
        c.vertices[0] += 1.0
        return c

    add("copy:include_cache+edit_copy", copy_cache_then_edit)

    def observe_original(edit):
        def f(m, r):
            c = _copy.copy(m)  # keeps cached data: entries must not be shared mutably
            edit(c)
            _ = c.face_normals, c.area, c.edges_unique
            return m  # the ORIGINAL must be unaffected

        return f

    rigid = trimesh.transformations.rotation_matrix(0.7, [1, 2, 3], [0.5, 0, 0])
    add("copy.copy+mutate_copy_observe_original:aniso",
        observe_original(lambda c: c.apply_transform(trimesh.transformations.scale_and_translate([1, 2, 3], [1, 0, 0]))))
    add("copy.copy+mutate_copy_observe_original:rigid", observe_original(lambda c: c.apply_transform(rigid)))
    add("copy.copy+mutate_copy_observe_original:mirror", observe_original(lambda c: c.apply_scale(-1.0)))
    add("copy.copy+mutate_copy_observe_original:invert", observe_original(lambda c: c.invert()))
    add("copy.copy+mutate_copy_observe_original:update_faces",
        observe_original(lambda c: c.update_faces(np.arange(len(c.faces)) % 2 == 0)))
    add("copy.copy+mutate_copy_observe_original:inplace", observe_original(lambda c: c.vertices.__imul__(2.0)))
    add("add_self", lambda m, r: m + m.copy().apply_translation([30, 0, 0]))

    # observers: library calls that are NOT mutators.  Whatever they return, the mesh they were
    # given must afterwards still report what a fresh mesh reports (they share its cache).
    def obs(name, fn):
        def f(m, r):
            try:
                fn(m, r)
            except Exception:
                pass  # a refusal is not what is judged here: the state of the mesh is

        add("observer:" + name, f)

    obs("laplacian_pinned", lambda m, r: trimesh.smoothing.laplacian_calculation(m, equal_weight=False, pinned_vertices=[0, min(3, len(m.vertices) - 1)]))
    obs("laplacian", lambda m, r: trimesh.smoothing.laplacian_calculation(m, equal_weight=True))
    obs("filter_laplacian_on_copy", lambda m, r: trimesh.smoothing.filter_laplacian(m.copy(include_cache=True), iterations=2))
    obs("section", lambda m, r: m.section(plane_origin=m.centroid, plane_normal=[0.3, 0.2, 0.9]))
    obs("slice_plane", lambda m, r: m.slice_plane(m.centroid, [0.1, 0.9, 0.2]))
    obs("submesh", lambda m, r: m.submesh([np.arange(max(1, len(m.faces) // 2))], append=True))
    obs("split", lambda m, r: m.split(only_watertight=False))
    obs("subdivide", lambda m, r: m.subdivide())
    obs("subdivide_to_size", lambda m, r: m.subdivide_to_size(max_edge=float(m.scale) / 3.0))
    obs("sample", lambda m, r: m.sample(20))
    obs("outline", lambda m, r: m.outline())
    obs("export_stl", lambda m, r: m.export(file_type="stl"))
    obs("export_ply", lambda m, r: m.export(file_type="ply"))
    obs("export_glb", lambda m, r: m.export(file_type="glb"))
    obs("to_dict", lambda m, r: m.to_dict())
    obs("convex_hull", lambda m, r: m.convex_hull.volume)
    obs("bounding_box_oriented", lambda m, r: m.bounding_box_oriented.volume)
    obs("scene_dump", lambda m, r: m.scene().dump())
    obs("smoothed", lambda m, r: m.smoothed())
    obs("voxelized", lambda m, r: m.voxelized(pitch=float(m.scale) / 6.0))
    obs("simplify", lambda m, r: m.simplify_quadric_decimation(face_count=max(4, len(m.faces) // 2)))
    obs("register", lambda m, r: m.register(m.vertices[:5] + 0.01))
    obs("projected", lambda m, r: m.projected([0, 0, 1]))
    obs("unwrap", lambda m, r: m.unwrap())
    obs("union_self", lambda m, r: m.union(m.copy().apply_translation([0.1, 0, 0])))
    # ---- round 4 (hunter) -------------------------------------------------------------------
    # process() with the merge options: vertices with DIFFERENT normals become one vertex
    add("process:merge_norm", lambda m, r: m.process(merge_norm=True))
    add("process:merge_norm+merge_tex", lambda m, r: m.process(merge_norm=True, merge_tex=True))
    add("process:validate+merge_norm", lambda m, r: m.process(validate=True, merge_norm=True))

    def split_normals_then(fn):
        # self-contained (any start mesh): every face gets vertices of its own, the normals of
        # that state are read, then the merging mutator runs
        def f(m, r):
            m.unmerge_vertices()
            _ = m.face_normals, m.vertex_normals
            fn(m)

        return f

    add("unmerge+normals+process:merge_norm", split_normals_then(lambda m: m.process(merge_norm=True)))
    add("unmerge+normals+merge_vertices:merge_norm", split_normals_then(lambda m: m.merge_vertices(merge_norm=True)))

    def near_duplicate_then(fn):
        # a vertex 1e-9 from an existing one (tol.merge = 1e-8) and a sliver face on the pair: a
        # valid triangle (cross product ~1e-9 >> tol.zero) until the merge puts both corners on
        # one vertex.  The normals of the mesh WITH the sliver are read before `fn` runs.
        def f(m, r):
            V, F = np.array(m.vertices, dtype=np.float64), np.array(m.faces)
            a, b, c = (int(x) for x in F[0])
            d = V[c] - V[a]
            n = float(np.linalg.norm(d))
            if not np.isfinite(n) or n == 0.0:
                return
            m.vertices = np.vstack([V, V[a] + 1e-9 * max(1.0, float(np.abs(V[a]).max())) * d / n])
            m.faces = np.vstack([F, [a, b, len(V)]])
            _ = m.face_normals
            fn(m)

        return f

    add("near_duplicate_vertex+normals+process", near_duplicate_then(lambda m: m.process()))
    add("near_duplicate_vertex+normals+merge_vertices", near_duplicate_then(lambda m: m.merge_vertices()))
    add("near_duplicate_vertex+normals+process:validate", near_duplicate_then(lambda m: m.process(validate=True)))

    # copies that keep the cache: edit the ORIGINAL, observe the COPY (its arrays never change)
    def observe_copy(edit):
        def f(m, r):
            c = _copy.copy(m)
            edit(m)
            _ = m.area, m.bounds
            return c

        return f

    def roll_scale(m):
        m.vertices[:] = np.roll(np.array(m.vertices), 3, axis=0) * 50.0

    add("copy.copy+mutate_original_observe_copy:v_imul", observe_copy(lambda m: m.vertices.__imul__(50.0)))
    add("copy.copy+mutate_original_observe_copy:v_roll", observe_copy(roll_scale))
    add("copy.copy+mutate_original_observe_copy:f_roll",
        observe_copy(lambda m: m.faces.__setitem__(Ellipsis, np.roll(np.array(m.faces), 1, axis=0))))
    add("copy.copy+mutate_original_observe_copy:rigid", observe_copy(lambda m: m.apply_transform(rigid)))
    add("copy.copy+mutate_original_observe_copy:invert", observe_copy(lambda m: m.invert()))
    add("copy.copy+mutate_copy_observe_original:edit_hull", observe_original(lambda c: _edit_result(c.convex_hull)))

    # the result of a library call (or of a read) is edited in place through the tracked
    # interfaces: the mesh it came from must either be unaffected or notice
    def obs_edit(name, fn):
        def f(m, r):
            try:
                res = fn(m, r)
            except Exception:
                return
            _ = m.area, m.area  # a read in between: the mesh has looked at its arrays since
            _edit_result(res)

        add("observer+edit_result:" + name, f)

    obs_edit("section", lambda m, r: m.section(plane_origin=m.centroid, plane_normal=[0.3, 0.2, 0.9]))
    obs_edit("slice_plane", lambda m, r: m.slice_plane(m.centroid, [0.1, 0.9, 0.2]))
    obs_edit("submesh", lambda m, r: m.submesh([np.arange(max(1, len(m.faces) // 2))], append=True))
    obs_edit("submesh_list", lambda m, r: m.submesh([np.arange(max(1, len(m.faces) // 2))], append=False))
    obs_edit("split", lambda m, r: m.split(only_watertight=False))
    obs_edit("subdivide", lambda m, r: m.subdivide())
    obs_edit("sample", lambda m, r: m.sample(20, return_index=True))
    obs_edit("outline", lambda m, r: m.outline())
    obs_edit("outline_faces", lambda m, r: m.outline(face_ids=[0, 1]))
    obs_edit("to_dict", lambda m, r: m.to_dict())
    obs_edit("scene", lambda m, r: m.scene())
    obs_edit("scene_dump", lambda m, r: m.scene().dump())
    obs_edit("smoothed", lambda m, r: m.smoothed())
    obs_edit("projected", lambda m, r: m.projected([0, 0, 1]))
    obs_edit("unwrap", lambda m, r: m.unwrap())
    obs_edit("register", lambda m, r: m.register(m.vertices[:5] + 0.01))
    obs_edit("facets_boundary", lambda m, r: m.facets_boundary)
    obs_edit("triangles", lambda m, r: (m.triangles, m.triangles_center, m.triangles_cross))
    for _n in ("convex_hull", "bounding_box", "bounding_box_oriented", "bounding_sphere", "bounding_cylinder",
               "bounding_primitive", "smooth_shaded", "mass_properties", "vertex_neighbors", "facets"):
        obs_edit("read:" + _n, (lambda _n: lambda m, r: getattr(m, _n))(_n))
    # (not the arrays themselves: editing those is a legitimate edit that drops the whole cache)
    obs_edit("read:all_cached_values",
             lambda m, r: [getattr(m, n_, None) for n_ in value_names() if n_ not in ("vertices", "faces")])

    # in-place edits by numpy routes that do NOT pass the overridden methods of the tracked array
    # (route names as in the C02 monitor); a read in between: the mesh has hashed its arrays
    def bypass(name, edit, attr="vertices"):
        def f(m, r):
            _ = m.area, m.area
            edit(getattr(m, attr))

        add("inplace:bypass:%s:%s" % (attr[0], name), f)

    bypass("copyto", lambda v: np.copyto(v, np.asarray(v) * 2.0))
    bypass("ufunc_out", lambda v: np.multiply(np.asarray(v), 2.0, out=v))
    bypass("ufunc_out_self", lambda v: np.add(v, [0.0, 0.5, 1.5], out=v))
    bypass("clip_out", lambda v: v.clip(-0.75, 0.75, out=v))
    bypass("dot_out", lambda v: np.dot(np.array(v), np.diag([1.0, 2.0, 3.0]), out=v))
    bypass("putmask", lambda v: np.putmask(v, np.asarray(v) > 0, 3.5))
    bypass("place", lambda v: np.place(v, np.asarray(v) > 0, 3.5))
    bypass("ufunc_at", lambda v: np.add.at(v, [0], 5.0))
    bypass("fill_diagonal", lambda v: np.fill_diagonal(v, 9.0))
    bypass("flat_setitem", lambda v: v.flat.__setitem__(0, 7.25))
    bypass("round_out", lambda v: np.round(np.asarray(v) * 1.37, 0, out=v))
    bypass("copyto", lambda f_: np.copyto(f_, np.asarray(f_)[:, ::-1].copy()), attr="faces")
    bypass("take_out", lambda f_: np.take(np.array(f_), [1, 2, 0], axis=1, out=f_), attr="faces")

    # a view of the arrays taken BEFORE a read, written after it
    def view_edit(name, take, edit, attr="vertices"):
        def f(m, r):
            view = take(getattr(m, attr))
            _ = m.area, m.area, m.is_watertight
            edit(view)

        add("inplace:view:%s:%s" % (attr[0], name), f)

    view_edit("row", lambda v: v[0], lambda w: w.__setitem__(Ellipsis, [5.0, 5.5, 6.0]))
    view_edit("column", lambda v: v[:, 2], lambda w: w.__imul__(3.0))
    view_edit("rows_slice", lambda v: v[1:3], lambda w: w.__iadd__(1.25))
    view_edit("transpose", lambda v: v.T, lambda w: w.__setitem__((0, 0), 4.5))
    view_edit("reshape", lambda v: v.reshape(-1), lambda w: w.__setitem__(1, -3.5))
    view_edit("view_of_view", lambda v: v[:4][1], lambda w: w.__imul__(2.5))
    view_edit("row", lambda f_: f_[0], lambda w: w.__setitem__(Ellipsis, int(w[0])), attr="faces")
    view_edit("column", lambda f_: f_[:, 0], lambda w: w.__setitem__(Ellipsis, np.array(w)[::-1].copy()), attr="faces")

    # the mesh was given an array somebody else keeps using (constructor with process=False,
    # setters): edits through the other owner
    def alias_ctor(kind):
        def f(m, r):
            v, f_ = np.array(m.vertices, dtype=np.float64), np.array(m.faces, dtype=np.int64)
            if kind == "view_of_other_mesh":
                n = trimesh.Trimesh(vertices=m.vertices[:], faces=m.faces[:], process=False)
            else:
                n = trimesh.Trimesh(vertices=v, faces=f_, process=False)
            _ = n.area, n.volume, n.bounds, n.face_normals, n.is_watertight, n.area
            if kind == "caller_vertices":
                v *= 2.0
            elif kind == "caller_faces":
                f_[0] = f_[0][::-1].copy()
            else:
                m.vertices[:] = np.array(m.vertices) * 3.0  # a tracked edit of the OTHER mesh
                _ = m.area
            return n

        return f

    add("alias:ctor:caller_vertices", alias_ctor("caller_vertices"))
    add("alias:ctor:caller_faces", alias_ctor("caller_faces"))
    add("alias:ctor:view_of_other_mesh", alias_ctor("view_of_other_mesh"))

    def alias_setter(kind):
        def f(m, r):
            if kind == "vertices":
                v = np.array(m.vertices, dtype=np.float64)
                m.vertices = v
                _ = m.area, m.volume, m.bounds, m.face_normals, m.is_watertight, m.area
                v[0] = [5.0, 5.5, 6.0]
            else:
                f_ = np.array(m.faces, dtype=np.int64)
                m.faces = f_
                _ = m.area, m.volume, m.bounds, m.face_normals, m.is_watertight, m.area
                f_[0] = f_[0][::-1].copy()

        return f

    add("alias:setter:caller_vertices", alias_setter("vertices"))
    add("alias:setter:caller_faces", alias_setter("faces"))
    return muts


# ---------------------------------------------------------------------------
# round 5: library functions that take a mesh, called as the FIRST access after an edit whose
# invalidation is still pending (nothing was read since the arrays changed).  The usual way in -
# a cached property - verifies the cache before anything runs; a function that is handed the mesh
# (and takes the cache lock, looks into `mesh._cache.cache`, or keeps a structure keyed on the
# mesh) has to do that itself.  What it answers is compared with its answer on a fresh mesh
# where that is deterministic, and afterwards every value of the mesh is compared as usual (a
# function that leaves the lock re-validates whatever sits in the cache for the NEW arrays).

_FA_RESULT = {}
_FA_FN = {}
_FA_POINTS = np.array([[0.41, 0.43, 0.47], [-0.9, 0.2, 0.1], [0.3, 1.2, -0.7]])


def _fa_points(m):
    # plain numpy on the arrays: building the arguments must not be the first read
    sc = scale_of(m)
    return _FA_POINTS * sc["s"] * 0.5 + sc["c"], sc


def first_access_mutators():
    import trimesh
    from trimesh import comparison, convex, curvature, graph, intersections, proximity, repair, smoothing
    from trimesh import bounds as tbounds
    from trimesh import sample as tsample

    out = []

    def add(name, fn, result=False):
        full = "first_access:" + name

        def f(m, r):
            _FA_RESULT.pop(full, None)
            try:
                res = fn(m)
            except Exception:
                return  # a refusal is not what is judged: the state of the mesh afterwards is
            if result:
                _FA_RESULT[full] = _canon(res)

        _FA_FN[full] = (fn, result)
        out.append((full, f))

    # takes the cache lock
    add("comparison.identifier_simple", lambda m: comparison.identifier_simple(m), result=True)
    # repair functions (they look into the cache for normals worth keeping)
    add("repair.broken_faces", lambda m: repair.broken_faces(m), result=True)
    add("repair.fix_winding", lambda m: repair.fix_winding(m))
    add("repair.fix_inversion", lambda m: repair.fix_inversion(m))
    add("repair.fix_inversion:multibody", lambda m: repair.fix_inversion(m, multibody=True))
    add("repair.fix_normals:multibody", lambda m: repair.fix_normals(m, multibody=True))
    add("repair.fill_holes", lambda m: repair.fill_holes(m))
    add("repair.stitch", lambda m: repair.stitch(m))
    # exporters (glb / obj decide on normals by looking into the cache dict)
    for ft in ("glb", "obj", "ply", "stl", "off"):
        add("export:" + ft, (lambda ft: lambda m: m.export(file_type=ft))(ft))
    add("to_dict", lambda m: m.to_dict())
    # the cache used as a plain store
    add("eval_cached", lambda m: m.eval_cached("float(np.abs(self.vertices).sum()) + len(self.faces)"), result=True)
    # free functions of other modules
    add("graph.split", lambda m: len(graph.split(m, only_watertight=False)), result=True)
    add("graph.connected_component_labels", lambda m: graph.connected_component_labels(m.face_adjacency, node_count=len(m.faces)))
    add("convex.convex_hull", lambda m: float(convex.convex_hull(m).volume), result=True)
    add("bounds.oriented_bounds", lambda m: tbounds.oriented_bounds(m))
    add("sample.sample_surface", lambda m: tsample.sample_surface(m, 12))
    add("smoothing.laplacian_calculation", lambda m: smoothing.laplacian_calculation(m, equal_weight=True))
    add("intersections.mesh_plane",
        lambda m: intersections.mesh_plane(m, plane_normal=[0.3, 0.2, 0.9], plane_origin=_fa_points(m)[1]["c"]))
    add("curvature.gaussian_measure",
        lambda m: curvature.discrete_gaussian_curvature_measure(m, _fa_points(m)[0], _fa_points(m)[1]["s"]))
    add("proximity.closest_point", lambda m: proximity.closest_point(m, _fa_points(m)[0]))
    add("proximity.ProximityQuery", lambda m: proximity.ProximityQuery(m).vertex(_fa_points(m)[0]))
    # the query objects the mesh hands out (structures keyed on the mesh)
    add("ray.intersects_any", lambda m: m.ray.intersects_any(_fa_points(m)[0] + _fa_points(m)[1]["s"] * 3.0, -np.ones((3, 3))))
    add("nearest.on_surface", lambda m: m.nearest.on_surface(_fa_points(m)[0]))
    add("contains", lambda m: m.contains(_fa_points(m)[0]))
    add("copy:include_cache", lambda m: m.copy(include_cache=True))
    add("hash", lambda m: m.__hash__(), result=True)
    return out


# edits that leave the invalidation pending (nothing verifies until the next access)
PENDING_EDITS = ("inplace:v_imul", "inplace:f_setitem_last", "reassign:vertices", "update_faces:random_bool",
                 "reassign:faces_subset", "inplace:v_setitem_late", "inplace:v_imatmul", "inplace:f_fliplr_all")
# a read-set without the normals: update_faces verifies only when there are normals to salvage
READS_NO_NORMALS = ["area", "volume", "bounds", "euler_number", "is_watertight", "center_mass", "triangles_center"]


def judge_first_access_result(run, m, mname, hist, mesh_tag, got):
    """The answer of a first-access function against its answer on a fresh mesh. True when stale."""
    fn, has_result = _FA_FN.get(mname, (None, False))
    if not has_result or got is _FA_RESULT:  # (the dict itself = "no answer recorded")
        return False
    try:
        want = _canon(fn(fresh_of(m)))
    except Exception:
        run.skip("fresh value raises: %s" % mname)
        return False
    run.count("first_access_results_compared")
    d = differ(got, want, mname, scale_of(m))
    if not d:
        return False
    run.violation(
        "mut=%s stale=result" % mname,
        "`%s` called as the first access after the edit answers differently from the same call on a freshly built mesh: %s" % (mname, d),
        {"mesh": mesh_tag, "history": hist, "value": "result", "diff": d},
    )
    return True


# ---------------------------------------------------------------------------


def scale_of(m):
    b = np.asarray(m.vertices)
    b = b[np.isfinite(b).all(axis=1)] if len(b) else b
    if len(b) == 0:
        return {"s": 1.0, "c": np.zeros(3)}
    lo, hi = b.min(axis=0), b.max(axis=0)
    try:
        edge_sum = float(np.linalg.norm(np.diff(np.asarray(m.vertices)[np.asarray(m.faces)], axis=1), axis=2).sum()) * 1.5
    except Exception:
        edge_sum = 0.0
    return {"s": float(max((hi - lo).max(), 1e-6)), "c": (lo + hi) / 2.0, "edge_sum": edge_sum}


class Monitor:
    def __init__(self, run):
        self.run = run
        self.names = value_names()
        self.probe = instrument.CacheProbe()
        self.probe.install()
        self.all_reads = None

    def read_names(self, m):
        sc = scale_of(m)
        extra = _extra_reads(m, sc)
        return self.names + sorted(extra), extra, sc

    def do_reads(self, m, subset):
        if not len(subset):
            return
        sc = scale_of(m)
        extra = _extra_reads(m, sc)
        for n in subset:
            read(m, n, extra)

    def compare(self, m, hist, mesh_tag, mut_name):
        """Compare every value of m with the fresh reference. Returns #violations."""
        run = self.run
        f = fresh_of(m)
        names, extra_m, sc = self.read_names(m)
        extra_f = _extra_reads(f, sc)
        # calibration twin: a second fresh mesh whose normals carry the rounding a rotation
        # legitimately leaves behind (a few ulp).  A value on which the two fresh meshes
        # disagree is ill-conditioned for this input (ties broken by normals, arccos near 0,
        # marginal ray hits) and says nothing about staleness: it is skipped and counted.
        twin_box = []

        def twins():
            # built on first use: most histories never need them
            if not twin_box:
                built = []
                for style in ("noise", "transport", "vertex_rounding", "pose", "noise_carried"):
                    t = perturbed_twin(f, self.run, style)
                    if t is not None:
                        built.append((t, _extra_reads(t, sc)))
                twin_box.append(built)
                run.count("calibration_twins_built", len(built))
            return twin_box[0]

        embree_ok = 0.5 <= sc["s"] <= 200.0
        bad = 0
        hits0 = self.probe.hits
        if mut_name.startswith(HASH_FIRST):
            # edits that the arrays' own bookkeeping may miss altogether: then EVERY cached value
            # is stale at once.  The hash of the mesh is one of the compared values; it is looked
            # at first and, when it is stale, reported alone (one key per route, not one per value)
            run.count("hash_first_comparisons")
            hm, hf = read(m, "q_hash", extra_m), read(f, "q_hash", extra_f)
            if differ(hm, hf, "q_hash", sc):
                also = []
                for n in names:
                    if n in extra_m or n == "q_hash" or len(also) >= 4:
                        continue
                    vf = read(f, n, extra_f)
                    if not isinstance(vf, Raised) and differ(read(m, n, extra_m), vf, n, sc):
                        also.append(n)
                run.count("value_comparisons", 1 + len(also))
                run.violation(
                    "mut=%s stale=q_hash" % mut_name,
                    "after `%s` the arrays of the mesh changed but its hash did not, so nothing cached is dropped; "
                    "stale values read next: %s" % (mut_name, ", ".join(also) if also else "(none of the plain values)"),
                    {"mesh": mesh_tag, "history": hist, "value": "q_hash", "also_stale": also},
                )
                self.post_hits = self.probe.hits - hits0
                return 1
        # the normals first: most other values are computed from them.  Only the FIRST stale
        # value of a step is reported (the history ends at this step anyway; whatever else is
        # stale at the same step is computed from the first or a consequence of the same cause),
        # so one defect gives one key per mutator instead of one per derived value
        names = [n for n in ROOT_VALUES if n in names] + [n for n in names if n not in ROOT_VALUES]
        for n in names:
            if bad:
                break
            if n in extra_m and n not in extra_f:
                continue
            if n in SCALE_GATED and not embree_ok:
                run.skip("tolerance-bound query outside the well-scaled regime: %s" % n)
                continue
            vf = read(f, n, extra_f)
            if isinstance(vf, Raised):
                run.skip("fresh value raises: %s" % n)
                continue
            if isinstance(vf, tuple) and vf and vf[0] == "unhandled":
                run.skip("uncompared type %s for %s" % (vf[1], n))
                continue
            h0 = self.probe.hits
            vm = read(m, n, extra_m)
            d = differ(vm, vf, n, sc)
            run.count("value_comparisons")
            if self.probe.hits > h0:
                run.count("value_comparisons_served_from_cache")
            if d:
                # consult the calibration twins only now (they cost as much as the fresh mesh):
                # is this value stable under admissible rounding of the stored normals?
                unstable = False
                # (the hash is exact: equal bytes hash equal, whatever the rounding of a normal)
                for ft, ex in (twins() if n != "q_hash" else ()):
                    if n in extra_f and n not in ex:
                        continue
                    # a quarter of the tolerance: the mesh's value and the fresh one may each sit
                    # as far from the exact value as a twin sits from the fresh one, in opposite
                    # directions
                    if differ(read(ft, n, ex), vf, n, sc, tight=0.25):
                        unstable = True
                        break
                if unstable:
                    run.skip("ill-conditioned under admissible normal rounding: %s" % n)
                    run.count("ill_conditioned_reads")
                    continue
                bad += 1
                run.violation(
                    "mut=%s stale=%s" % (mut_name, n),
                    "after `%s` the mesh reports a `%s` different from a freshly built mesh: %s" % (mut_name, n, d),
                    {"mesh": mesh_tag, "history": hist, "value": n, "diff": d},
                )
        self.post_hits = self.probe.hits - hits0
        return bad


class _StepTimeout(BaseException):
    pass


class _step_watchdog:
    """Wall-clock guard around one library call (main thread only)."""

    def __init__(self, seconds):
        self.seconds = seconds

    def __enter__(self):
        import signal

        def on_alarm(signum, frame):
            raise _StepTimeout()

        try:
            self._old = signal.signal(signal.SIGALRM, on_alarm)
            signal.setitimer(signal.ITIMER_REAL, self.seconds)
            self._armed = True
        except ValueError:
            self._armed = False
        return self

    def __exit__(self, *exc):
        import signal

        if self._armed:
            signal.setitimer(signal.ITIMER_REAL, 0)
            signal.signal(signal.SIGALRM, self._old)
        return False


def _arrays_of(m):
    return np.array(m.vertices, dtype=np.float64), np.array(m.faces, dtype=np.int64)


def arrays_depend_on_reads(mon, run, mesh_tag, base, steps, seed_for_mut, m, hist):
    """True (and a violation) when the arrays differ from those of the same history without reads."""
    import trimesh

    if not any(len(s[0]) for s in steps):
        return False  # this IS the history without reads
    refs = mon.__dict__.setdefault("array_refs", {})
    key = (mesh_tag, tuple(s[1] for s in steps), seed_for_mut)
    if key not in refs:
        ref = base.copy()
        try:
            for s_ in steps:
                with _step_watchdog(20.0):
                    res = s_[2](ref, np.random.default_rng(seed_for_mut))
                if isinstance(res, trimesh.Trimesh):
                    ref = res
            refs[key] = _arrays_of(ref)
        except BaseException:  # noqa: the reference history failed: nothing to compare with
            refs[key] = None
        if len(refs) > 4000:
            refs.pop(next(iter(refs)))
    if refs[key] is None:
        return False
    V0, F0 = refs[key]
    V1, F1 = _arrays_of(m)
    run.count("array_history_comparisons")
    sym = None
    if V0.shape != V1.shape:
        sym = "vertex_count"
    elif F0.shape != F1.shape:
        sym = "face_count"
    elif not np.array_equal(F0, F1):
        sym = "faces"
    elif not np.allclose(V0, V1, rtol=1e-9, atol=1e-9 * max(1.0, float(np.abs(V0[np.isfinite(V0)]).max()) if np.isfinite(V0).any() else 1.0), equal_nan=True):
        sym = "vertices"
    if sym is None:
        return False
    mname = steps[-1][1]
    if sym == "vertex_count":
        # a merge earlier in the history (merge_vertices / process: the listed finding - it merges fewer
        # vertices when vertex normals are in the cache, which an earlier mutator may have put there
        # without any read of the history) only becomes comparable at the first step that HAS reads:
        # the symptom belongs to that merge, not to the step at which it is first seen (thorough tier,
        # seed 1: `reassign:faces_subset` and `observer+edit_result:sample` after an unread merge)
        for s_ in steps[:-1]:
            if s_[1] in ("merge_vertices", "process", "process:validate"):
                mname = s_[1]
                break
    run.violation(
        "mut=%s sym=arrays_depend_on_reads:%s" % (mname, sym),
        "after `%s` the mesh holds different %s than the same history with nothing read before it" % (mname, sym),
        {"mesh": mesh_tag, "history": hist, "value": "arrays", "n_vertices": [len(V0), len(V1)], "n_faces": [len(F0), len(F1)]},
    )
    return True


def run_history(mon, run, mesh_tag, base, steps, seed_for_mut):
    """
    steps: list of (read_subset_names, mutator_name, mutator_fn)
    """
    m = base.copy()
    hist = []
    nontrivial = False
    for step in steps:
        reads, mname, mfn = step[:3]
        observe = (step[3] if len(step) > 3 else True) or mname.startswith(ALWAYS_OBSERVED)
        mon.do_reads(m, reads)
        keys_at_mutation = frozenset(m._cache.cache.keys())
        run.state("cache_keyset_at_mutation", hash(keys_at_mutation) & 0xFFFFFFFF)
        hist.append({"reads": list(reads) if len(reads) <= 8 else "ALL(%d)" % len(reads), "mutator": mname})
        r = np.random.default_rng(seed_for_mut)
        try:
            with _step_watchdog(20.0):
                res = mfn(m, r)
        except _StepTimeout:
            # a library call that does not come back in 20 s is not what this property judges
            # (compute_stable_poses on an open sheet did that): the history is dropped
            run.skip("mutator exceeded the 20 s step watchdog: %s" % mname)
            return
        except Exception as e:
            # a library mutator raising on a valid mesh is not what this property judges
            run.skip("mutator raised %s: %s" % (type(e).__name__, mname))
            return
        import trimesh

        if isinstance(res, trimesh.Trimesh):
            m = res
        if mname.startswith("near_duplicate_vertex"):
            mon.__dict__["_sliver_history"] = id(base)
        elif mon.__dict__.get("_sliver_history") == id(base) and "similarity:" in mname and any(
                h_["mutator"].startswith("near_duplicate_vertex") for h_ in hist[:-1]):
            try:
                factor = abs(float(mname.rsplit(":", 1)[1]))
            except ValueError:
                factor = 1.0
            if factor < 0.1:
                # the sliver face this mutator family builds (corners 4e-9 apart) is pushed below the
                # library's documented resolution by a shrinking similarity (cross product under
                # tol.zero): same ruling as for whole meshes below (thorough tier, seed 1)
                run.skip("sliver face shrunk below the library's documented resolution: history ends")
                break
        # (taken now: the reference history below runs the same function again)
        fa_result = _FA_RESULT.pop(mname, _FA_RESULT)
        if len(m.faces) == 0 or len(m.vertices) == 0:
            run.count("emptied_by_mutator")
        # "which values were read before a mutation never changes what is read after it" also
        # covers the arrays themselves: the same mutators from the same mesh with NOTHING read
        # in between must leave the same vertices and faces
        if not mname.startswith("observer:") and arrays_depend_on_reads(mon, run, mesh_tag, base, steps[: len(hist)], seed_for_mut, m, hist):
            break
        if scale_of(m)["s"] < 2e-6:
            # compositions of the tiny similarity classes (1e-3 x 1e-6 ...) shrink the mesh below the
            # resolution the library documents (triangle cross products under tol.zero = 1e-13 are
            # "degenerate", normals zero, facets empty): a FRESH mesh of that size reports those
            # documented degenerate answers while carried values are the exact ones - neither is
            # stale.  One tiny step (extent ~4e-6) stays judged.  (thorough tier, seed 0)
            run.skip("mesh shrunk below the library's documented resolution: history ends")
            break
        if mname.startswith("first_access:") and judge_first_access_result(run, m, mname, hist, mesh_tag, fa_result):
            run.count("histories_ended_at_first_violation")
            break
        if not observe:
            # a SILENT step: nothing is read between this mutator and the next one, so values
            # cached before it are still sitting in the cache when the next mutator runs
            hist[-1]["silent"] = True
            run.count("silent_steps")
            continue
        try:
            bad = mon.compare(m, hist, mesh_tag, mname)
        except Exception as e:  # unguarded harness path: never a verdict, keep the history
            run.skip("compare crashed: %s" % type(e).__name__)
            crashes = run.notes.setdefault("compare_crashes", [])
            if len(crashes) < 5:
                crashes.append({"mesh": mesh_tag, "history": hist, "error": "%s: %s" % (type(e).__name__, str(e)[:200])})
            return
        if len(keys_at_mutation) > 0 or mon.post_hits > 0:
            nontrivial = True
        if bad:
            # the state is corrupted from here on: anything seen later would be attributed to
            # the wrong mutator, so the history ends at the first violating step
            run.count("histories_ended_at_first_violation")
            break
    run.case(
        "hist:%s:len%d" % (mesh_tag, len(steps)),
        mesh_tag,
        tuple((tuple(s[0]), s[1], (s[3] if len(s) > 3 else True)) for s in steps),
        nontrivial=nontrivial,
        sample={"mesh": mesh_tag, "history": hist} if run.evaluations % 211 == 0 else None,
    )


def workload(run):
    mon = Monitor(run)
    try:
        _workload(run, mon)
    finally:
        mon.probe.uninstall()
        run.note("cache_probe", {"events": mon.probe.events, "hits": mon.probe.hits, "misses": mon.probe.miss,
                                 "properties_wrapped": len(mon.probe.by_prop)})


def _workload(run, mon):
    meshes = start_meshes(np.random.default_rng(run.subseed + 2), run.tier)
    muts = mutators(np.random.default_rng(run.subseed + 1))
    mut_by_name = dict(muts)
    run.note("values_compared", len(mon.names))
    run.note("mutators", [n for n, _ in muts])
    # the read alphabet: property names + query reads
    names_all, _, _ = mon.read_names(meshes[0][1])
    singles = [[n] for n in names_all]
    idx = 0
    # (1) read-set in {none, ALL} x every mutator; quick: meshes round-robin, thorough: every mesh
    for mi, (mname, mfn) in enumerate(muts):
        for ri, reads in enumerate(([], names_all)):
            if not reads and mname.startswith(NEEDS_READS):
                continue
            for si, (mesh_tag, base) in enumerate(meshes):
                if run.tier == "quick" and si != (mi + ri) % len(meshes):
                    continue
                idx += 1
                if run.mine(idx):
                    run_history(mon, run, mesh_tag, base, [(reads, mname, mfn)], idx)
        if run.out_of_time(0.45):
            run.count("section1_cut_short")
            break
    k = 0
    # (2d) values cached; an edit with NOTHING read after it; then a library function that is
    # handed the mesh is the first to look at it.  Enumerated (not sampled): every function with a
    # vertex edit, a face edit and one more edit in rotation (thorough: every edit)
    fa = first_access_mutators()
    mut_by_name.update(fa)
    run.note("first_access_functions", [n for n, _ in fa])
    for fi, (fname, ffn) in enumerate(fa):
        edits = list(PENDING_EDITS)
        if run.tier == "quick":
            edits = edits[:2] + [edits[2 + fi % (len(edits) - 2)]]
        for ei, ename in enumerate(edits):
            idx += 1
            if not run.mine(idx):
                continue
            mesh_tag, base = meshes[(fi + ei) % len(meshes)]
            reads = READS_NO_NORMALS if ename.startswith("update_faces") or (fi + ei) % 3 == 2 else names_all
            run.count("first_access_histories")
            run_history(mon, run, mesh_tag, base,
                        [(reads, ename, mut_by_name[ename], False), ([], fname, ffn, True)], idx)
        if run.out_of_time(0.55):
            run.count("first_access_cut_short")
            break
    # (2c) an edit with NOTHING read after it, then a mutator that keeps part of the cache: what
    # was cached before the edit must not be re-validated by the second call
    silent_first = [n for n, _ in muts if n in (
        "inplace:v_setitem_late", "inplace:v_imul", "inplace:f_setitem_last", "inplace:f_fliplr_all",
        "inplace:v_imatmul", "inplace:v_put", "inplace:v_setitem+array_hashed_by_caller",
        "inplace:v_setitem+second_owner_reads_first", "reassign:vertices", "reassign:faces_subset", "density_set")]
    keepers = [n for n, _ in muts if n.split(":")[0] in (
        "apply_translation", "invert", "process", "copy", "copy.copy", "fix_normals", "unmerge_vertices",
        "merge_vertices", "remove_unreferenced_vertices", "rezero", "apply_obb", "convert_units")
        or n in ("apply_transform:rigid", "apply_transform:mirror_axis", "apply_transform:similarity:0.5",
                 "apply_transform:shear", "apply_transform:identity", "apply_transform:near_identity:translation:1e-07",
                 "apply_scale:scalar", "apply_scale:negative", "update_faces:random_bool", "update_faces:all_true",
                 "update_vertices:referenced_bool", "hole@0.30+fill_holes", "face_normals_set:correct",
                 "copy:include_cache", "copy.copy+mutate_copy_observe_original:rigid")]
    spairs = [(a, b) for a in silent_first for b in keepers]
    run.pyrng.shuffle(spairs)
    for a, b in spairs:
        idx += 1
        if not run.mine(idx):
            continue
        mesh_tag, base = meshes[k % len(meshes)]
        k += 1
        run_history(mon, run, mesh_tag, base,
                    [(names_all, a, mut_by_name[a], False), ([], b, mut_by_name[b], True)], idx)
        if run.out_of_time(0.6):
            run.count("silent_pairs_cut_short")
            break
    # (2b) ordered pairs A;B: A leaves hidden state behind (cache lock users process / invert /
    # identifier, copies sharing cache entries, transforms that preserve part of the cache),
    # B is one representative of every mutator family; everything is cached before A and a few
    # values are read between.  Thorough: all ordered pairs.
    if run.tier == "quick":
        first = [n for n, _ in muts if n in (
            "invert", "process", "process:validate", "copy:include_cache", "copy.copy",
            "apply_transform:rigid", "apply_transform:mirror_axis", "apply_transform:shear",
            "apply_translation", "unmerge_vertices", "update_faces:random_bool", "fix_normals")]
        second = [n for n, _ in muts if n in (
            "inplace:v_setitem_late", "inplace:v_iadd", "inplace:f_setitem_last", "reassign:vertices",
            "reassign:faces", "apply_transform:rigid", "apply_transform:mirror_rot", "apply_transform:aniso",
            "invert", "update_faces:random_bool", "update_vertices:drop_one", "merge_vertices",
            "face_normals_set:correct", "density_set", "apply_scale:per_axis_negative",
            # what the first mutator left in the cache (carried normals ...) is edited in place
            "observer+edit_result:read:all_cached_values")]
    else:
        first = [n for n, _ in muts]
        second = [n for n, _ in muts]
    between = [[], ["identifier"], ["face_normals", "edges_unique", "bounds"]]
    pairs = [(a, b) for a in first for b in second]
    run.pyrng.shuffle(pairs)
    for a, b in pairs:
        idx += 1
        if not run.mine(idx):
            continue
        mesh_tag, base = meshes[k % len(meshes)]
        k += 1
        mid = between[k % len(between)]
        run_history(mon, run, mesh_tag, base, [(names_all + ["identifier"], a, mut_by_name[a]), (mid, b, mut_by_name[b])], idx)
        if run.out_of_time(0.75):
            run.count("pairs_cut_short")
            break
    # (2) each single value x every mutator (the staleness triples), meshes round-robin
    order = [(mname, mfn, s) for mname, mfn in muts for s in singles]
    run.pyrng.shuffle(order)
    for mname, mfn, s in order:
        idx += 1
        if not run.mine(idx):
            continue
        mesh_tag, base = meshes[k % len(meshes)]
        k += 1
        run_history(mon, run, mesh_tag, base, [(s, mname, mfn)], idx)
        if run.out_of_time(0.9):
            run.count("singles_cut_short")
            break
    # (3) longer histories with random read subsets
    maxlen = 2 if run.tier == "quick" else 4
    muts_all = muts + fa
    while not run.out_of_time(0.95):
        idx += 1
        mesh_tag, base = meshes[int(run.rng.integers(len(meshes)))]
        steps = []
        for _ in range(int(run.rng.integers(2, maxlen + 1))):
            kk = int(run.rng.integers(0, 7))
            reads = list(run.rng.choice(names_all, size=kk, replace=False)) if kk else []
            mname, mfn = muts_all[int(run.rng.integers(len(muts_all)))]
            steps.append((reads, mname, mfn, bool(run.rng.random() < 0.7)))
        steps[-1] = steps[-1][:3] + (True,)
        run_history(mon, run, mesh_tag, base, steps, idx)
    if mon.probe.hits == 0:
        run.inconclusive("no compared read was ever served from a cache")


def replay(run, case):
    mon = Monitor(run)
    try:
        sub = int(case.get("_subseed", run.subseed))
        meshes = dict(start_meshes(np.random.default_rng(sub + 2), "thorough"))
        muts = dict(mutators(np.random.default_rng(sub + 1)))
        muts.update(first_access_mutators())
        names_all, _, _ = mon.read_names(list(meshes.values())[0])
        steps = []
        for h in case["history"]:
            reads = names_all if isinstance(h["reads"], str) else h["reads"]
            steps.append((reads, h["mutator"], muts[h["mutator"]], not h.get("silent", False)))
        base = meshes.get(case["mesh"]) or list(meshes.values())[0]
        run_history(mon, run, case["mesh"], base, steps, 1)
    finally:
        mon.probe.uninstall()
