"""
C02 - content hash of tracked arrays always reflects their current bytes.

Monitor shape: history + executable reference model.  The model is "the bytes": after every
step of a program of numpy operations, every live TrackedArray (root and views) is *peeked*
(its __hash__() is evaluated and its bookkeeping attributes are restored afterwards, so the
observation does not perturb the dirty-flag state machine) and compared with
hash_fast(ascontiguousarray(x).tobytes()).  Explicit hash reads are operations of the
program, so they occur at every position.

A fresh->stale transition is classified by structural features only:
  self   route=<operation that wrote>                       the written object itself is stale
  alias  rel=<ancestor|descendant|sibling> wtype=<tracked|ndarray> [hashed_since_child=<yes|no>]
"""

from __future__ import annotations

import itertools

import numpy as np

PROP = "C02"
LEVEL = "exploration"
RULE = (
    "programs of numpy operations (overridden mutators, other numpy write routes, view creation, "
    "byte-preserving reads, explicit hash reads) on a TrackedArray and its views; all programs of "
    "length <=2 enumerated per dtype/shape, view/hash/write templates of length 3-4 enumerated, longer "
    "ones sampled; plus container-level edits (mesh, path, visuals, scene, datastore). A case is one "
    "program; distinct = distinct (dtype, op sequence with targets); non-trivial = at least one step "
    "changed the bytes of a live tracked array after a hash read of an aliasing object (so a stale "
    "memo was possible)."
)
ANCHORS = [
    "trimesh/caching.py:TrackedArray.__hash__",
    "trimesh/caching.py:TrackedArray.__array_finalize__",
    "trimesh/caching.py:TrackedArray.__setitem__",
    "trimesh/caching.py:TrackedArray.__iadd__",
    "trimesh/caching.py:TrackedArray.sort",
    "trimesh/caching.py:TrackedArray.fill",
    "trimesh/caching.py:TrackedArray.put",
    "trimesh/caching.py:DataStore.__hash__",
    "trimesh/caching.py:tracked_array",
    "trimesh/parent.py:Geometry.__hash__",
    "trimesh/path/path.py:Path.__hash__",
    "trimesh/scene/scene.py:Scene.__hash__",
]
SHARDS = {"quick": 1, "thorough": 12}
BUDGET = {"quick": 45, "thorough": 420}
MIN_EVENTS = {"quick": 2000, "thorough": 20000}
ASSUMPTIONS = [
    "hash_fast (xxhash) collisions are negligible: 'hash changed' is used as 'bytes changed'",
    "peeking a hash and restoring the instance __dict__ does not perturb the array",
]

_MISSING = object()


def _bytes_hash(x):
    from trimesh.caching import hash_fast

    return hash_fast(np.ascontiguousarray(np.asarray(x)).tobytes())


def peek(x):
    """__hash__() of a TrackedArray without changing its bookkeeping."""
    saved = dict(x.__dict__)
    try:
        return x.__hash__()
    finally:
        x.__dict__.clear()
        x.__dict__.update(saved)


# ----------------------------------------------------------------------------
# base arrays


def base_arrays():
    out = {}
    out["f8_n3"] = (np.arange(12, dtype=np.float64).reshape(4, 3) * 0.5 + 0.25)
    out["i8_n3"] = np.array([[0, 1, 2], [2, 1, 3], [3, 0, 1], [4, 5, 0]], dtype=np.int64)
    out["u1_n4"] = (np.arange(16, dtype=np.uint8).reshape(4, 4) * 7 + 3)
    out["f8_44"] = np.eye(4) + np.arange(16, dtype=np.float64).reshape(4, 4) * 0.125
    out["b_232"] = (np.arange(12).reshape(2, 3, 2) % 3 == 0)
    out["f8_03"] = np.zeros((0, 3), dtype=np.float64)
    return out


# ----------------------------------------------------------------------------
# operations.  Each takes the target array T (root or a view) and the program state and
# either mutates T, returns a new live object (views / copies), or just reads.


def _val(T):
    if T.dtype == bool:
        return True
    return 3


class Op:
    def __init__(self, name, group, fn):
        self.name, self.group, self.fn = name, group, fn


def _mask(T):
    m = np.zeros(T.shape, dtype=bool)
    if m.size:
        m.flat[:: 2] = True
    return m


def _ops():
    ops = []

    def add(name, group):
        def deco(fn):
            ops.append(Op(name, group, fn))
            return fn

        return deco

    # ---- overridden mutators (group "method")
    @add("setitem_int", "method")
    def _(T, st):
        T[0] = _val(T)

    @add("setitem_slice", "method")
    def _(T, st):
        T[1:] = _val(T)

    @add("setitem_mask", "method")
    def _(T, st):
        T[_mask(T)] = _val(T)

    @add("setitem_fancy", "method")
    def _(T, st):
        T[[0, -1]] = _val(T)

    @add("setitem_ellipsis", "method")
    def _(T, st):
        T[...] = _val(T)

    @add("setitem_tuple", "method")
    def _(T, st):
        T[(0,) * T.ndim] = _val(T)

    def inplace(name, fn, group="method"):
        ops.append(Op(name, group, fn))

    def _iadd(T, st):
        T += _val(T)

    def _isub(T, st):
        T -= _val(T)

    def _imul(T, st):
        T *= _val(T)

    def _itruediv(T, st):
        T /= 2

    def _ifloordiv(T, st):
        T //= 2

    def _imod(T, st):
        T %= 2

    def _ipow(T, st):
        T **= 2

    def _imatmul(T, st):
        T @= np.full((T.shape[-1], T.shape[-1]), 2, dtype=T.dtype)

    def _ilshift(T, st):
        T <<= 1

    def _irshift(T, st):
        T >>= 1

    def _iand(T, st):
        T &= np.array(5).astype(T.dtype)

    def _ixor(T, st):
        T ^= np.array(5).astype(T.dtype)

    def _ior(T, st):
        T |= np.array(5).astype(T.dtype)

    for n, f in [
        ("iadd", _iadd), ("isub", _isub), ("imul", _imul), ("itruediv", _itruediv),
        ("ifloordiv", _ifloordiv), ("imod", _imod), ("ipow", _ipow), ("imatmul", _imatmul),
        ("ilshift", _ilshift), ("irshift", _irshift), ("iand", _iand), ("ixor", _ixor),
        ("ior", _ior),
    ]:
        inplace(n, f)

    @add("fill", "method")
    def _(T, st):
        T.fill(_val(T))

    @add("sort", "method")
    def _(T, st):
        T.sort(axis=0)

    @add("sort_desc_prep", "method")
    def _(T, st):
        # reverse rows then sort: guarantees sort has something to do
        T[...] = T[::-1].copy()
        T.sort(axis=0)

    @add("partition", "method")
    def _(T, st):
        T[...] = T[::-1].copy()
        T.partition(1, axis=0)

    @add("put", "method")
    def _(T, st):
        T.put([0, 1], _val(T))

    @add("np_put", "method")
    def _(T, st):
        np.put(T, [0, 2], _val(T))

    @add("byteswap_inplace", "method")
    def _(T, st):
        T.byteswap(inplace=True)

    @add("setflags", "method")
    def _(T, st):
        T.setflags(write=True)

    # ---- other numpy write routes (group "numpy")
    @add("ufunc_out", "numpy")
    def _(T, st):
        if T.dtype == bool:
            np.logical_not(T, out=T)
        else:
            np.add(T, 1, out=T)

    @add("ufunc_out_kw_tuple", "numpy")
    def _(T, st):
        if T.dtype == bool:
            np.logical_not(T, out=(T,))
        else:
            np.multiply(T, 2, out=(T,))

    @add("copyto", "numpy")
    def _(T, st):
        np.copyto(T, _val(T))

    @add("flat_setitem", "numpy")
    def _(T, st):
        T.flat[0] = _val(T)

    @add("flat_setslice", "numpy")
    def _(T, st):
        T.flat[:] = _val(T)

    @add("ufunc_at", "numpy")
    def _(T, st):
        if T.dtype == bool:
            np.logical_not.at(T, [0])
        else:
            np.add.at(T, [0, 0], 1)

    @add("place", "numpy")
    def _(T, st):
        np.place(T, _mask(T), [_val(T)])

    @add("putmask", "numpy")
    def _(T, st):
        np.putmask(T, _mask(T), _val(T))

    @add("fill_diagonal", "numpy")
    def _(T, st):
        np.fill_diagonal(T, _val(T))

    @add("clip_out", "numpy")
    def _(T, st):
        T.clip(0, 1, out=T)

    @add("round_out", "numpy")
    def _(T, st):
        np.round(T, 0, out=T)

    @add("cumsum_out", "numpy")
    def _(T, st):
        np.cumsum(T, axis=0, out=T)

    @add("ndarray_setitem", "numpy")
    def _(T, st):
        np.ndarray.__setitem__(T, 0, _val(T))

    @add("ndarray_sort", "numpy")
    def _(T, st):
        np.ndarray.__setitem__  # noqa
        T2 = T
        np.ndarray.__setitem__(T2, Ellipsis, T2[::-1].copy())
        np.ndarray.sort(T2, axis=0)

    @add("memoryview_write", "numpy")
    def _(T, st):
        mv = memoryview(T).cast("B")
        mv[0] = mv[0] ^ 0xFF

    @add("take_out", "numpy")
    def _(T, st):
        np.take(T[::-1].copy(), np.arange(T.shape[0]), axis=0, out=T)

    @add("dot_out", "numpy")
    def _(T, st):
        if T.ndim == 2 and T.shape[0] == T.shape[1] and T.dtype == np.float64:
            np.dot(T.copy(), T.copy(), out=T)
        else:
            raise TypeError("n/a")

    # ---- view creation (group "view") -> returns the new live object
    @add("v_slice", "view")
    def _(T, st):
        return T[1:]

    @add("v_stride", "view")
    def _(T, st):
        return T[::2]

    @add("v_col", "view")
    def _(T, st):
        return T[..., 0]

    @add("v_T", "view")
    def _(T, st):
        return T.T

    @add("v_reshape", "view")
    def _(T, st):
        return T.reshape(-1)

    @add("v_ravel", "view")
    def _(T, st):
        return T.ravel()

    @add("v_view", "view")
    def _(T, st):
        return T.view()

    @add("v_asarray", "view")
    def _(T, st):
        return np.asarray(T)

    @add("v_view_ndarray", "view")
    def _(T, st):
        return T.view(np.ndarray)

    @add("v_squeeze", "view")
    def _(T, st):
        return T.squeeze()

    @add("v_swapaxes", "view")
    def _(T, st):
        return T.swapaxes(0, -1)

    @add("v_newaxis", "view")
    def _(T, st):
        return T[None]

    @add("v_row", "view")
    def _(T, st):
        return T[0]

    @add("v_uint8", "view")
    def _(T, st):
        return T.view(np.uint8)

    # ---- byte-preserving (group "read"); copies are returned so they become live objects
    @add("r_copy", "read")
    def _(T, st):
        return T.copy()

    @add("r_sum", "read")
    def _(T, st):
        T.sum()

    @add("r_add1", "read")
    def _(T, st):
        return T + 1

    @add("r_eq", "read")
    def _(T, st):
        T == T

    @add("r_astype", "read")
    def _(T, st):
        return T.astype(np.float32)

    @add("r_tolist", "read")
    def _(T, st):
        T.tolist()

    @add("r_npsort", "read")
    def _(T, st):
        np.sort(T, axis=0)

    @add("r_mean", "read")
    def _(T, st):
        if T.size:
            T.mean()

    @add("r_repr", "read")
    def _(T, st):
        repr(T)

    @add("r_tracked_again", "read")
    def _(T, st):
        from trimesh.caching import tracked_array

        return tracked_array(T)

    # ---- write-protection flags (byte preserving): a dirty flag must survive a freeze
    @add("freeze", "read")
    def _(T, st):
        T.flags.writeable = False

    @add("freeze_setflags", "read")
    def _(T, st):
        np.ndarray.setflags(T, write=False)

    @add("freeze_mutable", "read")
    def _(T, st):
        T.mutable = False

    @add("thaw", "read")
    def _(T, st):
        try:
            T.flags.writeable = True
        except ValueError:
            pass

    # ---- hash read
    @add("hash", "hash")
    def _(T, st):
        T.__hash__()

    return ops


# ----------------------------------------------------------------------------
# program interpreter


class Live:
    __slots__ = ("obj", "parent", "born", "last_hash", "stale", "kind", "via_base")

    def __init__(self, obj, parent, born, kind):
        self.obj, self.parent, self.born, self.kind = obj, parent, born, kind
        self.last_hash = -1  # step index of the last explicit hash read of this object
        self.stale = False
        # created through a base-class ndarray (np.asarray, view(np.ndarray), tracked_array of
        # an existing array): __array_finalize__ never sees the tracked parent on that route
        self.via_base = (not _is_tracked(obj)) or kind == "r_tracked_again"


def _is_tracked(x):
    from trimesh.caching import TrackedArray

    return isinstance(x, TrackedArray)


def _ancestors(live, i):
    out = []
    p = live[i].parent
    while p is not None:
        out.append(p)
        p = live[p].parent
    return out


def run_program(run, dname, base, prog, ops_by_name):
    """
    prog: list of (opname, target_selector) with selector "root" | "last" | int index.
    Returns (nontrivial, steps)
    """
    from trimesh.caching import tracked_array

    root = tracked_array(base.copy())
    live = [Live(root, None, -1, "root")]
    nontrivial = False
    for step, (opname, sel) in enumerate(prog):
        op = ops_by_name[opname]
        if sel == "root":
            ti = 0
        elif sel == "last":
            ti = len(live) - 1
        else:
            ti = min(int(sel), len(live) - 1)
        T = live[ti].obj
        before = [np.ascontiguousarray(np.asarray(l.obj)).tobytes() for l in live]
        try:
            res = op.fn(T, None)
        except Exception:
            res = None
            run.count("op_raised")
        run.count("ops_" + op.group)
        if op.group == "hash":
            live[ti].last_hash = step
        if isinstance(res, np.ndarray) and res.ndim > 0 and not any(res is l.obj for l in live):
            if len(live) < 6:
                live.append(Live(res, ti if np.shares_memory(res, T) else None, step, opname))
        # --- oracle: every live tracked object reports the hash of its bytes
        for i, l in enumerate(live):
            if not _is_tracked(l.obj):
                continue
            now = np.ascontiguousarray(np.asarray(l.obj)).tobytes()
            changed = i < len(before) and now != before[i]
            if changed and l.last_hash >= 0:
                nontrivial = True
            run.count("hash_checks")
            ok = peek(l.obj) == _bytes_hash(l.obj)
            if ok:
                l.stale = False
                continue
            if l.stale and not changed:
                continue  # already reported, nothing new happened to it
            l.stale = True
            # ---- classify
            if i == ti:
                key = "self route=%s:%s" % (op.group, op.name)
                what = "array written through `%s` keeps its memoised hash" % op.name
            else:
                W = live[ti]
                wtype = "tracked" if _is_tracked(W.obj) else "ndarray"
                anc_of_w = _ancestors(live, ti)
                if i in anc_of_w:
                    # first child of i on the chain to W
                    chain = [ti] + anc_of_w
                    child = chain[chain.index(i) - 1]
                    hs = "yes" if l.last_hash > live[child].born else "no"
                    links = chain[: chain.index(i)]
                    link = "ndarray" if any(live[c].via_base for c in links) else "tracked"
                    key = "alias rel=ancestor link=%s hashed_since_child=%s" % (link, hs)
                elif ti in _ancestors(live, i):
                    key = "alias rel=descendant wtype=%s" % wtype
                else:
                    key = "alias rel=sibling wtype=%s" % wtype
                what = "write through another object sharing memory (`%s`) leaves this array's hash stale" % op.name
            run.state("stale_route", key)
            run.violation(
                key,
                what,
                {"dtype": dname, "program": prog, "step": step, "stale_object": i,
                 "live_kinds": [l2.kind for l2 in live]},
            )
    run.state("route_dirty", (prog[-1][0], live[0].last_hash >= 0))
    return nontrivial


# ----------------------------------------------------------------------------
# container level


def _fresh_mesh(m):
    import trimesh

    f = trimesh.Trimesh(vertices=np.array(m.vertices).copy(), faces=np.array(m.faces).copy(), process=False)
    return f


def container_checks(run):
    import trimesh
    from trimesh.caching import DataStore

    box = trimesh.creation.box()
    ico = trimesh.creation.icosphere(subdivisions=1)

    def mesh_edits():
        yield "v_setitem", lambda m: m.vertices.__setitem__((0, 0), 5.5), True
        yield "v_iadd", lambda m: m.vertices.__iadd__(1.0), True
        yield "v_slice_assign", lambda m: m.vertices.__setitem__(slice(1, 3), 2.0), True
        yield "f_setitem", lambda m: m.faces.__setitem__(0, m.faces[0][::-1].copy()), True
        yield "f_sort", lambda m: m.faces.sort(axis=1), True
        yield "v_reassign", lambda m: setattr(m, "vertices", np.array(m.vertices) * 2.0), True
        yield "f_reassign", lambda m: setattr(m, "faces", np.array(m.faces)[::-1].copy()), True
        yield "v_reassign_same", lambda m: setattr(m, "vertices", np.array(m.vertices).copy()), False

        def none_then_back(attr):
            def f(m):
                keep = np.array(getattr(m, attr)).copy()
                setattr(m, attr, None)
                setattr(m, attr, keep)

            return f

        # cleared and assigned again: same bytes, so the same hash as any mesh holding them
        yield "v_none_then_reassign", none_then_back("vertices"), False
        yield "f_none_then_reassign", none_then_back("faces"), False
        yield "read_area", lambda m: m.area, False
        yield "read_normals", lambda m: m.face_normals, False
        yield "read_copy", lambda m: m.copy(), False
        yield "read_hash", lambda m: m.__hash__(), False
        yield "v_mul_1", lambda m: m.vertices.__imul__(1.0), False
        yield "apply_identity", lambda m: m.apply_transform(np.eye(4)), False
        yield "apply_translation", lambda m: m.apply_translation([1, 2, 3]), True
        yield "density", lambda m: setattr(m, "density", 3.5), True

    for base_name, base in (("box", box), ("ico", ico)):
        for name, edit, changes in mesh_edits():
            for pre_read in (False, True):
                m = base.copy()
                if pre_read:
                    m.__hash__()
                    m.vertices.__hash__()
                    m.faces.__hash__()
                h0 = m.__hash__() if pre_read else base.copy().__hash__()
                b0 = (np.array(m.vertices).tobytes(), np.array(m.faces).tobytes())
                try:
                    edit(m)
                except Exception as e:
                    run.skip("container edit raised %s" % type(e).__name__)
                    continue
                b1 = (np.array(m.vertices).tobytes(), np.array(m.faces).tobytes())
                h1 = m.__hash__()
                bytes_changed = b0 != b1 or name == "density"
                run.case("container:mesh:" + name, base_name, pre_read, nontrivial=pre_read)
                run.count("container_checks")
                # reference: a fresh mesh from the same arrays
                fresh = _fresh_mesh(m)
                if name != "density":
                    if fresh.__hash__() != h1:
                        run.violation(
                            "container kind=mesh edit=%s sym=differs_from_fresh" % name,
                            "mesh hash differs from the hash of a fresh mesh with the same arrays",
                            {"mesh": base_name, "edit": name, "pre_read": pre_read},
                        )
                if bytes_changed and h1 == h0:
                    run.violation(
                        "container kind=mesh edit=%s sym=hash_unchanged" % name,
                        "bytes changed but the mesh hash did not",
                        {"mesh": base_name, "edit": name, "pre_read": pre_read},
                    )
                if not bytes_changed and h1 != h0:
                    run.violation(
                        "container kind=mesh edit=%s sym=hash_changed" % name,
                        "bytes unchanged but the mesh hash changed",
                        {"mesh": base_name, "edit": name, "pre_read": pre_read},
                    )

    # two independently built equal meshes hash equal, in either construction order
    for base in (box, ico):
        a = trimesh.Trimesh(np.array(base.vertices), np.array(base.faces), process=False)
        b = trimesh.Trimesh(faces=np.array(base.faces).copy(), vertices=np.array(base.vertices).copy(), process=False)
        _ = b.face_normals, b.area
        run.case("container:equal_meshes", len(base.faces))
        if a.__hash__() != b.__hash__():
            run.violation("container kind=mesh sym=equal_arrays_differ", "two meshes with equal arrays hash differently", {})

    # one TrackedArray handed to two owners: an edit through either handle must show in both
    # hashes (the store keeps the object it was given, it does not re-wrap it in a view)
    for how in ("constructor", "assign", "datastore"):
        a = trimesh.Trimesh(np.array(box.vertices), np.array(box.faces), process=False)
        if how == "constructor":
            b = trimesh.Trimesh(vertices=a.vertices, faces=a.faces, process=False)
            hb = lambda: b.__hash__()  # noqa
        elif how == "assign":
            b = trimesh.Trimesh(np.array(ico.vertices), np.array(ico.faces), process=False)
            b.vertices = a.vertices
            b.faces = a.faces
            hb = lambda: b.__hash__()  # noqa
        else:
            b = DataStore()
            b["v"] = a.vertices
            hb = lambda: b.__hash__()  # noqa
        h0a, h0b = a.__hash__(), hb()
        _ = a.bounds
        a.vertices[:, 2] *= 4.0
        run.case("container:shared_tracked_array:" + how)
        run.count("container_checks")
        if a.__hash__() == h0a:
            run.violation("container kind=mesh scenario=shared_tracked_array:%s owner=editor sym=hash_unchanged" % how,
                          "hash of the mesh that was edited did not change", {"how": how})
        if hb() == h0b:
            run.violation("container kind=mesh scenario=shared_tracked_array:%s owner=other sym=hash_unchanged" % how,
                          "a TrackedArray shared by two owners was edited through one of them; the other owner's hash did not change",
                          {"how": how})
        if how != "datastore" and b.__hash__() != a.__hash__():
            run.violation("container kind=mesh scenario=shared_tracked_array:%s sym=equal_arrays_differ" % how,
                          "two meshes holding the same arrays hash differently", {"how": how})

    # DataStore: member edits and equality
    ds1, ds2 = DataStore(), DataStore()
    ds1["a"] = np.arange(6.0).reshape(2, 3)
    ds1["b"] = np.arange(4)
    ds2["a"] = np.arange(6.0).reshape(2, 3)
    ds2["b"] = np.arange(4)
    run.case("container:datastore_equal")
    if ds1.__hash__() != ds2.__hash__():
        run.violation("container kind=datastore sym=equal_differ", "equal DataStores hash differently", {})
    for key in ("a", "b"):
        h0 = ds1.__hash__()
        ds1[key][0] = 9
        run.case("container:datastore_edit", key)
        if ds1.__hash__() == h0:
            run.violation("container kind=datastore member=%s sym=hash_unchanged" % key,
                          "DataStore hash ignores a member edit", {"member": key})
    # order of insertion with equal content: the statement says equal arrays hash equal
    # for meshes; DataStore insertion order is not part of it, so it is not judged.

    # Path2D / Path3D
    import trimesh.path
    from trimesh.path.entities import Line

    def mkpath():
        return trimesh.path.Path2D(
            entities=[Line([0, 1, 2, 3, 0])],
            vertices=np.array([[0, 0], [2, 0], [2, 1], [0, 1.0]]),
            process=False,
        )

    p, q = mkpath(), mkpath()
    run.case("container:path_equal")
    if p.__hash__() != q.__hash__():
        run.violation("container kind=path sym=equal_differ", "equal paths hash differently", {})
    for name, edit in (
        ("v_setitem", lambda x: x.vertices.__setitem__((1, 0), 3.0)),
        ("v_iadd", lambda x: x.vertices.__iadd__(0.5)),
        ("v_reassign", lambda x: setattr(x, "vertices", np.array(x.vertices) * 2)),
        ("apply_transform", lambda x: x.apply_transform(np.array([[1, 0, 4], [0, 1, 0], [0, 0, 1.0]]))),
        ("entity_points", lambda x: setattr(x.entities[0], "points", np.array([0, 1, 2, 0]))),
    ):
        for pre in (False, True):
            x = mkpath()
            h0 = x.__hash__()
            if pre:
                _ = x.area, x.length
            edit(x)
            run.case("container:path:" + name, pre)
            if x.__hash__() == h0:
                run.violation("container kind=path edit=%s sym=hash_unchanged" % name,
                              "path hash unchanged after an edit", {"edit": name, "pre": pre})
    x = mkpath()
    h0 = x.__hash__()
    _ = x.area, x.length, x.polygons_full, x.copy()
    run.case("container:path:reads")
    if x.__hash__() != h0:
        run.violation("container kind=path edit=reads sym=hash_changed", "path hash changed by reads", {})

    # ColorVisuals
    for mode in ("face", "vertex"):
        m = box.copy()
        if mode == "face":
            m.visual.face_colors = np.tile([10, 20, 30, 255], (len(m.faces), 1)).astype(np.uint8)
            h0 = m.visual.__hash__()
            m.visual.face_colors[0] = [1, 2, 3, 255]
        else:
            m.visual.vertex_colors = np.tile([10, 20, 30, 255], (len(m.vertices), 1)).astype(np.uint8)
            h0 = m.visual.__hash__()
            m.visual.vertex_colors[0] = [1, 2, 3, 255]
        run.case("container:visual:" + mode)
        if m.visual.__hash__() == h0:
            run.violation("container kind=colorvisuals mode=%s sym=hash_unchanged" % mode,
                          "visual hash unchanged after a colour edit", {"mode": mode})

    # Scene
    s = trimesh.Scene([box.copy(), ico.copy()])
    h0 = s.__hash__()
    _ = s.bounds
    run.case("container:scene:reads")
    if s.__hash__() != h0:
        run.violation("container kind=scene edit=reads sym=hash_changed", "scene hash changed by a read", {})
    g = list(s.geometry.values())[0]
    g.vertices[0, 0] += 1.0
    run.case("container:scene:geom_edit")
    h1 = s.__hash__()
    if h1 == h0:
        run.violation("container kind=scene edit=geometry_inplace sym=hash_unchanged",
                      "scene hash unchanged after editing a geometry in place", {})
    node = s.graph.nodes_geometry[0]
    s.graph.update(node, matrix=trimesh.transformations.translation_matrix([1, 0, 0]))
    run.case("container:scene:graph_edit")
    if s.__hash__() == h1:
        run.violation("container kind=scene edit=graph_update sym=hash_unchanged",
                      "scene hash unchanged after a graph edit", {})
    # several geometries holding EQUAL arrays (two copies of one part; one object under two
    # names), all edited the same way between two hash reads: the scene hash must move
    for how in ("two_copies", "shared_object", "four_copies"):
        sc = trimesh.Scene()
        if how == "shared_object":
            part = box.copy()
            parts = [part, part]
        else:
            parts = [box.copy() for _ in range(2 if how == "two_copies" else 4)]
        for i, part in enumerate(parts):
            sc.add_geometry(part, geom_name="part%d" % i, node_name="n%d" % i,
                            transform=trimesh.transformations.translation_matrix([3.0 * i, 0, 0]))
        h0 = sc.__hash__()
        b0 = np.array(sc.bounds)
        seen = set()
        for part in parts:
            if id(part) not in seen:
                seen.add(id(part))
                part.vertices *= 2.0
        run.case("container:scene:equal_geometries_edited:" + how)
        run.count("container_checks")
        if sc.__hash__() == h0:
            run.violation("container kind=scene edit=equal_geometries:%s sym=hash_unchanged" % how,
                          "every geometry of the scene was edited in place but the scene hash did not change", {"how": how})
        if np.allclose(np.array(sc.bounds), b0):
            run.violation("container kind=scene edit=equal_geometries:%s sym=stale_bounds" % how,
                          "scene bounds unchanged after scaling every geometry in place", {"how": how})

    s2 = trimesh.Scene([box.copy(), ico.copy()])
    s3 = trimesh.Scene([box.copy(), ico.copy()])
    run.case("container:scene:equal")
    if s2.__hash__() != s3.__hash__():
        run.violation("container kind=scene sym=equal_differ", "equal scenes hash differently", {})


# ----------------------------------------------------------------------------
# contracts (icontract) on the real TrackedArray.__hash__


def install_contract(run):
    """
    Postcondition on TrackedArray.__hash__: result == hash of bytes.  Recording, not raising.
    Evaluations are counted; zero evaluations => inconclusive for the contract part.
    """
    from trimesh import caching

    try:
        import icontract
    except Exception:
        run.inconclusive("icontract not importable")
        return None
    state = {"n": 0, "bad": 0}
    orig = caching.TrackedArray.__hash__

    def fresh(self, result):
        state["n"] += 1
        if result != caching.hash_fast(np.ndarray.tobytes(self, order="C")):
            state["bad"] += 1
        return True

    class HashStale(Exception):
        pass

    wrapped = icontract.ensure(fresh, error=HashStale)(orig)
    caching.TrackedArray.__hash__ = wrapped
    return state, orig


# ----------------------------------------------------------------------------


def workload(run):
    from trimesh import caching

    ops = _ops()
    by_name = {o.name: o for o in ops}
    bases = base_arrays()
    names = [o.name for o in ops]
    groups = {g: [o.name for o in ops if o.group == g] for g in ("method", "numpy", "view", "read", "hash")}
    run.note("operations", {g: len(v) for g, v in groups.items()})

    def do(dname, prog):
        nt = run_program(run, dname, bases[dname], prog, by_name)
        run.case("prog:%s:len%d" % (dname, len(prog)), dname, tuple(prog), nontrivial=nt,
                 sample={"dtype": dname, "program": prog} if nt and run.evaluations % 997 == 0 else None)

    dnames = list(bases)
    idx = 0
    # (1) every program of length 1 and 2 on the root, with and without a leading hash read
    for dname in dnames:
        for a in names:
            idx += 1
            if run.mine(idx):
                do(dname, [(a, "root")])
                do(dname, [("hash", "root"), (a, "root")])
        for a, b in itertools.product(names, names):
            idx += 1
            if not run.mine(idx):
                continue
            for sel in ("root", "last"):
                do(dname, [(a, "root"), (b, sel)])
        if run.out_of_time(0.5):
            break
    # (2) templates: hash placement x view creation x write through the view / the root
    writers = groups["method"] + groups["numpy"]
    for dname in dnames:
        for v in groups["view"]:
            for w in writers:
                idx += 1
                if not run.mine(idx):
                    continue
                for hp in range(8):
                    h_before_view, h_root_after_view, h_view_after = hp & 1, hp & 2, hp & 4
                    for wsel in ("last", "root"):
                        prog = []
                        if h_before_view:
                            prog.append(("hash", "root"))
                        prog.append((v, "root"))
                        if h_root_after_view:
                            prog.append(("hash", "root"))
                        if h_view_after:
                            prog.append(("hash", "last"))
                        prog.append((w, wsel))
                        do(dname, prog)
        if run.out_of_time(0.8):
            run.count("templates_cut_short")
            break
    # (2a) edit, then write-protect, then look: the memo must not outlive the edit because the
    # array is read-only by the time the hash is asked for
    for dname in dnames:
        for w in writers:
            for fz in ("freeze", "freeze_setflags", "freeze_mutable"):
                idx += 1
                if not run.mine(idx):
                    continue
                do(dname, [("hash", "root"), (w, "root"), (fz, "root")])
                do(dname, [("hash", "root"), (w, "root"), (fz, "root"), ("hash", "root"), ("thaw", "root"), (w, "root")])
                do(dname, [("v_slice", "root"), ("hash", "last"), (w, "last"), (fz, "last")])
    # (2b) view-of-view chains
    for dname in ("f8_n3", "i8_n3", "u1_n4"):
        for v1, v2 in itertools.product(groups["view"], groups["view"]):
            idx += 1
            if not run.mine(idx):
                continue
            for w in ("setitem_int", "iadd", "fill", "copyto"):
                for hp in range(4):
                    prog = [("hash", "root")] if hp & 1 else []
                    prog += [(v1, "root")]
                    if hp & 2:
                        prog.append(("hash", "root"))
                    prog += [(v2, "last"), (w, "last")]
                    do(dname, prog)
    # (3) sampled longer programs
    maxlen = 4 if run.tier == "quick" else 6
    while not run.out_of_time(0.93):
        dname = dnames[run.rng.integers(len(dnames))]
        n = int(run.rng.integers(3, maxlen + 1))
        prog = []
        for _ in range(n):
            g = run.pyrng.choices(["method", "numpy", "view", "read", "hash"], [4, 3, 3, 1, 4])[0]
            prog.append((run.pyrng.choice(groups[g]), run.pyrng.choice(["root", "last", 1, 2])))
        do(dname, prog)
        if run.tier == "quick" and run.evaluations > 400000:
            break

    # (4) container level, with the icontract postcondition on the real __hash__
    ic = install_contract(run)
    try:
        container_checks(run)
    finally:
        if ic:
            caching.TrackedArray.__hash__ = ic[1]
    if ic:
        run.note("contract_TrackedArray.__hash___evaluations", ic[0]["n"])
        run.note("contract_TrackedArray.__hash___stale", ic[0]["bad"])
        if ic[0]["n"] == 0:
            run.inconclusive("TrackedArray.__hash__ postcondition never evaluated")
        if ic[0]["bad"]:
            run.violation("contract TrackedArray.__hash__ stale_in_container_workload",
                          "TrackedArray.__hash__ returned a memo that is not the hash of the bytes during library calls",
                          {"count": ic[0]["bad"]})


def replay(run, case):
    ops = _ops()
    by_name = {o.name: o for o in ops}
    bases = base_arrays()
    if isinstance(case, dict) and "program" in case:
        prog = [tuple(p) for p in case["program"]]
        run_program(run, case["dtype"], bases[case["dtype"]], prog, by_name)
        run.case("replay", case["dtype"], tuple(prog))
    else:
        container_checks(run)
