"""
C02 - content hash of tracked arrays always reflects their current bytes.

Monitor shape: history + executable reference model.  The model is "the bytes": after every
step of a program of numpy operations, every live TrackedArray (root and views) is *peeked*
(its __hash__() is evaluated and its bookkeeping attributes are restored afterwards, so the
observation does not perturb the dirty-flag state machine) and compared with
hash_fast(ascontiguousarray(x).tobytes()).  Explicit hash reads are operations of the
program, so they occur at every position.

A fresh->stale transition is classified by structural features only:
  self   route=<operation that wrote>                       the written object itself is stale
  alias  rel=<ancestor|descendant|sibling> wtype=<tracked|ndarray> [hashed_since_child=<yes|no>]

Container level (round 4 additions):
  colorvisuals colors=<default|derived|set> sym=...   colours the visual generated and handed out
                                                      are edited in place (edit x pre-reads x attr)
  derived_alias route=<library function [given=...]>  every object the library derives from a mesh /
                                                      path, and every setter given an array of another
                                                      object, is scanned for a *second* tracked array
                                                      over the source's memory; one owner is then
                                                      written with an in-place operator and the hash
                                                      of the other owner is judged
  contract ... stale_memo caller=<qualname>           which library function was handed a stale memo
"""

from __future__ import annotations

import itertools

import numpy as np

PROP = "C02"
LEVEL = "exploration"
RULE = (
    "programs of numpy operations (overridden mutators, other numpy write routes, view creation, "
    "byte-preserving reads, explicit hash reads) on a TrackedArray and its views; all programs of "
    "length <=2 enumerated per dtype/shape, view/hash/write templates of length 3-4 enumerated, longer "
    "ones sampled (a quarter of them on a root owning its memory); plus container-level edits (mesh, path, "
    "visuals incl. generated colours, scene, datastore) and a scan of 43 library routes (derived objects, "
    "setters given arrays of another object) for second tracked wrappers of one buffer. A case is one "
    "program; distinct = distinct (dtype, op sequence with targets); non-trivial = at least one step "
    "changed the bytes of a live tracked array after a hash read of an aliasing object (so a stale "
    "memo was possible)."
)
ANCHORS = [
    "trimesh/caching.py:TrackedArray.__hash__",
    "trimesh/caching.py:TrackedArray.__array_finalize__",
    "trimesh/caching.py:TrackedArray.__setitem__",
    "trimesh/caching.py:TrackedArray.__iadd__",
    "trimesh/caching.py:TrackedArray.sort",
    "trimesh/caching.py:TrackedArray.fill",
    "trimesh/caching.py:TrackedArray.put",
    "trimesh/caching.py:DataStore.__hash__",
    "trimesh/caching.py:tracked_array",
    "trimesh/parent.py:Geometry.__hash__",
    "trimesh/path/path.py:Path.__hash__",
    "trimesh/scene/scene.py:Scene.__hash__",
    "trimesh/visual/color.py:ColorVisuals.__hash__",
    "trimesh/visual/color.py:ColorVisuals._get_colors",
    "trimesh/path/path.py:Path.vertices",
    "trimesh/base.py:Trimesh.outline",
]
SHARDS = {"quick": 1, "thorough": 12}
BUDGET = {"quick": 45, "thorough": 420}
MIN_EVENTS = {"quick": 2000, "thorough": 20000}
ASSUMPTIONS = [
    "hash_fast (xxhash) collisions are negligible: 'hash changed' is used as 'bytes changed'",
    "peeking a hash and restoring the instance __dict__ does not perturb the array",
]

_MISSING = object()


def _bytes_hash(x):
    from trimesh.caching import hash_fast

    return hash_fast(np.ascontiguousarray(np.asarray(x)).tobytes())


def peek(x):
    """__hash__() of a TrackedArray without changing its bookkeeping."""
    saved = dict(x.__dict__)
    try:
        return x.__hash__()
    finally:
        x.__dict__.clear()
        x.__dict__.update(saved)


# ----------------------------------------------------------------------------
# base arrays


def base_arrays():
    out = {}
    out["f8_n3"] = (np.arange(12, dtype=np.float64).reshape(4, 3) * 0.5 + 0.25)
    out["i8_n3"] = np.array([[0, 1, 2], [2, 1, 3], [3, 0, 1], [4, 5, 0]], dtype=np.int64)
    out["u1_n4"] = (np.arange(16, dtype=np.uint8).reshape(4, 4) * 7 + 3)
    out["f8_44"] = np.eye(4) + np.arange(16, dtype=np.float64).reshape(4, 4) * 0.125
    out["b_232"] = (np.arange(12).reshape(2, 3, 2) % 3 == 0)
    out["f8_03"] = np.zeros((0, 3), dtype=np.float64)
    # coordinates near the largest double: `+=` / `-=` overflow (only used with the raising writers)
    out["f8_big"] = out["f8_n3"] * 3e307 * np.array([1.0, -1.0, 1.0])
    return out


RAISES_ONLY_BASES = ("f8_big",)


# ----------------------------------------------------------------------------
# operations.  Each takes the target array T (root or a view) and the program state and
# either mutates T, returns a new live object (views / copies), or just reads.


def _val(T):
    if T.dtype == bool:
        return True
    return 3


class Op:
    def __init__(self, name, group, fn, ext=False):
        self.name, self.group, self.fn = name, group, fn
        # ext: one of the many further numpy write routes (round 4); they are run in every
        # position of the templates but not paired with each other in the length-2 enumeration
        self.ext = ext


def _plain(T):
    """
    Base-class copy of T.  Operands of the write routes must not be *derived* from T as a
    TrackedArray (`T.copy()`, `T[::-1]`, `T + 1`): __array_finalize__ flags the source of every
    derived tracked array as dirty, which repairs the memo by accident and hides the route.
    """
    return np.array(T)


def _other(T):
    """Base-class array of T's shape and dtype in which every element differs from T's."""
    P = np.array(T)
    if P.dtype == bool:
        return ~P
    return P + 1  # uint8 wraps


def _eye(T):
    return np.eye(T.shape[-1], dtype=T.dtype)


def _aliased(T, live):
    """Does another live object of the program look at T's memory?"""
    for l in live or ():
        if l.obj is not T and np.shares_memory(l.obj, T):
            return True
    return False


def _mask(T):
    m = np.zeros(T.shape, dtype=bool)
    if m.size:
        m.flat[:: 2] = True
    return m


def _zero_last(T, value=2, last=0, dtype=None):
    """Base-class operand of T's shape: `value` everywhere, `last` in the last place."""
    d = np.full(T.shape, value, dtype=dtype or T.dtype)
    if d.size:
        d.flat[-1] = last
    return d


class _Unconvertible:
    """A value numpy cannot convert to any dtype the library stores."""

    def _no(self, *a):
        raise ValueError("not a number")

    __float__ = __int__ = __index__ = __bool__ = __complex__ = _no


def _bad_last(P):
    """Object array of the values of P whose last element cannot be converted."""
    if P.ndim == 0 or P.size < 2:
        raise TypeError("n/a")
    o = P.astype(object)
    o.flat[-1] = _Unconvertible()
    return o


def _ops():
    ops = []

    def add(name, group):
        def deco(fn):
            ops.append(Op(name, group, fn))
            return fn

        return deco

    # ---- overridden mutators (group "method")
    @add("setitem_int", "method")
    def _(T, st):
        T[0] = _val(T)

    @add("setitem_slice", "method")
    def _(T, st):
        T[1:] = _val(T)

    @add("setitem_mask", "method")
    def _(T, st):
        T[_mask(T)] = _val(T)

    @add("setitem_fancy", "method")
    def _(T, st):
        T[[0, -1]] = _val(T)

    @add("setitem_ellipsis", "method")
    def _(T, st):
        T[...] = _val(T)

    @add("setitem_tuple", "method")
    def _(T, st):
        T[(0,) * T.ndim] = _val(T)

    def inplace(name, fn, group="method"):
        ops.append(Op(name, group, fn))

    def _iadd(T, st):
        T += _val(T)

    def _isub(T, st):
        T -= _val(T)

    def _imul(T, st):
        T *= _val(T)

    def _itruediv(T, st):
        T /= 2

    def _ifloordiv(T, st):
        T //= 2

    def _imod(T, st):
        T %= 2

    def _ipow(T, st):
        T **= 2

    def _imatmul(T, st):
        T @= np.full((T.shape[-1], T.shape[-1]), 2, dtype=T.dtype)

    def _ilshift(T, st):
        T <<= 1

    def _irshift(T, st):
        T >>= 1

    def _iand(T, st):
        T &= np.array(5).astype(T.dtype)

    def _ixor(T, st):
        T ^= np.array(5).astype(T.dtype)

    def _ior(T, st):
        T |= np.array(5).astype(T.dtype)

    for n, f in [
        ("iadd", _iadd), ("isub", _isub), ("imul", _imul), ("itruediv", _itruediv),
        ("ifloordiv", _ifloordiv), ("imod", _imod), ("ipow", _ipow), ("imatmul", _imatmul),
        ("ilshift", _ilshift), ("irshift", _irshift), ("iand", _iand), ("ixor", _ixor),
        ("ior", _ior),
    ]:
        inplace(n, f)

    @add("fill", "method")
    def _(T, st):
        T.fill(_val(T))

    @add("sort", "method")
    def _(T, st):
        T.sort(axis=0)

    @add("sort_desc_prep", "method")
    def _(T, st):
        # reverse rows then sort: guarantees sort has something to do
        T[...] = T[::-1].copy()
        T.sort(axis=0)

    @add("partition", "method")
    def _(T, st):
        T[...] = T[::-1].copy()
        T.partition(1, axis=0)

    @add("put", "method")
    def _(T, st):
        T.put([0, 1], _val(T))

    @add("np_put", "method")
    def _(T, st):
        np.put(T, [0, 2], _val(T))

    @add("byteswap_inplace", "method")
    def _(T, st):
        T.byteswap(inplace=True)

    @add("setflags", "method")
    def _(T, st):
        T.setflags(write=True)

    # ---- other numpy write routes (group "numpy")
    @add("ufunc_out", "numpy")
    def _(T, st):
        if T.dtype == bool:
            np.logical_not(T, out=T)
        else:
            np.add(T, 1, out=T)

    @add("ufunc_out_kw_tuple", "numpy")
    def _(T, st):
        if T.dtype == bool:
            np.logical_not(T, out=(T,))
        else:
            np.multiply(T, 2, out=(T,))

    @add("copyto", "numpy")
    def _(T, st):
        np.copyto(T, _val(T))

    @add("flat_setitem", "numpy")
    def _(T, st):
        T.flat[0] = _val(T)

    @add("flat_setslice", "numpy")
    def _(T, st):
        T.flat[:] = _val(T)

    @add("ufunc_at", "numpy")
    def _(T, st):
        if T.dtype == bool:
            np.logical_not.at(T, [0])
        else:
            np.add.at(T, [0, 0], 1)

    @add("place", "numpy")
    def _(T, st):
        np.place(T, _mask(T), [_val(T)])

    @add("putmask", "numpy")
    def _(T, st):
        np.putmask(T, _mask(T), _val(T))

    @add("fill_diagonal", "numpy")
    def _(T, st):
        np.fill_diagonal(T, _val(T))

    @add("clip_out", "numpy")
    def _(T, st):
        T.clip(0, 1, out=T)

    @add("round_out", "numpy")
    def _(T, st):
        np.round(T, 0, out=T)

    @add("cumsum_out", "numpy")
    def _(T, st):
        np.cumsum(T, axis=0, out=T)

    @add("ndarray_setitem", "numpy")
    def _(T, st):
        np.ndarray.__setitem__(T, 0, _val(T))

    @add("ndarray_sort", "numpy")
    def _(T, st):
        np.ndarray.__setitem__  # noqa
        T2 = T
        np.ndarray.__setitem__(T2, Ellipsis, T2[::-1].copy())
        np.ndarray.sort(T2, axis=0)

    @add("memoryview_write", "numpy")
    def _(T, st):
        mv = memoryview(T).cast("B")
        mv[0] = mv[0] ^ 0xFF

    @add("take_out", "numpy")
    def _(T, st):
        np.take(_other(T), np.arange(T.shape[0]), axis=0, out=T)

    # ---- round 4: further routes.  (a) functions and ufunc methods writing through `out=`
    def ext(name, group="numpy"):
        def deco(fn):
            ops.append(Op(name, group, fn, ext=True))
            return fn

        return deco

    @ext("dot_out")
    def _(T, st):
        np.dot(_other(T), _eye(T), out=T)

    @ext("matmul_out")
    def _(T, st):
        np.matmul(_other(T), _eye(T), out=T)

    @ext("einsum_out")
    def _(T, st):
        np.einsum("...->...", _other(T), out=T)

    @ext("choose_out")
    def _(T, st):
        np.choose(np.zeros(T.shape, dtype=np.intp), [_other(T)], out=T)

    @ext("concatenate_out")
    def _(T, st):
        O = _other(T)
        np.concatenate([O[:1], O[1:]], axis=0, out=T)

    @ext("compress_out")
    def _(T, st):
        np.compress(np.ones(T.shape[0], dtype=bool), _other(T), axis=0, out=T)

    @ext("sum_out")
    def _(T, st):
        O = _other(T)
        np.sum(np.stack([O, np.zeros_like(O)]), axis=0, out=T)

    @ext("mean_out")
    def _(T, st):
        O = _other(T)
        np.mean(np.stack([O, O]), axis=0, out=T)

    @ext("max_out")
    def _(T, st):
        O = _other(T)
        np.max(np.stack([O, O]), axis=0, out=T)

    @ext("cumprod_out")
    def _(T, st):
        np.cumprod(_other(T), axis=0, out=T)

    @ext("ndarray_sum_out")
    def _(T, st):
        O = _other(T)
        np.stack([O, np.zeros_like(O)]).sum(axis=0, out=T)

    @ext("ndarray_dot_method_out")
    def _(T, st):
        _other(T).dot(_eye(T), out=T)

    @ext("ufunc_reduce_out")
    def _(T, st):
        O = _other(T)
        np.add.reduce(np.stack([O, np.zeros_like(O)]), axis=0, out=T)

    @ext("ufunc_accumulate_out")
    def _(T, st):
        np.add.accumulate(_other(T), axis=0, out=T)

    @ext("ufunc_reduceat_out")
    def _(T, st):
        O = _other(T)
        np.add.reduceat(O, np.arange(O.shape[0]), axis=0, out=T)

    @ext("ufunc_out_positional")
    def _(T, st):
        O = _other(T)
        np.maximum(O, O, T)

    @ext("ufunc_out_where")
    def _(T, st):
        O = _other(T)
        np.maximum(O, O, out=T, where=np.ones(T.shape, dtype=bool))

    @ext("ufunc_out_two_outputs")
    def _(T, st):
        O = _other(T)
        np.divmod(O, 1, out=(T, np.empty_like(O)))

    @ext("put_along_axis")
    def _(T, st):
        np.put_along_axis(T, np.zeros((1,) + T.shape[1:], dtype=np.intp), _other(T)[:1], axis=0)

    # (b) in-place methods and assignable attributes of the array itself
    @ext("resize")
    def _(T, st):
        # refcheck=False reallocates under every view: only for an owner nobody else looks at
        if not T.flags.owndata or _aliased(T, st):
            raise TypeError("n/a")
        T.resize((T.shape[0] + 1,) + T.shape[1:], refcheck=False)

    @ext("setstate")
    def _(T, st):
        # __setstate__ frees the buffer of an owner (a view only lets go of its base)
        if T.flags.owndata and _aliased(T, st):
            raise TypeError("n/a")
        T.__setstate__(_other(T).__reduce__()[2])

    @ext("real_setter")
    def _(T, st):
        T.real = _other(T)

    @ext("imag_setter")
    def _(T, st):
        T.imag = _other(T)

    @ext("strides_setter")
    def _(T, st):
        T.strides = (0,) + T.strides[1:]

    @ext("setfield")
    def _(T, st):
        T.setfield(_other(T), T.dtype, 0)

    # (c) writers implemented in C which never call back into Python
    @ext("nditer_readwrite")
    def _(T, st):
        with np.nditer([T, _other(T)], op_flags=[["readwrite"], ["readonly"]]) as it:
            for x, y in it:
                x[...] = y

    @ext("nditer_writeonly_buffered")
    def _(T, st):
        with np.nditer([T, _other(T)], flags=["buffered", "external_loop"],
                       op_flags=[["writeonly"], ["readonly"]]) as it:
            for x, y in it:
                x[...] = y

    @ext("generator_random_out")
    def _(T, st):
        np.random.default_rng(0).random(out=T)

    @ext("generator_standard_normal_out")
    def _(T, st):
        np.random.default_rng(0).standard_normal(out=T)

    @ext("generator_standard_exponential_out")
    def _(T, st):
        np.random.default_rng(0).standard_exponential(out=T)

    @ext("generator_standard_gamma_out")
    def _(T, st):
        np.random.default_rng(0).standard_gamma(2.0, out=T)

    @ext("generator_shuffle")
    def _(T, st):
        np.random.default_rng(0).shuffle(T)

    @ext("randomstate_shuffle")
    def _(T, st):
        np.random.RandomState(0).shuffle(T)

    @ext("readinto")
    def _(T, st):
        import io

        io.BytesIO(_other(T).tobytes()).readinto(T)

    @ext("pack_into")
    def _(T, st):
        import struct

        first = memoryview(T).cast("B")[0]
        struct.pack_into("B", T, 0, first ^ 0xFF)

    # ---- round 5: overridden mutators which WRITE AND THEN RAISE (group "raises").  numpy stores
    # first and reports afterwards in several places: in-place operators under
    # `np.errstate(...="raise")` (the whole result is stored, then the floating point flags are
    # looked at), `put` in its default mode (indices are checked while writing), assignment of
    # values whose conversion fails late (elements are converted one by one into the target).
    # The program survives the exception (run_program catches it) and reads hashes afterwards.
    # Where the dtype makes numpy refuse the call before writing, the step is a byte-preserving
    # one - judged all the same.  Kept out of the length-2 enumeration (phase 2d drives them).
    def raises(name):
        def deco(fn):
            def wrapped(T, st):
                with np.errstate(all="raise"):
                    fn(T, st)

            ops.append(Op(name, "raises", wrapped))
            return fn

        return deco

    @raises("itruediv_zero_divisor")
    def _(T, st):
        T /= _zero_last(T)

    @raises("ifloordiv_zero_divisor")
    def _(T, st):
        T //= _zero_last(T)

    @raises("imod_zero_divisor")
    def _(T, st):
        T %= _zero_last(T)

    @raises("imul_overflow")
    def _(T, st):
        T *= np.full(T.shape, 1e308)

    @raises("ipow_overflow")
    def _(T, st):
        T **= 5000

    @raises("ipow_negative_integer_exponent")
    def _(T, st):
        T **= _zero_last(T, 2, last=-1, dtype=np.int64)

    @raises("iadd_overflow")
    def _(T, st):
        T += np.array(T)  # overflows where |x| > max / 2 (base f8_big)

    @raises("isub_overflow")
    def _(T, st):
        T -= -np.array(T)

    @raises("put_late_bad_index")
    def _(T, st):
        T.put([0, 1, 2, T.size + 5], _other(T).ravel()[:4])

    @raises("np_put_late_bad_index")
    def _(T, st):
        np.put(T, [1, 0, T.size + 5, 2], _other(T).ravel()[:4])

    @raises("put_late_bad_index_kw")
    def _(T, st):
        T.put(indices=[0, -T.size - 3], values=_other(T).ravel()[:2], mode="raise")

    @raises("setitem_late_conversion_failure")
    def _(T, st):
        T[...] = _bad_last(_other(T))

    @raises("setitem_slice_late_conversion_failure")
    def _(T, st):
        T[1:] = _bad_last(_other(T)[1:])

    @raises("setitem_row_sequence_late_conversion_failure")
    def _(T, st):
        T[0] = _bad_last(_other(T)[0]).tolist()

    @raises("setitem_mask_late_conversion_failure")
    def _(T, st):
        m = _mask(T)
        T[m] = _bad_last(_other(T)[m])

    @raises("setitem_strings_late_conversion_failure")
    def _(T, st):
        words = [repr(x) for x in _other(T).ravel().tolist()]
        words[-1] = "x"
        T[...] = np.array(words).reshape(T.shape)

    # ---- view creation (group "view") -> returns the new live object
    @add("v_slice", "view")
    def _(T, st):
        return T[1:]

    @add("v_stride", "view")
    def _(T, st):
        return T[::2]

    @add("v_col", "view")
    def _(T, st):
        return T[..., 0]

    @add("v_T", "view")
    def _(T, st):
        return T.T

    @add("v_reshape", "view")
    def _(T, st):
        return T.reshape(-1)

    @add("v_ravel", "view")
    def _(T, st):
        return T.ravel()

    @add("v_view", "view")
    def _(T, st):
        return T.view()

    @add("v_asarray", "view")
    def _(T, st):
        return np.asarray(T)

    @add("v_view_ndarray", "view")
    def _(T, st):
        return T.view(np.ndarray)

    @add("v_squeeze", "view")
    def _(T, st):
        return T.squeeze()

    @add("v_swapaxes", "view")
    def _(T, st):
        return T.swapaxes(0, -1)

    @add("v_newaxis", "view")
    def _(T, st):
        return T[None]

    @add("v_row", "view")
    def _(T, st):
        return T[0]

    @add("v_uint8", "view")
    def _(T, st):
        return T.view(np.uint8)

    @add("v_frombuffer", "view")
    def _(T, st):
        return np.frombuffer(T, dtype=T.dtype).reshape(T.shape)

    @add("v_as_strided", "view")
    def _(T, st):
        return np.lib.stride_tricks.as_strided(T)

    # ---- byte-preserving (group "read"); copies are returned so they become live objects
    @add("shape_setter", "read")
    def _(T, st):
        T.shape = (-1,)

    @add("dtype_setter", "read")
    def _(T, st):
        T.dtype = np.uint8

    @add("r_copy", "read")
    def _(T, st):
        return T.copy()

    @add("r_sum", "read")
    def _(T, st):
        T.sum()

    @add("r_add1", "read")
    def _(T, st):
        return T + 1

    @add("r_eq", "read")
    def _(T, st):
        T == T

    @add("r_astype", "read")
    def _(T, st):
        return T.astype(np.float32)

    @add("r_tolist", "read")
    def _(T, st):
        T.tolist()

    @add("r_npsort", "read")
    def _(T, st):
        np.sort(T, axis=0)

    @add("r_mean", "read")
    def _(T, st):
        if T.size:
            T.mean()

    @add("r_repr", "read")
    def _(T, st):
        repr(T)

    @add("r_tracked_again", "read")
    def _(T, st):
        from trimesh.caching import tracked_array

        return tracked_array(T)

    # ---- write-protection flags (byte preserving): a dirty flag must survive a freeze
    @add("freeze", "read")
    def _(T, st):
        T.flags.writeable = False

    @add("freeze_setflags", "read")
    def _(T, st):
        np.ndarray.setflags(T, write=False)

    @add("freeze_mutable", "read")
    def _(T, st):
        T.mutable = False

    @add("thaw", "read")
    def _(T, st):
        try:
            T.flags.writeable = True
        except ValueError:
            pass

    # ---- hash read
    @add("hash", "hash")
    def _(T, st):
        T.__hash__()

    return ops


# ----------------------------------------------------------------------------
# program interpreter


class Live:
    __slots__ = ("obj", "parent", "born", "last_hash", "stale", "kind", "via_base")

    def __init__(self, obj, parent, born, kind):
        self.obj, self.parent, self.born, self.kind = obj, parent, born, kind
        self.last_hash = -1  # step index of the last explicit hash read of this object
        self.stale = False
        # created through a base-class ndarray (np.asarray, view(np.ndarray), tracked_array of
        # an existing array): __array_finalize__ never sees the tracked parent on that route
        self.via_base = (not _is_tracked(obj)) or kind == "r_tracked_again"


def _is_tracked(x):
    from trimesh.caching import TrackedArray

    return isinstance(x, TrackedArray)


def _ancestors(live, i):
    out = []
    p = live[i].parent
    while p is not None:
        out.append(p)
        p = live[p].parent
    return out


def run_program(run, dname, base, prog, ops_by_name):
    """
    prog: list of (opname, target_selector) with selector "root" | "last" | int index.
    Returns (nontrivial, steps)
    """
    from trimesh.caching import tracked_array

    root = tracked_array(base.copy())
    if dname.endswith("+own"):
        # the arrays of `mesh.copy()` and of `mesh.vertices = mesh.vertices * 2` own their
        # memory; `tracked_array(x)` is a view of x.  Only an owner can be resized.
        root = root.copy()
    live = [Live(root, None, -1, "root")]
    nontrivial = False
    for step, (opname, sel) in enumerate(prog):
        op = ops_by_name[opname]
        if sel == "root":
            ti = 0
        elif sel == "last":
            ti = len(live) - 1
        else:
            ti = min(int(sel), len(live) - 1)
        T = live[ti].obj
        before = [np.ascontiguousarray(np.asarray(l.obj)).tobytes() for l in live]
        try:
            res = op.fn(T, live)
        except Exception:
            res = None
            run.count("op_raised")
        run.count("ops_" + op.group)
        if op.group == "hash":
            live[ti].last_hash = step
        if isinstance(res, np.ndarray) and res.ndim > 0 and not any(res is l.obj for l in live):
            if len(live) < 6:
                live.append(Live(res, ti if np.shares_memory(res, T) else None, step, opname))
        # --- oracle: every live tracked object reports the hash of its bytes
        for i, l in enumerate(live):
            if not _is_tracked(l.obj):
                continue
            now = np.ascontiguousarray(np.asarray(l.obj)).tobytes()
            changed = i < len(before) and now != before[i]
            if changed and l.last_hash >= 0:
                nontrivial = True
            run.count("hash_checks")
            ok = peek(l.obj) == _bytes_hash(l.obj)
            if ok:
                l.stale = False
                continue
            if l.stale and not changed:
                continue  # already reported, nothing new happened to it
            l.stale = True
            # ---- classify
            if i == ti:
                key = "self route=%s:%s" % (op.group, op.name)
                what = "array written through `%s` keeps its memoised hash" % op.name
            else:
                W = live[ti]
                wtype = "tracked" if _is_tracked(W.obj) else "ndarray"
                anc_of_w = _ancestors(live, ti)
                if i in anc_of_w:
                    # first child of i on the chain to W
                    chain = [ti] + anc_of_w
                    child = chain[chain.index(i) - 1]
                    hs = "yes" if l.last_hash > live[child].born else "no"
                    links = chain[: chain.index(i)]
                    link = "ndarray" if any(live[c].via_base for c in links) else "tracked"
                    key = "alias rel=ancestor link=%s hashed_since_child=%s" % (link, hs)
                elif ti in _ancestors(live, i):
                    key = "alias rel=descendant wtype=%s" % wtype
                else:
                    key = "alias rel=sibling wtype=%s" % wtype
                what = "write through another object sharing memory (`%s`) leaves this array's hash stale" % op.name
            run.state("stale_route", key)
            run.violation(
                key,
                what,
                {"dtype": dname, "program": prog, "step": step, "stale_object": i,
                 "live_kinds": [l2.kind for l2 in live]},
            )
    run.state("route_dirty", (prog[-1][0], live[0].last_hash >= 0))
    return nontrivial


# ----------------------------------------------------------------------------
# container level


def _fresh_mesh(m):
    import trimesh

    f = trimesh.Trimesh(vertices=np.array(m.vertices).copy(), faces=np.array(m.faces).copy(), process=False)
    return f


def _raising_edits():
    """
    name -> edit(array): an overridden in-place operator or method which numpy ends with an
    exception AFTER it stored (part of) the result; the exception is caught as a program would.
    An edit numpy refuses outright for the dtype (or completes) is not a member of the class:
    it says so with NotImplementedError and the harness skips the case.
    """

    def survive(fn):
        def edit(a):
            b0 = np.array(a).tobytes()
            try:
                with np.errstate(all="raise"):
                    fn(a)
            except (FloatingPointError, IndexError, ValueError, TypeError):
                if np.array(a).tobytes() != b0:
                    return
            raise NotImplementedError("not a store-then-raise edit for this dtype")

        return edit

    def div(a):
        a /= _zero_last(a)

    def floordiv(a):
        a //= _zero_last(a)

    def mod(a):
        a %= _zero_last(a)

    def mul(a):
        a *= np.full(a.shape, 1.7e308)

    def power(a):
        a **= 5000

    def put(a):
        a.put([0, 1, 2, a.size + 5], _other(a).ravel()[:4])

    def setitem(a):
        a[...] = _bad_last(_other(a))

    def setitem_rows(a):
        a[1:3] = _bad_last(_other(a)[1:3])

    for name, fn in (("itruediv_zero_divisor", div), ("ifloordiv_zero_divisor", floordiv),
                     ("imod_zero_divisor", mod), ("imul_overflow", mul), ("ipow_overflow", power),
                     ("put_late_bad_index", put), ("setitem_late_conversion_failure", setitem),
                     ("setitem_rows_late_conversion_failure", setitem_rows)):
        yield name + "_raises", survive(fn)


def container_checks(run):
    import trimesh
    from trimesh.caching import DataStore

    box = trimesh.creation.box()
    ico = trimesh.creation.icosphere(subdivisions=1)

    def mesh_edits():
        yield "v_setitem", lambda m: m.vertices.__setitem__((0, 0), 5.5), True
        yield "v_iadd", lambda m: m.vertices.__iadd__(1.0), True
        yield "v_slice_assign", lambda m: m.vertices.__setitem__(slice(1, 3), 2.0), True
        yield "f_setitem", lambda m: m.faces.__setitem__(0, m.faces[0][::-1].copy()), True
        yield "f_sort", lambda m: m.faces.sort(axis=1), True
        yield "v_reassign", lambda m: setattr(m, "vertices", np.array(m.vertices) * 2.0), True
        yield "f_reassign", lambda m: setattr(m, "faces", np.array(m.faces)[::-1].copy()), True
        yield "v_reassign_same", lambda m: setattr(m, "vertices", np.array(m.vertices).copy()), False

        def none_then_back(attr):
            def f(m):
                keep = np.array(getattr(m, attr)).copy()
                setattr(m, attr, None)
                setattr(m, attr, keep)

            return f

        # cleared and assigned again: same bytes, so the same hash as any mesh holding them
        yield "v_none_then_reassign", none_then_back("vertices"), False
        yield "f_none_then_reassign", none_then_back("faces"), False
        yield "read_area", lambda m: m.area, False
        yield "read_normals", lambda m: m.face_normals, False
        yield "read_copy", lambda m: m.copy(), False
        yield "read_hash", lambda m: m.__hash__(), False
        yield "v_mul_1", lambda m: m.vertices.__imul__(1.0), False
        yield "apply_identity", lambda m: m.apply_transform(np.eye(4)), False
        yield "apply_translation", lambda m: m.apply_translation([1, 2, 3]), True
        yield "density", lambda m: setattr(m, "density", 3.5), True
        # round 5: in-place operators / methods which store and then raise; the caller survives
        for rname, redit in _raising_edits():
            yield "v_" + rname, (lambda m, e=redit: e(m.vertices)), True
            yield "f_" + rname, (lambda m, e=redit: e(m.faces)), True

    for base_name, base in (("box", box), ("ico", ico)):
        for name, edit, changes in mesh_edits():
            for pre_read in (False, True):
                m = base.copy()
                if pre_read:
                    m.__hash__()
                    m.vertices.__hash__()
                    m.faces.__hash__()
                h0 = m.__hash__() if pre_read else base.copy().__hash__()
                b0 = (np.array(m.vertices).tobytes(), np.array(m.faces).tobytes())
                try:
                    edit(m)
                except Exception as e:
                    run.skip("container edit raised %s" % type(e).__name__)
                    continue
                b1 = (np.array(m.vertices).tobytes(), np.array(m.faces).tobytes())
                h1 = m.__hash__()
                bytes_changed = b0 != b1 or name == "density"
                run.case("container:mesh:" + name, base_name, pre_read, nontrivial=pre_read)
                run.count("container_checks")
                # reference: a fresh mesh from the same arrays
                fresh = _fresh_mesh(m)
                if name != "density":
                    if fresh.__hash__() != h1:
                        run.violation(
                            "container kind=mesh edit=%s sym=differs_from_fresh" % name,
                            "mesh hash differs from the hash of a fresh mesh with the same arrays",
                            {"mesh": base_name, "edit": name, "pre_read": pre_read},
                        )
                if bytes_changed and h1 == h0:
                    run.violation(
                        "container kind=mesh edit=%s sym=hash_unchanged" % name,
                        "bytes changed but the mesh hash did not",
                        {"mesh": base_name, "edit": name, "pre_read": pre_read},
                    )
                if not bytes_changed and h1 != h0:
                    run.violation(
                        "container kind=mesh edit=%s sym=hash_changed" % name,
                        "bytes unchanged but the mesh hash changed",
                        {"mesh": base_name, "edit": name, "pre_read": pre_read},
                    )

    # two independently built equal meshes hash equal, in either construction order
    for base in (box, ico):
        a = trimesh.Trimesh(np.array(base.vertices), np.array(base.faces), process=False)
        b = trimesh.Trimesh(faces=np.array(base.faces).copy(), vertices=np.array(base.vertices).copy(), process=False)
        _ = b.face_normals, b.area
        run.case("container:equal_meshes", len(base.faces))
        if a.__hash__() != b.__hash__():
            run.violation("container kind=mesh sym=equal_arrays_differ", "two meshes with equal arrays hash differently", {})

    # one TrackedArray handed to two owners: an edit through either handle must show in both
    # hashes (the store keeps the object it was given, it does not re-wrap it in a view)
    for how in ("constructor", "assign", "datastore"):
        a = trimesh.Trimesh(np.array(box.vertices), np.array(box.faces), process=False)
        if how == "constructor":
            b = trimesh.Trimesh(vertices=a.vertices, faces=a.faces, process=False)
            hb = lambda: b.__hash__()  # noqa
        elif how == "assign":
            b = trimesh.Trimesh(np.array(ico.vertices), np.array(ico.faces), process=False)
            b.vertices = a.vertices
            b.faces = a.faces
            hb = lambda: b.__hash__()  # noqa
        else:
            b = DataStore()
            b["v"] = a.vertices
            hb = lambda: b.__hash__()  # noqa
        h0a, h0b = a.__hash__(), hb()
        _ = a.bounds
        # (since 60523ef a mesh copies a writeable array it is handed: the scenario only exists
        # where the second owner really holds the memory of the first; otherwise the second
        # owner must simply be unaffected)
        other = b["v"] if how == "datastore" else b.vertices
        shared = bool(np.shares_memory(np.asarray(a.vertices), np.asarray(other)))
        other_bytes = np.asarray(other).tobytes()
        a.vertices[:, 2] *= 4.0
        run.case("container:shared_tracked_array:" + how)
        run.count("container_checks")
        run.count("shared_tracked_array:" + ("memory_shared" if shared else "second_owner_got_a_copy"))
        if a.__hash__() == h0a:
            run.violation("container kind=mesh scenario=shared_tracked_array:%s owner=editor sym=hash_unchanged" % how,
                          "hash of the mesh that was edited did not change", {"how": how})
        if not shared:
            if np.asarray(other).tobytes() != other_bytes or hb() != h0b:
                run.violation("container kind=mesh scenario=shared_tracked_array:%s owner=other sym=changed_without_sharing" % how,
                              "the second owner holds its own memory but its bytes or hash changed with an edit of the first", {"how": how})
            continue
        if hb() == h0b:
            run.violation("container kind=mesh scenario=shared_tracked_array:%s owner=other sym=hash_unchanged" % how,
                          "a TrackedArray shared by two owners was edited through one of them; the other owner's hash did not change",
                          {"how": how})
        if how != "datastore" and b.__hash__() != a.__hash__():
            run.violation("container kind=mesh scenario=shared_tracked_array:%s sym=equal_arrays_differ" % how,
                          "two meshes holding the same arrays hash differently", {"how": how})

    # DataStore: member edits and equality
    ds1, ds2 = DataStore(), DataStore()
    ds1["a"] = np.arange(6.0).reshape(2, 3)
    ds1["b"] = np.arange(4)
    ds2["a"] = np.arange(6.0).reshape(2, 3)
    ds2["b"] = np.arange(4)
    run.case("container:datastore_equal")
    if ds1.__hash__() != ds2.__hash__():
        run.violation("container kind=datastore sym=equal_differ", "equal DataStores hash differently", {})
    for key in ("a", "b"):
        h0 = ds1.__hash__()
        ds1[key][0] = 9
        run.case("container:datastore_edit", key)
        if ds1.__hash__() == h0:
            run.violation("container kind=datastore member=%s sym=hash_unchanged" % key,
                          "DataStore hash ignores a member edit", {"member": key})
    # order of insertion with equal content: the statement says equal arrays hash equal
    # for meshes; DataStore insertion order is not part of it, so it is not judged.

    # Path2D / Path3D
    import trimesh.path
    from trimesh.path.entities import Line

    def mkpath():
        return trimesh.path.Path2D(
            entities=[Line([0, 1, 2, 3, 0])],
            vertices=np.array([[0, 0], [2, 0], [2, 1], [0, 1.0]]),
            process=False,
        )

    p, q = mkpath(), mkpath()
    run.case("container:path_equal")
    if p.__hash__() != q.__hash__():
        run.violation("container kind=path sym=equal_differ", "equal paths hash differently", {})
    for name, edit in (
        ("v_setitem", lambda x: x.vertices.__setitem__((1, 0), 3.0)),
        ("v_iadd", lambda x: x.vertices.__iadd__(0.5)),
        ("v_reassign", lambda x: setattr(x, "vertices", np.array(x.vertices) * 2)),
        ("apply_transform", lambda x: x.apply_transform(np.array([[1, 0, 4], [0, 1, 0], [0, 0, 1.0]]))),
        ("entity_points", lambda x: setattr(x.entities[0], "points", np.array([0, 1, 2, 0]))),
    ) + tuple(("v_" + rn, (lambda x, e=re_: e(x.vertices))) for rn, re_ in _raising_edits()):
        for pre in (False, True):
            x = mkpath()
            h0 = x.__hash__()
            if pre:
                _ = x.area, x.length
            try:
                edit(x)
            except NotImplementedError:
                run.skip("not a store-then-raise edit for this dtype")
                continue
            run.case("container:path:" + name, pre)
            if x.__hash__() == h0:
                run.violation("container kind=path edit=%s sym=hash_unchanged" % name,
                              "path hash unchanged after an edit", {"edit": name, "pre": pre})
    x = mkpath()
    h0 = x.__hash__()
    _ = x.area, x.length, x.polygons_full, x.copy()
    run.case("container:path:reads")
    if x.__hash__() != h0:
        run.violation("container kind=path edit=reads sym=hash_changed", "path hash changed by reads", {})

    # ColorVisuals
    for mode in ("face", "vertex"):
        m = box.copy()
        if mode == "face":
            m.visual.face_colors = np.tile([10, 20, 30, 255], (len(m.faces), 1)).astype(np.uint8)
            h0 = m.visual.__hash__()
            m.visual.face_colors[0] = [1, 2, 3, 255]
        else:
            m.visual.vertex_colors = np.tile([10, 20, 30, 255], (len(m.vertices), 1)).astype(np.uint8)
            h0 = m.visual.__hash__()
            m.visual.vertex_colors[0] = [1, 2, 3, 255]
        run.case("container:visual:" + mode)
        if m.visual.__hash__() == h0:
            run.violation("container kind=colorvisuals mode=%s sym=hash_unchanged" % mode,
                          "visual hash unchanged after a colour edit", {"mode": mode})

    # Scene
    s = trimesh.Scene([box.copy(), ico.copy()])
    h0 = s.__hash__()
    _ = s.bounds
    run.case("container:scene:reads")
    if s.__hash__() != h0:
        run.violation("container kind=scene edit=reads sym=hash_changed", "scene hash changed by a read", {})
    g = list(s.geometry.values())[0]
    g.vertices[0, 0] += 1.0
    run.case("container:scene:geom_edit")
    h1 = s.__hash__()
    if h1 == h0:
        run.violation("container kind=scene edit=geometry_inplace sym=hash_unchanged",
                      "scene hash unchanged after editing a geometry in place", {})
    node = s.graph.nodes_geometry[0]
    s.graph.update(node, matrix=trimesh.transformations.translation_matrix([1, 0, 0]))
    run.case("container:scene:graph_edit")
    if s.__hash__() == h1:
        run.violation("container kind=scene edit=graph_update sym=hash_unchanged",
                      "scene hash unchanged after a graph edit", {})
    # several geometries holding EQUAL arrays (two copies of one part; one object under two
    # names), all edited the same way between two hash reads: the scene hash must move
    for how in ("two_copies", "shared_object", "four_copies"):
        sc = trimesh.Scene()
        if how == "shared_object":
            part = box.copy()
            parts = [part, part]
        else:
            parts = [box.copy() for _ in range(2 if how == "two_copies" else 4)]
        for i, part in enumerate(parts):
            sc.add_geometry(part, geom_name="part%d" % i, node_name="n%d" % i,
                            transform=trimesh.transformations.translation_matrix([3.0 * i, 0, 0]))
        h0 = sc.__hash__()
        b0 = np.array(sc.bounds)
        seen = set()
        for part in parts:
            if id(part) not in seen:
                seen.add(id(part))
                part.vertices *= 2.0
        run.case("container:scene:equal_geometries_edited:" + how)
        run.count("container_checks")
        if sc.__hash__() == h0:
            run.violation("container kind=scene edit=equal_geometries:%s sym=hash_unchanged" % how,
                          "every geometry of the scene was edited in place but the scene hash did not change", {"how": how})
        if np.allclose(np.array(sc.bounds), b0):
            run.violation("container kind=scene edit=equal_geometries:%s sym=stale_bounds" % how,
                          "scene bounds unchanged after scaling every geometry in place", {"how": how})

    # a geometry of a scene edited by a call which stored and then raised
    for rname, redit in _raising_edits():
        for attr in ("vertices", "faces"):
            part = ico.copy()
            sc = trimesh.Scene([box.copy(), part])
            h0 = sc.__hash__()
            try:
                redit(getattr(part, attr))
            except NotImplementedError:
                run.skip("not a store-then-raise edit for this dtype")
                continue
            run.case("container:scene:geom_edit_raises", rname, attr)
            run.count("container_checks")
            if sc.__hash__() == h0:
                run.violation("container kind=scene edit=geometry_%s_%s sym=hash_unchanged" % (attr[0], rname),
                              "a geometry of the scene was changed by an in-place call which ended with an "
                              "exception; the scene hash did not change", {"edit": rname, "attr": attr})

    s2 = trimesh.Scene([box.copy(), ico.copy()])
    s3 = trimesh.Scene([box.copy(), ico.copy()])
    run.case("container:scene:equal")
    if s2.__hash__() != s3.__hash__():
        run.violation("container kind=scene sym=equal_differ", "equal scenes hash differently", {})

    visual_checks(run)


# ----------------------------------------------------------------------------
# visuals: colours which the visual generated itself (defaults, vertex colours derived from
# face colours and the reverse) are handed out as TrackedArrays exactly like colours the user
# assigned; an edit of them is an edit of the visual


def visual_checks(run):
    import trimesh
    from trimesh.visual.color import ColorVisuals

    box = trimesh.creation.box()

    def tile(n):
        return np.tile(np.array([10, 20, 30, 255], dtype=np.uint8), (n, 1))

    sources = {
        "default": lambda m: None,
        "face": lambda m: setattr(m.visual, "face_colors", tile(len(m.faces))),
        "vertex": lambda m: setattr(m.visual, "vertex_colors", tile(len(m.vertices))),
    }
    edits = {
        "setitem_row": lambda c: c.__setitem__(0, [255, 0, 0, 255]),
        "alpha_column": lambda c: c.__setitem__((slice(None), 3), 10),
        "iadd": lambda c: c.__iadd__(1),
        "fill": lambda c: c.fill(7),
    }
    reads = {
        "hash": lambda v: v.__hash__(),
        "kind": lambda v: v.kind,
        "transparency": lambda v: v.transparency,
        "defined": lambda v: v.defined,
        "face_colors": lambda v: v.face_colors,
        "vertex_colors": lambda v: v.vertex_colors,
        "main_color": lambda v: v.main_color,
        "copy": lambda v: v.copy(),
    }
    # "reread": the attribute is read a second time while the first handle is kept
    pre_reads = [(), ("hash",), ("transparency",), ("kind", "hash"), ("reread",), ("reread", "hash"),
                 ("hash", "transparency", "copy")]
    for src, attr, (ename, edit), pre in itertools.product(sources, ("face", "vertex"), edits.items(), pre_reads):
        origin = "default" if src == "default" else ("set" if src == attr else "derived")
        m = box.copy()
        sources[src](m)
        vis = m.visual
        colors = getattr(vis, attr + "_colors")  # handed out before the reads, as a user would keep it
        for r in pre:
            reads[attr + "_colors" if r == "reread" else r](vis)
        h0 = vis.__hash__() if pre else None
        if h0 is None:
            # the hash of an identical visual nobody has touched
            m0 = box.copy()
            sources[src](m0)
            h0 = m0.visual.__hash__()
        b0 = np.array(colors).tobytes()
        edit(colors)
        shown = np.array(colors)
        run.case("container:visual:" + origin, src, attr, ename, pre, nontrivial=bool(pre))
        run.count("container_checks")
        if shown.tobytes() == b0:
            run.skip("colour edit changed nothing")
            continue
        case = {"colors": src, "attr": attr, "edit": ename, "pre_reads": list(pre)}
        h1 = vis.__hash__()
        fresh = ColorVisuals(mesh=m, **{attr + "_colors": shown.copy()})
        key = "container kind=colorvisuals colors=%s " % origin
        if h1 == h0:
            run.violation(key + "sym=hash_unchanged",
                          "colours handed out by the visual were edited in place; the hash of the visual did not change", case)
        if h1 != fresh.__hash__():
            run.violation(key + "sym=differs_from_fresh",
                          "hash of the visual differs from the hash of a fresh visual holding the same colours", case)
        # reads do not change bytes, so they do not change the hash
        moved = None
        for rname, read in reads.items():
            hb = vis.__hash__()
            read(vis)
            if vis.__hash__() != hb and moved is None:
                moved = rname
        if moved is not None:
            run.violation(key + "sym=hash_changed_by_read",
                          "a read of the visual (`%s`) changed its hash" % moved, dict(case, read=moved))
        if vis.__hash__() != fresh.__hash__():
            run.violation(key + "sym=differs_from_fresh_after_reads",
                          "colours edited through the array the visual handed out: even after every read of the visual "
                          "its hash is not the hash of a fresh visual holding the colours it now shows", case)
        # observability (not judged here: the statement is about the hash): the cached value
        # keyed on that hash
        alpha = bool(shown[:, 3].min() < 255)
        run.state("visual_transparency_after_edit",
                  (origin, "transparency" in pre, "right" if bool(vis.transparency) == alpha else "stale"))

    # siblings: the other visual classes keep their arrays in a place the hash looks at
    pc = trimesh.PointCloud(np.array(box.vertices), colors=tile(len(box.vertices)))
    h0 = pc.visual.__hash__()
    pc.visual.vertex_colors[0] = [1, 2, 3, 255]
    run.case("container:visual:vertexcolor")
    if pc.visual.__hash__() == h0:
        run.violation("container kind=vertexcolor sym=hash_unchanged", "point cloud colours edited in place; visual hash unchanged", {})
    tv = trimesh.visual.TextureVisuals(uv=np.array(box.vertices)[:, :2].copy())
    h0 = tv.__hash__()
    tv.uv[0] = [0.25, 0.75]
    run.case("container:visual:texture_uv")
    if tv.__hash__() == h0:
        run.violation("container kind=texturevisuals member=uv sym=hash_unchanged", "uv edited in place; visual hash unchanged", {})


# ----------------------------------------------------------------------------
# objects the library derives from another object, and setters given an array of another
# object: if the result holds a *second* tracked wrapper over the memory of the source, the two
# dirty flags are independent and a plain in-place operator on one owner leaves the other stale


def _tracked_of(obj):
    """name -> TrackedArray held by a geometry or by the geometries of a scene"""
    import trimesh

    out = {}
    if isinstance(obj, trimesh.Scene):
        for g in obj.geometry.values():
            for n, a in _tracked_of(g).items():
                out.setdefault("geometry." + n, a)
        return out
    d = getattr(obj, "_data", None)
    if d is not None and hasattr(d, "data"):
        for k, v in d.data.items():
            if _is_tracked(v):
                out[k] = v
    v = getattr(obj, "_vertices", None)
    if _is_tracked(v):
        out["vertices"] = v
    return out


def _alias_routes():
    import trimesh
    from trimesh.path.entities import Line

    box = trimesh.creation.box()

    def open_box():
        return trimesh.Trimesh(np.array(box.vertices), np.array(box.faces[:10]), process=False)

    def closed_box():
        return trimesh.Trimesh(np.array(box.vertices), np.array(box.faces), process=False)

    def path2():
        return trimesh.path.Path2D(entities=[Line([0, 1, 2, 3, 0])],
                                   vertices=np.array([[0, 0], [2, 0], [2, 1], [0, 1.0]]), process=False)

    def path3():
        return trimesh.path.Path3D(entities=[Line([0, 1, 2, 3, 0])],
                                   vertices=np.array([[0, 0, 0], [2, 0, 0], [2, 1, 0], [0, 1.0, 0]]), process=False)

    def into(make, attr, value):
        def f(src):
            other = make()
            setattr(other, attr, value(src))
            return other

        return f

    r = {}
    # name -> (route class used in the key, make source, derive).  The route class names the
    # library function and, for setters, what it was given; several concrete inputs share one.
    def route(name, cls, make, derive):
        r[name] = (cls, make, derive)

    # ---- the library derives an object
    route("mesh.outline", "mesh.outline", open_box, lambda m: m.outline())
    route("mesh.outline:face_ids", "mesh.outline", open_box, lambda m: m.outline([0, 1, 2]))
    route("mesh.copy", "mesh.copy", open_box, lambda m: m.copy())
    route("mesh.submesh", "mesh.submesh", open_box, lambda m: m.submesh([np.arange(len(m.faces))], append=True))
    route("mesh.split", "mesh.split", open_box, lambda m: m.split(only_watertight=False)[0])
    route("mesh.convex_hull", "mesh.convex_hull", open_box, lambda m: m.convex_hull)
    route("mesh.section", "mesh.section", closed_box, lambda m: m.section([0, 0, 1], [0, 0, 0]))
    route("mesh.slice_plane", "mesh.slice_plane", closed_box, lambda m: m.slice_plane([0, 0, 0], [0, 0, 1]))
    route("mesh.slice_plane:no_cut", "mesh.slice_plane", closed_box, lambda m: m.slice_plane([0, 0, -5], [0, 0, 1]))
    route("mesh.subdivide", "mesh.subdivide", open_box, lambda m: m.subdivide())
    route("mesh.projected", "mesh.projected", closed_box, lambda m: m.projected([0, 0, 1]))
    route("mesh.smooth_shaded", "mesh.smooth_shaded", open_box, lambda m: m.smooth_shaded)
    route("mesh.scene.dump", "scene.dump", open_box, lambda m: m.scene().dump(concatenate=True))
    route("mesh.scene.copy", "scene.copy", open_box, lambda m: m.scene().copy())
    route("util.concatenate:single", "util.concatenate", open_box, lambda m: trimesh.util.concatenate([m]))
    route("load_path:mesh", "load_path:mesh", open_box, lambda m: trimesh.load_path(m))
    route("PointCloud:mesh_vertices", "pointcloud.vertices_setter given=tracked_array", open_box,
          lambda m: trimesh.PointCloud(m.vertices))
    route("Trimesh:mesh_arrays", "mesh.setters given=tracked_array", open_box,
          lambda m: trimesh.Trimesh(m.vertices, m.faces, process=False))
    route("Trimesh:mesh_arrays:process", "mesh.constructor:process given=tracked_array", open_box,
          lambda m: trimesh.Trimesh(m.vertices, m.faces, process=True))
    route("path.copy", "path.copy", path2, lambda p: p.copy())
    route("path.to_3D", "path.to_3D", path2, lambda p: p.to_3D())
    route("path.to_planar", "path.to_planar", path3, lambda p: p.to_planar()[0])
    route("path.split", "path.split", path2, lambda p: p.split()[0])
    route("path.simplify", "path.simplify", path2, lambda p: p.simplify())
    route("path.extrude", "path.extrude", path2, lambda p: p.extrude(1.0))
    route("path.scene", "path.scene", path2, lambda p: p.scene())
    route("path.concatenate", "path.concatenate", path2, lambda p: p + path2())
    # ---- a setter (or the constructor calling it) is given an array of another object
    T, NC, CV, BV = ("given=tracked_array", "given=noncontiguous_tracked_view",
                     "given=contiguous_tracked_view", "given=base_class_view")
    route("Path2D:path_vertices", "path.vertices_setter " + T, path2,
          lambda p: trimesh.path.Path2D(entities=[Line([0, 1, 2, 3, 0])], vertices=p.vertices, process=False))
    route("Path3D:mesh_vertices", "path.vertices_setter " + T, open_box,
          lambda m: trimesh.path.Path3D(entities=[Line([0, 1, 2])], vertices=m.vertices, process=False))
    route("path.vertices_setter:tracked", "path.vertices_setter " + T, path2, into(path2, "vertices", lambda p: p.vertices))
    route("mesh.vertices_setter:tracked", "mesh.vertices_setter " + T, open_box, into(closed_box, "vertices", lambda m: m.vertices))
    route("mesh.faces_setter:tracked", "mesh.faces_setter " + T, open_box, into(closed_box, "faces", lambda m: m.faces))
    route("mesh.vertices_setter:reversed_view", "mesh.vertices_setter " + NC, open_box, into(closed_box, "vertices", lambda m: m.vertices[::-1]))
    route("path.vertices_setter:reversed_view", "path.vertices_setter " + NC, path2, into(path2, "vertices", lambda p: p.vertices[::-1]))
    route("mesh.faces_setter:flipped_view", "mesh.faces_setter " + NC, open_box, into(closed_box, "faces", lambda m: m.faces[:, ::-1]))
    route("mesh.faces_setter:reversed_view", "mesh.faces_setter " + NC, open_box, into(closed_box, "faces", lambda m: m.faces[::-1]))
    route("mesh.faces_setter:transposed_view", "mesh.faces_setter " + NC, open_box, into(closed_box, "faces", lambda m: m.faces[:3].T))
    route("mesh.vertices_setter:row_slice_view", "mesh.vertices_setter " + CV, open_box, into(closed_box, "vertices", lambda m: m.vertices[1:]))
    route("mesh.faces_setter:row_slice_view", "mesh.faces_setter " + CV, open_box, into(closed_box, "faces", lambda m: m.faces[1:]))
    route("path.vertices_setter:row_slice_view", "path.vertices_setter " + CV, path2, into(path2, "vertices", lambda p: p.vertices[0:]))
    route("mesh.vertices_setter:asarray", "mesh.vertices_setter " + BV, open_box, into(closed_box, "vertices", lambda m: np.asarray(m.vertices)))
    route("mesh.faces_setter:asarray", "mesh.faces_setter " + BV, open_box, into(closed_box, "faces", lambda m: np.asarray(m.faces)))
    route("path.vertices_setter:asarray", "path.vertices_setter " + BV, path2, into(path2, "vertices", lambda p: np.asarray(p.vertices)))
    return r


def _write_inplace(a):
    """the plainest numpy write there is: an in-place operator (an overridden, flagged method)"""
    if a.dtype.kind == "f":
        a *= 2.0
    else:
        a += 1


def alias_checks(run, only=None):
    routes = _alias_routes()
    for name, (cls, make, derive) in routes.items():
        if only is not None and name != only:
            continue
        for written in ("derived", "source"):
            try:
                A = make()
                B = derive(A)
            except Exception as e:
                run.skip("derive %s raised %s" % (name, type(e).__name__))
                break
            if B is A or B is None:
                run.skip("derive %s returned the source" % name)
                break
            ta, tb = _tracked_of(A), _tracked_of(B)
            pairs = [(ka, kb) for ka, a in ta.items() for kb, b in tb.items()
                     if a is not b and a.size and b.size and np.shares_memory(a, b)]
            same = [(ka, kb) for ka, a in ta.items() for kb, b in tb.items() if a is b]
            run.case("container:derived:" + name, written, nontrivial=bool(pairs or same))
            run.count("container_checks")
            run.state("derived_object_arrays", (cls, "second_wrapper" if pairs else ("same_object" if same else "own_memory")))
            for ka, kb in pairs + same:
                src_arr, der_arr = ta[ka], tb[kb]
                W, O_owner, O_arr = (der_arr, A, src_arr) if written == "derived" else (src_arr, B, der_arr)
                # both owners have been looked at: hashes memoised, a cached value stored
                for owner in (A, B):
                    owner.__hash__()
                    try:
                        owner.bounds
                    except Exception:
                        pass
                h0 = O_owner.__hash__()
                b0 = np.ascontiguousarray(np.asarray(O_arr)).tobytes()
                try:
                    _write_inplace(W)
                except Exception as e:
                    run.skip("write raised %s" % type(e).__name__)
                    continue
                if np.ascontiguousarray(np.asarray(O_arr)).tobytes() == b0:
                    continue
                case = {"route": name, "written": written, "source_array": ka, "derived_array": kb}
                key = "container kind=derived_alias route=%s " % cls
                if O_owner.__hash__() == h0:
                    run.violation(key + "sym=other_owner_hash_unchanged",
                                  "two objects hold different tracked arrays over one buffer (each with its own dirty flag); an "
                                  "in-place operator on the array of one changed the bytes of the other, whose hash did not change", case)
                elif O_arr.__hash__() != _bytes_hash(O_arr):
                    run.violation(key + "sym=other_array_hash_not_of_bytes",
                                  "array of the other owner reports a hash which is not the hash of its bytes", case)


# ----------------------------------------------------------------------------
# contracts (icontract) on the real TrackedArray.__hash__


def install_contract(run):
    """
    Postcondition on TrackedArray.__hash__: result == hash of bytes.  Recording, not raising.
    Evaluations are counted; zero evaluations => inconclusive for the contract part.
    """
    from trimesh import caching

    try:
        import icontract
    except Exception:
        run.inconclusive("icontract not importable")
        return None
    import sys

    state = {"n": 0, "bad": 0, "callers": {}}
    orig = caching.TrackedArray.__hash__

    def fresh(self, result):
        state["n"] += 1
        if result != caching.hash_fast(np.ndarray.tobytes(self, order="C")):
            state["bad"] += 1
            # the library function which asked (first frame inside trimesh, outside caching.py)
            who, f = "test_code", sys._getframe(1)
            while f is not None:
                fn = f.f_code.co_filename.replace("\\", "/")
                if "/trimesh/" in fn and not fn.endswith("/caching.py"):
                    who = getattr(f.f_code, "co_qualname", f.f_code.co_name)
                    break
                f = f.f_back
            state["callers"][who] = state["callers"].get(who, 0) + 1
        return True

    class HashStale(Exception):
        pass

    wrapped = icontract.ensure(fresh, error=HashStale)(orig)
    caching.TrackedArray.__hash__ = wrapped
    return state, orig


# ----------------------------------------------------------------------------


def workload(run):
    from trimesh import caching

    ops = _ops()
    by_name = {o.name: o for o in ops}
    bases = base_arrays()
    names = [o.name for o in ops if o.group != "raises"]
    groups = {g: [o.name for o in ops if o.group == g] for g in ("method", "numpy", "view", "read", "hash", "raises")}
    run.note("operations", {g: len(v) for g, v in groups.items()})

    def do(dname, prog):
        nt = run_program(run, dname, bases[dname.split("+")[0]], prog, by_name)
        run.case("prog:%s:len%d" % (dname, len(prog)), dname, tuple(prog), nontrivial=nt,
                 sample={"dtype": dname, "program": prog} if nt and run.evaluations % 997 == 0 else None)

    dnames = [d for d in bases if d not in RAISES_ONLY_BASES]
    idx = 0
    # (1) every program of length 1 and 2 on the root, with and without a leading hash read
    for dname in dnames:
        for a in names:
            idx += 1
            if run.mine(idx):
                do(dname, [(a, "root")])
                do(dname, [("hash", "root"), (a, "root")])
        for a, b in itertools.product(names, names):
            idx += 1
            if not run.mine(idx):
                continue
            if by_name[a].ext and by_name[b].ext:
                continue
            for sel in ("root", "last"):
                do(dname, [(a, "root"), (b, sel)])
        if run.out_of_time(0.5):
            break
    # (2) templates: hash placement x view creation x write through the view / the root
    writers = groups["method"] + groups["numpy"]
    for dname in dnames:
        for v in groups["view"]:
            for w in writers:
                idx += 1
                if not run.mine(idx):
                    continue
                for hp in range(8):
                    h_before_view, h_root_after_view, h_view_after = hp & 1, hp & 2, hp & 4
                    for wsel in ("last", "root"):
                        prog = []
                        if h_before_view:
                            prog.append(("hash", "root"))
                        prog.append((v, "root"))
                        if h_root_after_view:
                            prog.append(("hash", "root"))
                        if h_view_after:
                            prog.append(("hash", "last"))
                        prog.append((w, wsel))
                        do(dname, prog)
        if run.out_of_time(0.8):
            run.count("templates_cut_short")
            break
    # (2a) edit, then write-protect, then look: the memo must not outlive the edit because the
    # array is read-only by the time the hash is asked for
    for dname in dnames:
        for w in writers:
            for fz in ("freeze", "freeze_setflags", "freeze_mutable"):
                idx += 1
                if not run.mine(idx):
                    continue
                do(dname, [("hash", "root"), (w, "root"), (fz, "root")])
                do(dname, [("hash", "root"), (w, "root"), (fz, "root"), ("hash", "root"), ("thaw", "root"), (w, "root")])
                do(dname, [("v_slice", "root"), ("hash", "last"), (w, "last"), (fz, "last")])
    # (2c) roots which own their memory (what `mesh.copy()` holds): every writer alone, after a
    # hash read, and twice with a hash read in between; a view held across a resize is not
    # generated (it would dangle)
    for dname in dnames:
        for w in writers:
            idx += 1
            if not run.mine(idx):
                continue
            own = dname + "+own"
            do(own, [(w, "root")])
            do(own, [("hash", "root"), (w, "root")])
            do(own, [(w, "root"), ("hash", "root"), (w, "root")])
            do(own, [("hash", "root"), ("r_copy", "root"), ("hash", "last"), (w, "last")])
    # (2d) writers which store and then raise (group "raises"): alone, after a hash read, twice
    # around a hash read, before / after an ordinary writer, on roots which own their memory,
    # and in every position of the view / hash templates of (2)
    for dname in dnames + list(RAISES_ONLY_BASES):
        for r in groups["raises"]:
            idx += 1
            if not run.mine(idx):
                continue
            for dn in (dname, dname + "+own"):
                do(dn, [(r, "root")])
                do(dn, [("hash", "root"), (r, "root")])
                do(dn, [("hash", "root"), (r, "root"), ("hash", "root"), (r, "root")])
                do(dn, [("hash", "root"), (r, "root"), ("hash", "root")])
                for w in ("setitem_int", "imul", "fill", "ufunc_out"):
                    do(dn, [(w, "root"), ("hash", "root"), (r, "root")])
                    do(dn, [("hash", "root"), (r, "root"), (w, "root")])
                for fz in ("freeze", "freeze_mutable"):
                    do(dn, [("hash", "root"), (r, "root"), (fz, "root"), ("hash", "root")])
                for r2 in groups["raises"]:
                    do(dn, [("hash", "root"), (r, "root"), (r2, "root")])
            for v in groups["view"]:
                for hp in range(8):
                    for wsel in ("last", "root"):
                        prog = [("hash", "root")] if hp & 1 else []
                        prog.append((v, "root"))
                        if hp & 2:
                            prog.append(("hash", "root"))
                        if hp & 4:
                            prog.append(("hash", "last"))
                        prog.append((r, wsel))
                        do(dname, prog)
    # (2b) view-of-view chains
    for dname in ("f8_n3", "i8_n3", "u1_n4"):
        for v1, v2 in itertools.product(groups["view"], groups["view"]):
            idx += 1
            if not run.mine(idx):
                continue
            for w in ("setitem_int", "iadd", "fill", "copyto"):
                for hp in range(4):
                    prog = [("hash", "root")] if hp & 1 else []
                    prog += [(v1, "root")]
                    if hp & 2:
                        prog.append(("hash", "root"))
                    prog += [(v2, "last"), (w, "last")]
                    do(dname, prog)
    # (3) sampled longer programs
    maxlen = 4 if run.tier == "quick" else 6
    while not run.out_of_time(0.93):
        dname = dnames[run.rng.integers(len(dnames))]
        if run.rng.integers(4) == 0:
            dname += "+own"
        n = int(run.rng.integers(3, maxlen + 1))
        prog = []
        for _ in range(n):
            g = run.pyrng.choices(["method", "numpy", "view", "read", "hash", "raises"], [4, 3, 3, 1, 4, 2])[0]
            prog.append((run.pyrng.choice(groups[g]), run.pyrng.choice(["root", "last", 1, 2])))
        do(dname, prog)
        if run.tier == "quick" and run.evaluations > 400000:
            break

    # (4) container level, with the icontract postcondition on the real __hash__
    ic = install_contract(run)
    try:
        container_checks(run)
    finally:
        if ic:
            caching.TrackedArray.__hash__ = ic[1]
    # (5) second wrappers made by the library (outside the postcondition: these scenarios are
    # built to make an array stale, the symptom judged is the hash of the owner)
    alias_checks(run)
    if ic:
        run.note("contract_TrackedArray.__hash___evaluations", ic[0]["n"])
        run.note("contract_TrackedArray.__hash___stale", ic[0]["bad"])
        if ic[0]["n"] == 0:
            run.inconclusive("TrackedArray.__hash__ postcondition never evaluated")
        for who, n in sorted(ic[0]["callers"].items()):
            run.violation("contract TrackedArray.__hash__ stale_memo caller=%s" % who,
                          "TrackedArray.__hash__ returned a memo which is not the hash of the bytes to a library function "
                          "during the container workload (no numpy bypass route and no view taken by the test)",
                          {"count": n, "caller": who})


def replay(run, case):
    ops = _ops()
    by_name = {o.name: o for o in ops}
    bases = base_arrays()
    if isinstance(case, dict) and "program" in case:
        prog = [tuple(p) for p in case["program"]]
        run_program(run, case["dtype"], bases[case["dtype"].split("+")[0]], prog, by_name)
        run.case("replay", case["dtype"], tuple(prog))
    elif isinstance(case, dict) and "route" in case:
        alias_checks(run, only=case["route"])
    else:
        container_checks(run)
