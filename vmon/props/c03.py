"""
C03 - mass properties equal the exact integrals over the enclosed solid.

Monitor shape: independent slow reference.  Every execution of the real code
(Trimesh.volume / mass / center_mass / moment_inertia / area / mass_properties /
moment_inertia_frame / principal_inertia_*, triangles.mass_properties / area / cross,
inertia.transform_inertia / principal_axis) is compared with vmon.oracle.massprops: the signed
tetrahedron decomposition evaluated in exact integer arithmetic on the very float64 coordinates
the mesh holds (a different derivation from the Eberly sub-expressions f1,f2,f3,g0,g1,g2 in the
code).  Tolerance |got - exact| <= 64 eps sum|terms| with sum|terms| bounded by the oracle, so
translated / scaled copies are judged with a tolerance widened by their cancellation ratio.

Frame convention (read from base.py:moment_inertia_frame and its docstring: "identity gives the
moment at the origin"; the code forms R^T (I_c + m PA(t-c)) R): `transform` = [R|t] is the pose
of the frame in world coordinates; the result is the tensor about the point t expressed in the
axes given by the columns of R.

Centre-of-mass override: the statement says the override "is honoured" and (first sentence, no
exception) that the reported tensor equals the exact integrals of the second moments over the
enclosed solid.  Judged as: the override c' is reported as centre of mass, `moment_inertia` is the
exact second-moment integral of the solid ABOUT c' (= I_c + m PA(c' - c)), and other frames follow
the parallel-axis / rotation law from those two reported values, I_t = I(c') + m PA(t - c').
The value the library computes today, I_origin - m PA(c') (a parallel-axis shift that is valid only
from the true centroid; it depends on where the world origin is and has negative diagonal entries
for overrides outside the body), is recognised and reported under its own mechanism key
(sym=origin_anchored_shift) so that any OTHER error under an override keeps the key wrong_value.

Small solids: `triangles.mass_properties` zeroes the centre of mass when |volume| < tol.zero = 1e-12
(absolute).  The statement quantifies over all real coordinates, so well-conditioned solids below
that volume (x1e-6 placements) are judged like any other; what is NOT judged is the centre / tensor
of a surface whose exact volume is 0 or lost in the rounding of the volume integral itself
(|V| < 1e3 x the volume tolerance): there the centre of mass is 0/0.

Solids away from the origin (round 4): the tolerance above is the rounding of an evaluation about
the WORLD ORIGIN (its terms grow like D^3 L^2 for a solid of size L at distance D and cancel to L^5),
so it accepts a loss of (D/L)^2 digits that the data do not force: the coordinates fl(x - ref) about
any point of the bounding box are exact to one rounding.  "Up to floating-point rounding" is judged
as the rounding of a translation-invariant evaluation: 64 eps sum|terms| with the terms taken about
the minimum corner of the bounding box (the least favourable reference inside the box), plus the
rounding of adding the reference back to the centre of mass.  A value inside the origin-anchored
tolerance but outside the translation-invariant one is reported under its own mechanism key
(input=offset_from_origin sym=origin_anchored_cancellation; one key per route family, whichever of
volume / centre / tensor shows it), a centre reported as exactly [0,0,0] for a solid at D/L = 1e14
under (input=offset_beyond_1e12_sizes sym=zeroed).  Anything outside the origin-anchored tolerance
keeps sym=wrong_value.

Extreme scales (round 4): area and volume of solids scaled by 1e-80, 1e-90, 1e+90 (both values are
ordinary float64 numbers there; centre / tensor are not judged, L^5 leaves the float range).

Primitives (round 4): Box / Cylinder / Capsule / Sphere / Extrusion objects are closed triangle
meshes with the same accessors.  Their documented-analytic accessors (volume, area, moment_inertia of
Cylinder / Sphere) describe the ideal shape and are NOT compared with the integrals over the
tessellation (property C15); what is judged on them are the laws of the second sentence - density
scales mass and every reported tensor linearly, an override is reported back and moment_inertia moves
to it by the parallel-axis law from the tensor reported before - and `mass_properties` /
`moment_inertia_frame` (computed from the triangles by base.py) against the exact integrals of the
primitive's own vertices and faces.

Almost-rigid edits (round 5): a mesh whose values were read is edited by an operation that differs from
a rigid motion / the identity by 1e-4 .. 1e-9 and read again; truth = the exact integrals of the float64
vertices the object holds after the edit.  A value bit-identical to the one read before the edit is
reported under sym=stale_value_from_before_the_edit.

Argument representations (round 5): whole numbers are the same real numbers whether they arrive as
float64, an integer array, nested lists / tuples of ints, float16 / float32 or another memory layout;
frames, overrides, densities, triangles, vertices and tensors in those forms are judged like float64.
(`triangles.cross` is the typed low-level helper that computes in the dtype it is given: float64 only.)

Histories: the same quantities after the library copied the mesh (with / without its cache) and one
of the two objects was edited (density, override, transform, invert, vertices): every object of the
family is judged after every step against the exact integrals of ITS OWN solid, density, override.
"""

from __future__ import annotations

import itertools
from fractions import Fraction

import numpy as np

from vmon.gen import mesh as gm
from vmon.oracle.massprops import EPS, exact_mass, rotate_tensor

PROP = "C03"
LEVEL = "exploration"
RULE = (
    "closed oriented integer-coordinate meshes (asymmetric tetrahedra under all 24 vertex relabelings x "
    "face-start rotations and all 48 signed axis permutations, lattice hulls, polycubes, genus-1 frame "
    "torus, disjoint / nested-cavity / overlapping multi-body shells, inverted copies, zero-volume "
    "pillows) x placements (as is, +1e3, x1e3, x1e-3, (+1e3)x1e-3, x1e-6, (+1e3)x1e-6) x densities {default,0.5,1,7.25,1e3} x "
    "centre-of-mass override {none, 2 points} x ~20 rational frames, mesh-level and free-function routes; "
    "far placements (+1e6, (+UTM-like vector)x0.37, +1e15) judged with the rounding of a translation-invariant evaluation; "
    "extreme scales (x1e-80, x1e-90, x1e+90: area and volume only); "
    "primitive objects (Box, Cylinder, Capsule, Sphere, Extrusion; random parameters and rigid placement) x density x override x "
    "{values read before the setter, not read}: density / override laws and the triangle-derived values; "
    "histories over a family of objects related by copy(include_cache in {True, False}): read / copy / set "
    "density / set override / integer transform / invert / assign vertices, all objects judged after every step. "
    "read - ALMOST-rigid edit - read on one object (apply_scale / apply_transform / apply_translation off a rigid motion or the "
    "identity by +-{1e-4 .. 1e-9}: uniform, similarity, mirrored similarity, anisotropic, shear, small rotation, small translation; "
    "1 or 3 steps; values read before or not; a cache-sharing copy judged too) against the exact integrals of the float64 "
    "vertices held after each step; whole-number frames / overrides / densities / triangles / vertices / tensors handed over as "
    "int8..int64 arrays, nested lists / tuples, float16 / float32, Fortran-order / read-only / strided arrays. "
    "A case is one (mesh, placement, route, density, override[, frame]) evaluation; distinct = distinct "
    "(vertex bytes, face bytes, route, parameters) resp. distinct (mesh, program prefix); non-trivial = exact "
    "volume != 0 and above 1e3 x its own rounding tolerance (otherwise only volume / area are judged)."
)
ANCHORS = [
    "trimesh/triangles.py:mass_properties",
    "trimesh/triangles.py:cross",
    "trimesh/triangles.py:area",
    "trimesh/base.py:Trimesh.mass_properties",
    "trimesh/base.py:Trimesh.center_mass",
    "trimesh/base.py:Trimesh.density",
    "trimesh/base.py:Trimesh.moment_inertia",
    "trimesh/base.py:Trimesh.moment_inertia_frame",
    "trimesh/base.py:Trimesh.area",
    "trimesh/base.py:Trimesh.area_faces",
    "trimesh/base.py:Trimesh.principal_inertia_components",
    "trimesh/inertia.py:transform_inertia",
    "trimesh/inertia.py:principal_axis",
    "trimesh/primitives.py:Cylinder.moment_inertia",
    "trimesh/primitives.py:Sphere.moment_inertia",
]
SHARDS = {"quick": 1, "thorough": 8}
BUDGET = {"quick": 40, "thorough": 300}
MIN_EVENTS = {"quick": 2000, "thorough": 20000}
ASSUMPTIONS = [
    "Python integer / Fraction arithmetic and 50-digit Decimal square roots are exact enough to serve as truth",
    "a float64 evaluation of the surface integrals stays within 64 eps times the oracle's bound of sum|terms|",
    "an overridden centre of mass c' means: reported as given; moment_inertia = exact second moments of the solid about c'; "
    "other frames by the parallel-axis law from (c', that tensor)",
    "moment_inertia_frame(T): tensor about the origin of T expressed in the axes of T (columns of T[:3,:3])",
    "'up to floating-point rounding' = 64 eps sum|terms| of a surface-integral evaluation about the minimum corner of the "
    "bounding box (translation invariant), plus 4 eps |c| for the centre of mass",
    "documented-analytic accessors of primitives describe the ideal shape (C15); only the density / override laws are asserted on them",
]
EXHAUSTIVE = {"quick": False, "thorough": False}

DENSITIES = (0.5, 1.0, 7.25, 1e3)
PLACEMENTS = (
    ("asis", 1.0, 0.0),
    ("translated_1e3", 1.0, 1000.0),
    ("scaled_1e3", 1e3, 0.0),
    ("scaled_1e-3", 1e-3, 0.0),
    ("translated_scaled_1e-3", 1e-3, 1000.0),
)
# solids below the library's absolute cut-off tol.zero = 1e-12 on |volume| (well conditioned: the
# integer mesh is only scaled), >= 1000x below the threshold for every generator (|V_int| <= ~2e3)
TINY_PLACEMENTS = (
    ("scaled_1e-6", 1e-6, 0.0),
    ("translated_scaled_1e-6", 1e-6, 1000.0),
)
# solids away from the origin: integer mesh + 1e6 (exactly representable), a UTM-like offset with a
# non-dyadic scale, and D/L ~ 1e14 (integers up to 2^53 are exact: the solid is what the mesh holds)
FAR_PLACEMENTS = (
    ("translated_1e6", 1.0, 1e6),
    ("translated_utm_scaled", 0.37, (4.1e5, 4.6e6, 120.0)),
    ("translated_1e15", 1.0, 1e15),
)
EXTREME_SCALES = (("scaled_1e-80", 1e-80), ("scaled_1e-90", 1e-90), ("scaled_1e+90", 1e90))
TOL_ZERO = 1e-12  # trimesh.constants.tol.zero, the documented constant (input class of a key only)


# ------------------------------------------------------------------------------------------
# helpers


def place(V, scale, trans):
    # trans: a number or a 3-vector (added before scaling)
    return (np.asarray(V, dtype=np.float64) + np.asarray(trans, dtype=np.float64)) * float(scale)


def _max_ratio(got, want, tol):
    got = np.asarray(got, dtype=np.float64)
    want = np.asarray(want, dtype=np.float64)
    tol = np.broadcast_to(np.asarray(tol, dtype=np.float64), want.shape)
    if got.shape != want.shape:
        return float("inf")
    if not np.isfinite(got).all():
        return float("inf")
    d = np.abs(got - want)
    with np.errstate(divide="ignore", invalid="ignore"):
        r = np.where(d == 0, 0.0, d / tol)
    return float(np.max(r)) if r.size else 0.0


class Ctx:
    """One placed mesh with its oracle; issues judged comparisons."""

    def __init__(self, run, tag, V, F, pname, scale, trans):
        self.run, self.tag, self.pname = run, tag, pname
        self.V0, self.F = np.asarray(V), np.asarray(F, dtype=np.int64)
        self.scale, self.trans = scale, trans
        self.Vf = place(V, scale, trans)
        self.ex = exact_mass(self.Vf, self.F)
        self.vol = float(self.ex.volume)
        # the same solid seen from the minimum corner of its bounding box: tolerances of a
        # translation-invariant evaluation (module docstring)
        self.ref = np.min(self.Vf, axis=0) if len(self.Vf) else np.zeros(3)
        self.loc = self.ex.local(self.ref)
        # a solid whose volume is exactly 0 or within the rounding of the volume integral has no
        # centre of mass to speak of (0/0); everything else is judged, however small
        self.solid = self.ex.volume != 0 and abs(self.vol) >= 1e3 * min(self.ex.tol_volume(), self.loc.tol_volume())
        self.below_tol_zero = self.solid and abs(self.vol) < TOL_ZERO
        # D/L beyond 1e12: the input class of the key sym=zeroed of far placements
        ext = float(np.max(np.ptp(self.Vf, axis=0))) if len(self.Vf) else 0.0
        self.beyond_1e12_sizes = self.solid and ext > 0 and float(np.abs(self.Vf).max()) > 1e12 * ext
        if self.solid:
            self.c = self.ex.f(self.ex.center_mass())
            self.tc = self.ex.tol_center_mass()
            # translation-invariant tolerances: volume, centre (local + rounding of ref + c_local), tensor
            self.c_loc = self.loc.f(self.loc.center_mass())
            self.tc_loc = self.loc.tol_center_mass()
            self.tv_t = self.loc.tol_volume()
            self.tc_t = self.tc_loc + 4 * EPS * np.abs(self.c)
            self.tI_t = self.loc.tol_inertia(self.c_loc, self.tc_loc)
        self.worst = 0.0
        self.named = set()
        self.unnamed = 0
        self.case_extra = {}

    def base_case(self, **extra):
        d = {"mesh": self.tag, "V": self.V0.tolist(), "F": self.F.tolist(), "placement": self.pname,
             "scale": self.scale, "trans": self.trans}
        d.update(self.case_extra)
        d.update(extra)
        return d

    def tight_inertia(self, I, rho):
        """translation-invariant tolerance of the tensor about the centre of mass, density rho"""
        return self.tI_t * abs(rho) * (1 + 4 * EPS) + 4 * EPS * np.abs(I)

    def judge(self, route, qty, got, want, tol, density="default", override="no", alts=(), tight=None, **extra):
        """
        Compare; split matrices into diag / offdiag so the key names the symptom.
        alts: ((key, value, tol), ...) - a wrong value that equals one of these known-mechanism
        values is reported under `key` (route family only) instead of sym=wrong_value.
        tight: the tolerance of a translation-invariant evaluation; a value inside `tol` (the
        rounding of an evaluation about the world origin) but outside `tight` is reported under
        K_CANCEL (route family only, one key whatever the quantity).
        """
        self.run.count("comparisons")
        want = np.asarray(want, dtype=np.float64)
        try:
            got_a = np.asarray(got, dtype=np.float64)
        except Exception:
            got_a = None
        if got_a is None or got_a.shape != want.shape:
            self.run.violation(
                "route=%s qty=%s density=%s override=%s sym=wrong_shape" % (route, qty, density, override),
                "%s of %s has the wrong type / shape" % (qty, route),
                self.base_case(route=route, qty=qty, got=repr(got)[:200], **extra),
            )
            return False
        tol = np.broadcast_to(np.asarray(tol, dtype=np.float64), want.shape)
        parts = [(qty, np.ones(want.shape, dtype=bool))]
        if want.shape == (3, 3):
            eye = np.eye(3, dtype=bool)
            parts = [(qty + "_diag", eye), (qty + "_offdiag", ~eye)]
            if not np.array_equal(got_a, got_a.T) and _max_ratio(got_a, got_a.T, 2 * tol) > 1:
                self.run.violation(
                    "route=%s qty=%s density=%s override=%s sym=not_symmetric" % (route, qty, density, override),
                    "%s of %s is not a symmetric tensor" % (qty, route),
                    self.base_case(route=route, qty=qty, got=got_a, expected=want, **extra),
                )
        ok = True
        for name, mask in parts:
            r = _max_ratio(got_a[mask], want[mask], tol[mask])
            rt = 0.0
            if tight is not None:
                tt = np.broadcast_to(np.asarray(tight, dtype=np.float64), want.shape)
                rt = _max_ratio(got_a[mask], want[mask], tt[mask])
                if r <= 1.0:
                    self.worst_tight = max(getattr(self, "worst_tight", 0.0), min(rt, 1e300))
            if r <= 1.0:
                self.worst = max(self.worst, r)
            if r > 1.0 or rt > 1.0:
                ok = False
                named = None
                for akey, aval, atol in alts:
                    aval = np.asarray(aval, dtype=np.float64)
                    atol = np.broadcast_to(np.asarray(atol, dtype=np.float64), want.shape)
                    if aval.shape == want.shape and _max_ratio(got_a[mask], aval[mask], atol[mask]) <= 1.0:
                        named = akey
                        break
                if named is None and r <= 1.0:
                    # inside the rounding of an origin-anchored evaluation, outside that of a
                    # translation-invariant one
                    self.named.add(K_CANCEL)
                    self.run.violation(
                        "route=%s %s" % (route.split(":")[0].split("_")[0], K_CANCEL),
                        "%s from %s differs from the exact integral by %.3g x the rounding of a translation-invariant "
                        "evaluation (%.3g x that of an evaluation about the world origin)" % (name, route, rt, r),
                        self.base_case(route=route, qty=name, got=got_a, expected=want, tol=tol, tight=tight,
                                       ratio=rt, **extra),
                    )
                    continue
                if named is not None:
                    self.named.add(named)
                    self.run.violation(
                        "route=%s qty=%s %s" % (route.split(":")[0].split("_")[0], qty, named),
                        "%s from %s differs from the exact integral by %.3g x the rounding tolerance (%s)" % (name, route, max(r, rt), named),
                        self.base_case(route=route, qty=name, got=got_a, expected=want, tol=tol,
                                       ratio=r, **extra),
                    )
                    continue
                self.unnamed += 1
                self.run.violation(
                    "route=%s qty=%s density=%s override=%s sym=wrong_value" % (route, name, density, override),
                    "%s from %s differs from the exact integral by %.3g x the rounding tolerance" % (name, route, r),
                    self.base_case(route=route, qty=name, got=got_a, expected=want, tol=tol,
                                   ratio=r, **extra),
                )
        return ok


K_ANCHORED = "override=yes sym=origin_anchored_shift"
K_ZEROED = "input=abs_volume_below_tol_zero sym=zeroed"
K_ABOUT_ORIGIN = "input=abs_volume_below_tol_zero sym=about_origin"
K_CANCEL = "input=offset_from_origin sym=origin_anchored_cancellation"
K_FAR_ZEROED = "input=offset_beyond_1e12_sizes sym=zeroed"


def _override_tol_extra(ctx, ov):
    """rounding of the c_i F_j terms of second moments shifted to a point that is not F/V"""
    ex = ctx.ex
    tf = np.asarray(ex.tol_first(), dtype=np.float64)
    Fa = np.abs(ex.f(list(ex.first)))
    c = np.abs(np.asarray(ov, dtype=np.float64))
    E = np.outer(c, tf) + np.outer(tf, c) + 8 * EPS * (np.outer(c, Fa) + np.outer(Fa, c))
    out = E.copy()
    for i in range(3):
        out[i, i] = sum(E[a, a] for a in range(3) if a != i)
    return out


def _center_alts(ctx, center_override):
    if center_override is None and ctx.below_tol_zero:
        return ((K_ZEROED, np.zeros(3), 0.0),)
    if center_override is None and ctx.beyond_1e12_sizes:
        return ((K_FAR_ZEROED, np.zeros(3), 0.0),)
    return ()


def _zeroed(ctx, center):
    """the library reported the origin as centre of a solid that is nowhere near it (named finding)"""
    return (ctx.below_tol_zero or ctx.beyond_1e12_sizes) and not np.any(np.asarray(center, dtype=np.float64))


def _tensor_expect(ctx, center_override, rho):
    """
    expected inertia about the (stated) centre of mass, its tolerance, and the known-mechanism
    alternatives (see module docstring), density rho
    """
    ex = ctx.ex
    alts = ()
    if center_override is None:
        I = ex.f(ex.inertia_com())
        tol = ex.tol_inertia(ctx.c, ctx.tc)
        if ctx.below_tol_zero:
            Io = ex.f(ex.inertia_about([0, 0, 0]))
            to = ex.tol_inertia(np.zeros(3), np.zeros(3))
            alts = ((K_ABOUT_ORIGIN, Io * rho, to * abs(rho) * (1 + 4 * EPS) + 4 * EPS * np.abs(Io * rho)),)
    else:
        # exact second moments of the solid about the stated centre
        I = ex.f(ex.inertia_about(center_override))
        tol = ex.tol_inertia(center_override, np.zeros(3)) + _override_tol_extra(ctx, center_override)
        Ia = ex.f(ex.inertia_com(center=center_override))
        ta = ex.tol_inertia(center_override, np.zeros(3))
        alts = ((K_ANCHORED, Ia * rho, ta * abs(rho) * (1 + 4 * EPS) + 4 * EPS * np.abs(Ia * rho)),)
    return I * rho, tol * abs(rho) * (1 + 4 * EPS) + 4 * EPS * np.abs(I * rho), alts


def _frame_override_exact(ex, Rf, t, ov):
    """R^T (I(c') + V PA(t - c')) R, I(c') the exact tensor of the solid about c'; world tensor too"""
    Iab = ex.inertia_about(ov)
    d = [Fraction(float(t[i])) - Fraction(float(ov[i])) for i in range(3)]
    pa = ex.parallel_axis(d)
    It = [[Iab[i][j] + ex.volume * pa[i][j] for j in range(3)] for i in range(3)]
    R = [[Fraction(float(x)) for x in row] for row in np.asarray(Rf).tolist()]
    tmp = [[sum(It[i][k] * R[k][j] for k in range(3)) for j in range(3)] for i in range(3)]
    return It, [[sum(R[k][i] * tmp[k][j] for k in range(3)) for j in range(3)] for i in range(3)]


def _frame_expect(ctx, Rf, t, center_override, rho):
    ex = ctx.ex
    Ra = np.abs(np.asarray(Rf, dtype=np.float64))
    alts = ()
    if center_override is None:
        I = ex.f(ex.inertia_frame(Rf, t))
        # tolerance of the aligned tensor (about t, world axes) pushed through |R|
        tol_al = ex.tol_inertia(ctx.c, ctx.tc, about=t)
        I_al = np.abs(ex.f(ex.inertia_point(t)))
    else:
        cen = np.asarray(center_override, dtype=np.float64)
        It, Ir = _frame_override_exact(ex, Rf, t, center_override)
        I = ex.f(Ir)
        tol_al = ex.tol_inertia(cen, np.zeros(3), about=t) + _override_tol_extra(ctx, center_override)
        I_al = np.abs(ex.f(It))
        Ia = ex.f(ex.inertia_frame(Rf, t, center=center_override))
        ta = Ra.T @ (ex.tol_inertia(cen, np.zeros(3), about=t)
                     + 16 * EPS * np.abs(ex.f(ex.inertia_point(t, center=center_override)))) @ Ra
        alts = ((K_ANCHORED, Ia * rho, ta * abs(rho) * (1 + 8 * EPS)),)
    tol = Ra.T @ (tol_al + 16 * EPS * I_al) @ Ra
    return I * rho, tol * abs(rho) * (1 + 8 * EPS), alts


# ------------------------------------------------------------------------------------------
# the checks on one placed mesh


def check_mesh(run, tag, V, F, pname, scale, trans, *, densities, overrides, frames, routes=("mesh", "free")):
    import trimesh
    from trimesh import inertia as tinertia
    from trimesh import triangles as ttri

    ctx = Ctx(run, tag, V, F, pname, scale, trans)
    ex = ctx.ex
    vb, fb = ctx.Vf, ctx.F
    canc = ex.cancellation()
    run.state("cancellation_log10_volume", int(np.floor(np.log10(canc["volume"]))) if np.isfinite(canc["volume"]) else "inf")
    run.state("orientation", "zero" if not ctx.solid else ("positive" if ctx.vol > 0 else "negative"))
    run.state("mesh_class", tag.split(":")[0])
    run.state("placement", pname)
    tv = ex.tol_volume()

    def ncase(route, *parts, nontrivial=True):
        run.case("%s:%s" % (route, pname), vb, fb, route, *parts, nontrivial=nontrivial and ctx.solid)
        run.state("route_x_mesh_class", (route, tag.split(":")[0]))

    # ------------------------------------------------------------------ mesh level
    if "mesh" in routes:
        m = trimesh.Trimesh(vertices=vb.copy(), faces=fb.copy(), process=False)
        try:
            ncase("mesh", "default")
            tvt = ctx.tv_t if ctx.solid else None
            ctx.judge("mesh", "volume", m.volume, ctx.vol, tv, tight=tvt)
            ctx.judge("mesh", "mass", m.mass, ctx.vol, tv, tight=tvt)
            ctx.judge("mesh", "area", m.area, ex.area, ex.tol_area())
            ctx.judge("mesh", "area_faces_sum", float(np.sum(m.area_faces)), ex.area, ex.tol_area())
            mp = m.mass_properties
            ctx.judge("mesh_dict", "volume", mp["volume"], ctx.vol, tv, tight=tvt)
            ctx.judge("mesh_dict", "density", mp["density"], 1.0, 0.0)
            ctx.judge("mesh", "density", m.density, 1.0, 0.0)
            if ctx.solid:
                I, tI, aI = _tensor_expect(ctx, None, 1.0)
                aC = _center_alts(ctx, None)
                tIt = ctx.tight_inertia(I, 1.0)
                ctx.judge("mesh", "center_mass", m.center_mass, ctx.c, ctx.tc, alts=aC, tight=ctx.tc_t)
                ctx.judge("mesh_dict", "center_mass", mp["center_mass"], ctx.c, ctx.tc, alts=aC, tight=ctx.tc_t)
                # the tensor of a far solid whose centre was reported as the origin is not judged again
                if not (ctx.beyond_1e12_sizes and _zeroed(ctx, m.center_mass)):
                    ctx.judge("mesh", "inertia", m.moment_inertia, I, tI, alts=aI, tight=tIt)
                    ctx.judge("mesh_dict", "inertia", mp["inertia"], I, tI, alts=aI, tight=tIt)
                ctx.judge("mesh_dict", "mass", mp["mass"], ctx.vol, tv, tight=tvt)
            # a centre of mass zeroed by a volume cut-off (named finding) drags every derived
            # value along: those are not judged again for this mesh
            derived = ctx.solid and K_ZEROED not in ctx.named and K_FAR_ZEROED not in ctx.named
            if ctx.solid and not derived:
                run.count("derived_checks_skipped_centre_zeroed")
            if derived:
                # principal inertia: rows of vectors orthonormal, V^T diag(c) V rebuilds the tensor
                comp = np.asarray(m.principal_inertia_components, dtype=np.float64)
                vec = np.asarray(m.principal_inertia_vectors, dtype=np.float64)
                ncase("principal")
                if comp.shape == (3,) and vec.shape == (3, 3):
                    scaleI = np.abs(I).max()
                    ctx.judge("principal", "vectors_orthonormal", vec @ vec.T, np.eye(3), 64 * EPS)
                    ctx.judge("principal", "reconstruction", vec.T @ np.diag(comp) @ vec, I, tI + 256 * EPS * scaleI)
                    ctx.judge("principal", "trace", comp.sum(), np.trace(I), 3 * tI.max() + 256 * EPS * scaleI)
                else:
                    ctx.judge("principal", "shape", 0.0, 1.0, 0.0)

            # densities and overrides through the setters (after the values were read once)
            for rho, ov in itertools.product((None,) + tuple(densities), (None,) + tuple(overrides)):
                if rho is None and ov is None:
                    continue
                mm = trimesh.Trimesh(vertices=vb.copy(), faces=fb.copy(), process=False)
                _ = mm.volume  # the usual history: read, then set
                if rho is not None:
                    mm.density = rho
                if ov is not None:
                    mm.center_mass = np.array(ov, dtype=np.float64)
                r = 1.0 if rho is None else float(rho)
                dk = "default" if rho is None else "set"
                ok_ = "no" if ov is None else "yes"
                ncase("mesh", r, None if ov is None else tuple(ov))
                run.state("density_override", (dk, ok_))
                ctx.judge("mesh", "volume", mm.volume, ctx.vol, tv, dk, ok_, tight=tvt, density_value=rho, center=ov)
                ctx.judge("mesh", "mass", mm.mass, ctx.vol * r, tv * r * (1 + 4 * EPS), dk, ok_,
                          tight=None if tvt is None else tvt * r * (1 + 4 * EPS), density_value=rho, center=ov)
                ctx.judge("mesh", "density", mm.density, r, 0.0, dk, ok_, density_value=rho, center=ov)
                if not ctx.solid:
                    continue
                if ov is None:
                    ctx.judge("mesh", "center_mass", mm.center_mass, ctx.c, ctx.tc, dk, ok_, alts=_center_alts(ctx, None),
                              tight=ctx.tc_t, density_value=rho)
                    if ctx.beyond_1e12_sizes and _zeroed(ctx, mm.center_mass):
                        continue
                else:
                    ctx.judge("mesh", "center_mass", mm.center_mass, np.array(ov, dtype=np.float64), 0.0, dk, ok_,
                              density_value=rho, center=ov)
                I, tI, aI = _tensor_expect(ctx, ov, r)
                ctx.judge("mesh", "inertia", mm.moment_inertia, I, tI, dk, ok_, alts=aI,
                          tight=ctx.tight_inertia(I, r) if ov is None else None, density_value=rho, center=ov)
                if ov is None and not derived:
                    continue
                # a couple of frames under density / override as well
                for (Rq, Rf, t) in frames[:3]:
                    T = np.eye(4)
                    T[:3, :3] = Rf
                    T[:3, 3] = t
                    Ie, tIe, aIe = _frame_expect(ctx, Rf, t, ov, r)
                    ncase("frame", r, None if ov is None else tuple(ov), T)
                    ctx.judge("frame", "inertia", mm.moment_inertia_frame(T), Ie, tIe, dk, ok_, alts=aIe,
                              density_value=rho, center=ov, frame=T)

            # frames: tensor about t in the axes of R
            if derived:
                I1, _t, _a = _tensor_expect(ctx, None, 1.0)
                for (Rq, Rf, t) in frames:
                    T = np.eye(4)
                    T[:3, :3] = Rf
                    T[:3, 3] = t
                    Ie, tIe, _a = _frame_expect(ctx, Rf, t, None, 1.0)
                    ncase("frame", T)
                    ctx.judge("frame", "inertia", m.moment_inertia_frame(T), Ie, tIe, frame=T)
                    # transform_inertia, rotation only: R I R^T (3x3 and 4x4 forms)
                    Iex = ex.inertia_com()
                    want = ex.f(rotate_tensor([[Fraction(float(x)) for x in row] for row in Rf], Iex))
                    tolr = np.abs(Rf) @ (_t + 16 * EPS * np.abs(I1)) @ np.abs(Rf).T
                    ncase("transform_inertia", T)
                    ctx.judge("transform_inertia_3x3", "rotated", tinertia.transform_inertia(Rf, m.moment_inertia), want, tolr, frame=T)
                    ctx.judge("transform_inertia_4x4", "rotated", tinertia.transform_inertia(T, m.moment_inertia), want, tolr, frame=T)
                # identity frame = tensor at the origin (docstring)
                Io = ex.f(ex.inertia_about([0, 0, 0]))
                to = ex.tol_inertia(ctx.c, ctx.tc, about=[0, 0, 0])
                ncase("frame", "identity")
                ctx.judge("frame_identity", "inertia", m.moment_inertia_frame(np.eye(4)), Io, to + 16 * EPS * np.abs(Io))
        except Exception as e:  # the library raised on a valid closed mesh
            run.violation("route=mesh sym=exception:%s" % type(e).__name__,
                          "mass property access raised %r" % (e,), ctx.base_case(route="mesh"))

    # ------------------------------------------------------------------ free function
    if "free" in routes:
        tri = vb[fb]
        try:
            for rho, ov, skip, with_cross in itertools.product(
                (None,) + tuple(densities), (None,) + tuple(overrides), (False, True), (False, True)
            ):
                kw = {}
                if rho is not None:
                    kw["density"] = rho
                if ov is not None:
                    kw["center_mass"] = np.array(ov, dtype=np.float64)
                if with_cross:
                    kw["crosses"] = ttri.cross(tri)
                res = ttri.mass_properties(tri.copy(), skip_inertia=skip, **kw)
                r = 1.0 if rho is None else float(rho)
                dk = "default" if rho is None else "set"
                ok_ = "no" if ov is None else "yes"
                route = "free" + ("_crosses" if with_cross else "") + ("_skip" if skip else "")
                ncase(route, r, None if ov is None else tuple(ov))
                extra = dict(density_value=rho, center=ov, skip_inertia=skip, with_crosses=with_cross)
                tvt = ctx.tv_t if ctx.solid else None
                ctx.judge(route, "volume", res["volume"], ctx.vol, tv, dk, ok_, tight=tvt, **extra)
                ctx.judge(route, "mass", res["mass"], ctx.vol * r, tv * r * (1 + 4 * EPS), dk, ok_,
                          tight=None if tvt is None else tvt * r * (1 + 4 * EPS), **extra)
                ctx.judge(route, "density", res["density"], r, 0.0, dk, ok_, **extra)
                if skip and res["inertia"] is not None:
                    run.violation("route=%s qty=inertia sym=present_with_skip_inertia" % route,
                                  "skip_inertia=True still returned a tensor", ctx.base_case(**extra))
                if not ctx.solid:
                    continue
                if ov is None:
                    ctx.judge(route, "center_mass", res["center_mass"], ctx.c, ctx.tc, dk, ok_, alts=_center_alts(ctx, None),
                              tight=ctx.tc_t, **extra)
                    if ctx.beyond_1e12_sizes and _zeroed(ctx, res["center_mass"]):
                        continue
                else:
                    ctx.judge(route, "center_mass", res["center_mass"], np.array(ov, dtype=np.float64), 0.0, dk, ok_, **extra)
                if not skip:
                    I, tI, aI = _tensor_expect(ctx, ov, r)
                    ctx.judge(route, "inertia", res["inertia"], I, tI, dk, ok_, alts=aI,
                              tight=ctx.tight_inertia(I, r) if ov is None else None, **extra)
            ncase("free_area")
            ctx.judge("free", "area", float(np.sum(ttri.area(tri))), ex.area, ex.tol_area())
            ctx.judge("free_crosses", "area", float(np.sum(ttri.area(crosses=ttri.cross(tri)))), ex.area, ex.tol_area())
        except Exception as e:
            run.violation("route=free sym=exception:%s" % type(e).__name__,
                          "triangles.mass_properties raised %r" % (e,), ctx.base_case(route="free"))
    run.note("worst_ratio_to_tolerance", max(run.notes.get("worst_ratio_to_tolerance", 0.0), ctx.worst))
    run.note("worst_ratio_to_translation_invariant_tolerance",
             max(run.notes.get("worst_ratio_to_translation_invariant_tolerance", 0.0), getattr(ctx, "worst_tight", 0.0)))
    return ctx


# ------------------------------------------------------------------------------------------
# workload pieces


def make_frames(rng, n):
    out = []
    # identity rotation with a translation and a pure rotation first
    I3 = [[Fraction(int(i == j)) for j in range(3)] for i in range(3)]
    out.append((I3, np.eye(3), np.array([3.0, -2.0, 5.0])))
    while len(out) < n:
        Rq = gm.rational_rotation(rng, maxq=4)
        Rf = gm.frac_to_float(Rq)
        if len(out) == 1:
            t = np.zeros(3)
        else:
            t = rng.integers(-20, 21, size=3).astype(np.float64)
        out.append((Rq, Rf, t))
    return out


def make_overrides(rng, V):
    lo, hi = np.min(V, axis=0), np.max(V, axis=0)
    a = rng.integers(lo - 3, hi + 4).astype(np.float64)
    b = np.array([0.25, -1.5, 2.0]) + rng.integers(-2, 3, size=3)
    return [tuple(a.tolist()), tuple(b.tolist())]


BASE_TETRA = [
    np.array([[1, 2, -1], [2, 2, -1], [1, 4, -1], [1, 2, 2]], dtype=np.int64),
    np.array([[-3, 1, 2], [2, -1, 0], [1, 3, -2], [0, 2, 3]], dtype=np.int64),
]
TETRA_F = np.array([[0, 2, 1], [0, 1, 3], [1, 2, 3], [0, 3, 2]], dtype=np.int64)


def tetra_family(rng, extra=2):
    """
    (tag, V, F): every vertex relabeling (24) with a face-start rotation per face, and every
    signed axis permutation (48) of asymmetric tetrahedra; half of them end up inward wound.
    """
    bases = list(BASE_TETRA) + [gm.tetra(rng)[0] for _ in range(extra)]
    for bi, V in enumerate(bases):
        F = TETRA_F.copy()
        if gm.signed_volume6(V, F) < 0:
            F = F[:, ::-1].copy()
        for pi, perm in enumerate(itertools.permutations(range(4))):
            perm = np.array(perm)
            inv = np.argsort(perm)
            V2 = V[perm]
            F2 = inv[F]
            F2 = np.array([np.roll(f, (pi + k) % 3) for k, f in enumerate(F2)], dtype=np.int64)
            yield "tetra_relabel:%d:%d" % (bi, pi), V2, F2
        k = 0
        for axes in itertools.permutations(range(3)):
            for signs in itertools.product((1, -1), repeat=3):
                V2 = V[:, list(axes)] * np.array(signs, dtype=np.int64)
                # not re-wound: odd maps give the inverted orientation class
                yield "tetra_axes:%d:%d" % (bi, k), V2, F.copy()
                k += 1


def workload(run):
    rng = run.rng
    quick = run.tier == "quick"
    frames = make_frames(rng, 20)
    idx = 0

    def do(tag, V, F, placements, dens, n_over, fr, routes=("mesh", "free")):
        ov = make_overrides(rng, V)[:n_over]
        for pname, scale, trans in placements:
            # overrides live in the placed coordinates
            ovp = [tuple(((np.array(o) + trans) * scale).tolist()) for o in ov]
            check_mesh(run, tag, V, F, pname, scale, trans, densities=dens, overrides=ovp, frames=fr, routes=routes)

    # (1) catalogue of closed meshes: every placement, all densities, both overrides, 20 frames
    n_cat = 8 if quick else 40
    for tag, V, F in gm.closed_meshes(rng, count=n_cat):
        idx += 1
        if not run.mine(idx):
            continue
        run.count("catalogue_meshes")
        # solids away from the origin: basic quantities, one density, no override
        do(tag, V, F, FAR_PLACEMENTS, DENSITIES[2:3], 0, frames[:2])
        do(tag, V, F, PLACEMENTS, DENSITIES, 2, frames)
        # solids below the absolute volume cut-off of the code, well conditioned
        do(tag, V, F, TINY_PLACEMENTS, DENSITIES[2:3], 1, frames[:3])
        # inverted copy: negative volume, same centre of mass, negated tensor
        Vi, Fi = gm.invert(V, F)
        do(tag + "_inverted", Vi, Fi, PLACEMENTS[:2], DENSITIES[:1], 1, frames[:4])
        if run.out_of_time(0.27):
            run.count("catalogue_cut_short")
            break

    run.note("t_catalogue", round(run.elapsed(), 1))
    # (1x) extreme scales: area / volume only
    for tag, V, F in [("box", *gm.box_int((2, 3, 4), (-1, -2, 1))), ("tetra", *gm.tetra(rng)), ("hull", *gm.hull_int(rng, 8))]:
        for pname, sc in EXTREME_SCALES:
            idx += 1
            if run.mine(idx):
                check_extreme_scale(run, tag, V, F, pname, sc)
    # (1y) primitive objects
    for rnd in range(2 if quick else 12):
        for cls in PRIM_CLASSES:
            idx += 1
            if run.mine(idx):
                check_primitive(run, random_primitive_spec(rng, cls))
        if run.out_of_time(0.34):
            break
    run.note("t_primitives", round(run.elapsed(), 1))
    # (1b) the same integrals after the library itself moved the mesh (values warm or cold)
    k = 0
    for tag, V, F in gm.closed_meshes(rng, count=4 if quick else 20):
        for cls, L in INT_MATRICES:
            for warm in (True, False):
                idx += 1
                k += 1
                if not run.mine(idx):
                    continue
                check_after_transform(run, tag, V, F, cls, L, [3, -2, 5] if k % 2 else [0, 0, 0], warm)
        if run.out_of_time(0.38):
            break

    run.note("t_after_transform", round(run.elapsed(), 1))
    # (1b') read - almost-rigid edit - read on one object; whole-number arguments in other representations
    near_meshes = [("tetra", gm.tetra(rng)), ("hull", gm.hull_int(rng, 6))]
    if not quick:
        near_meshes += [(t_, (V_, F_)) for t_, V_, F_ in gm.closed_meshes(rng, count=6)]
    for mi, (tag, (V, F)) in enumerate(near_meshes):
        for ki, kind in enumerate(NEAR_KINDS):
            for ei, e in enumerate(NEAR_EPS):
                for sign in (1.0, -1.0):
                    idx += 1
                    ops = near_rigid_ops(rng, kind, sign * e, 3 if (ei + ki) % 3 == 0 else 1)
                    # quick tier: both signs on the first mesh, alternating on the second
                    if not run.mine(idx) or (quick and mi == 1 and (ei + (sign > 0)) % 2):
                        continue
                    check_near_rigid(run, tag, V, F, kind, ops, True)
                    if sign > 0 and ei % 3 == 0:
                        check_near_rigid(run, tag, V, F, kind, ops, False)
        if run.out_of_time(0.46):
            run.count("near_rigid_cut_short")
            break
    run.note("t_near_rigid", round(run.elapsed(), 1))
    arg_meshes = [("tetra", gm.tetra(rng)), ("hull", gm.hull_int(rng, 6)), ("box", gm.box_int((2, 3, 4), (0, 0, 0)))]
    arg_meshes += [(t_, (V_, F_)) for t_, V_, F_ in gm.closed_meshes(rng, count=1 if quick else 8)][2:]
    k = 0
    for tag, (V, F) in arg_meshes:
        for _rep in range(2 if quick else 6):
            idx += 1
            k += 1
            if run.mine(idx):
                check_argument_forms(run, tag, V, F, random_argform_spec(rng, k))
        if run.out_of_time(0.52):
            run.count("argument_forms_cut_short")
            break
    run.note("t_argument_forms", round(run.elapsed(), 1))
    # (1c) histories over objects related by copy(include_cache=...): read / copy / edit one / judge all
    hist_meshes = [("tetra", gm.tetra(rng)), ("hull", gm.hull_int(rng, 7))]
    more = [(t_, (V_, F_)) for t_, V_, F_ in gm.closed_meshes(rng, count=1 if quick else 8)]
    hist_meshes += more[2:] if quick else more  # quick: genus-1 torus, L prism, one random class
    n_hist = 0
    for hi, (tag, (V, F)) in enumerate(hist_meshes):
        if hi >= 2 and run.out_of_time(0.58):
            run.count("systematic_histories_cut_short")
            break
        for prog in history_programs(rng, V):
            idx += 1
            if not run.mine(idx):
                continue
            check_history(run, tag, V, F, prog)
            n_hist += 1
    run.count("systematic_histories", n_hist)
    run.note("t_histories", round(run.elapsed(), 1))

    # (2) zero-volume pillows: only volume / area are judged
    for k in range(3):
        idx += 1
        if not run.mine(idx):
            continue
        V, F = gm.pillow()
        V = V + rng.integers(-4, 5, size=3)
        do("pillow", V, F, PLACEMENTS[:3], DENSITIES[:1], 0, frames[:1])

    # (3) the tetrahedron family: all relabelings and signed axis permutations
    for tag, V, F in tetra_family(rng, extra=1 if quick else 4):
        idx += 1
        if not run.mine(idx):
            continue
        if run.out_of_time(0.80):
            run.count("tetra_family_cut_short")
            break
        do(tag, V, F, PLACEMENTS[:2] if quick else PLACEMENTS, DENSITIES[2:3], 1, frames[:3])

    run.note("t_tetra_family", round(run.elapsed(), 1))
    # (4) random asymmetric solids until the budget is used
    cap = 400 if quick else 10**9
    n = 0
    while not run.out_of_time(0.92) and n < cap:
        n += 1
        if n % 3 == 0:
            # a random history on a random small solid
            tag, (V, F) = ("tetra", gm.tetra(rng)) if rng.random() < 0.5 else ("hull", gm.hull_int(rng, int(rng.integers(5, 9))))
            check_history(run, tag, V, F, random_history(rng, V, int(rng.integers(4, 10))))
            run.count("random_histories")
            continue
        r = int(rng.integers(4))
        if r == 0:
            tag, (V, F) = "tetra", gm.tetra(rng)
        elif r == 1:
            tag, (V, F) = "hull", gm.hull_int(rng, int(rng.integers(5, 13)))
        elif r == 2:
            tag, (V, F) = "polycube", gm.random_polycube(rng, int(rng.integers(2, 8)))
        else:
            a = gm.hull_int(rng, 7)
            b = gm.tetra(rng)
            tag, (V, F) = "multibody_touching_or_overlapping", gm.concat([a, (gm.translate(b[0], rng.integers(-3, 4, size=3)), b[1])])
        allp = PLACEMENTS + TINY_PLACEMENTS
        pl = [PLACEMENTS[0], allp[int(rng.integers(1, len(allp)))]]
        fr = [frames[0]] + make_frames(rng, 4)[2:]
        do(tag, V, F, pl, (DENSITIES[int(rng.integers(len(DENSITIES)))],), 1, fr)
    run.count("random_solids", n)



# ------------------------------------------------------------------------------------------
# extreme scales: area and volume are ordinary float64 numbers, their squares are not


def check_extreme_scale(run, tag, V, F, pname, scale):
    import trimesh
    from trimesh import triangles as ttri

    V = np.asarray(V, dtype=np.int64)
    F = np.asarray(F, dtype=np.int64)
    ex0 = exact_mass(V, F)  # the integer solid: cancellation ratio of the volume integral (scale invariant)
    if ex0.volume == 0:
        return
    Vf = V.astype(np.float64) * float(scale)
    with np.errstate(all="ignore"):
        ex = exact_mass(Vf, F)  # exact values of the scaled floats (the magnitude bounds may overflow: not used)
    vol, area = float(ex.volume), float(ex.area)
    tol_a = 64 * EPS * area  # a sum of positive terms
    tol_v = 64 * EPS * abs(vol) * (ex0.mag_volume / abs(float(ex0.volume)))
    case = {"route": "extreme_scale", "mesh": tag, "V": V.tolist(), "F": F.tolist(), "placement": pname, "scale": scale}
    run.case("extreme_scale:%s" % pname, V, F, pname, nontrivial=True)
    run.state("placement", pname)
    tri = Vf[F]
    reads = []
    try:
        with np.errstate(all="ignore"):
            m = trimesh.Trimesh(vertices=Vf.copy(), faces=F.copy(), process=False)
            reads = [("mesh", "area", float(m.area), area, tol_a),
                     ("mesh", "area_faces_sum", float(np.sum(m.area_faces)), area, tol_a),
                     ("mesh", "volume", float(m.volume), vol, tol_v),
                     ("free", "area", float(np.sum(ttri.area(tri))), area, tol_a),
                     ("free", "area_crosses", float(np.sum(ttri.area(crosses=ttri.cross(tri)))), area, tol_a),
                     ("free", "volume", float(ttri.mass_properties(tri, skip_inertia=True)["volume"]), vol, tol_v)]
    except Exception as e:  # noqa
        run.violation("route=extreme_scale sym=exception:%s" % type(e).__name__,
                      "area / volume of a solid scaled by %g raised %r" % (scale, e), case)
        return
    for fam, qty, got, want, tol in reads:
        run.count("comparisons")
        if np.isfinite(got) and abs(got - want) <= tol:
            continue
        q = qty.split("_")[0]
        if got == 0.0 or not np.isfinite(got) or abs(got - want) <= 1e-3 * abs(want):
            # zero, inf or a few digits: an intermediate square left the float64 range
            key = "route=%s qty=%s input=extreme_scale sym=intermediate_out_of_float_range" % (fam, q)
        else:
            key = "route=%s qty=%s input=extreme_scale sym=wrong_value" % (fam, q)
        run.violation(key, "%s (%s) of a solid scaled by %g is %r, exact %r: both are ordinary float64 numbers"
                      % (qty, fam, scale, got, want), dict(case, qty=qty, got=got, expected=want))


# ------------------------------------------------------------------------------------------
# primitive objects: density / override laws, triangle-derived values

PRIM_CLASSES = ("Box", "Cylinder", "Capsule", "Sphere", "Extrusion")


def random_primitive_spec(rng, cls):
    """JSON-able (class, parameters, rigid placement, density, override offset, warm)"""
    Rf = gm.frac_to_float(gm.rational_rotation(rng, maxq=4))
    T = np.eye(4)
    T[:3, :3] = Rf
    T[:3, 3] = rng.integers(-20, 21, size=3) * 0.25
    q = lambda lo, hi: float(rng.integers(lo, hi)) * 0.125  # noqa: E731  dyadic parameters
    if cls == "Box":
        par = {"extents": [q(2, 40), q(2, 40), q(2, 40)]}
    elif cls == "Cylinder":
        par = {"radius": q(2, 24), "height": q(2, 48), "sections": int(rng.integers(3, 20))}
    elif cls == "Capsule":
        par = {"radius": q(2, 16), "height": q(2, 32), "sections": int(rng.integers(4, 9))}
    elif cls == "Sphere":
        par = {"radius": q(2, 24), "subdivisions": int(rng.integers(0, 3)),
               "center": (rng.integers(-20, 21, size=3) * 0.25).tolist()}
        T = None  # a sphere is placed by its centre
    else:
        n = int(rng.integers(3, 8))
        ang = np.sort(rng.random(n)) * 2 * np.pi
        rad = 1.0 + rng.integers(0, 8, size=n) * 0.25
        par = {"polygon": np.round(np.column_stack([rad * np.cos(ang), rad * np.sin(ang)]) * 64) / 64, "height": q(2, 24)}
        par["polygon"] = par["polygon"].tolist()
    return {"route": "primitive", "cls": cls, "params": par, "T": None if T is None else T.tolist(),
            "density": float((0.5, 7.25, 1e3)[int(rng.integers(3))] * (1 + int(rng.integers(3)))),  # never 1
            "offset": (rng.integers(1, 9, size=3) * 0.125 * rng.choice([-1, 1], size=3)).tolist(),  # never 0
            "warm": bool(rng.random() < 0.5)}


def build_primitive(spec):
    from trimesh import primitives

    par = dict(spec["params"])
    if spec["cls"] == "Extrusion":
        from shapely.geometry import Polygon

        poly = Polygon(par.pop("polygon"))
        if not poly.is_valid or poly.area < 1e-3:
            return None
        par["polygon"] = poly
    if spec["T"] is not None:
        par["transform"] = np.array(spec["T"], dtype=np.float64)
    return getattr(primitives, spec["cls"])(**par)


PRIM_READS = ("mass", "volume", "center_mass", "moment_inertia", "mass_properties", "density", "area")


def check_primitive(run, spec):
    """
    One primitive object.  (a) values computed from its triangles by base.py (`mass_properties`,
    `moment_inertia_frame`) against the exact integrals of its own vertices / faces;
    (b) density rho: mass, moment_inertia, the dict tensor and the frame tensor are rho x the
    values of a twin object at the default density;  (c) override c' = c + offset: reported back,
    moment_inertia = (tensor reported before) + m PA(c' - c) - the parallel-axis law from the
    centroid, whichever solid (ideal or tessellated) the accessor describes.
    """
    cls, rho, warm = spec["cls"], float(spec["density"]), bool(spec["warm"])
    try:
        twin, obj = build_primitive(spec), build_primitive(spec)
    except Exception as e:  # noqa
        run.violation("route=primitive class=%s sym=exception:%s" % (cls, type(e).__name__),
                      "constructing the primitive raised %r" % (e,), spec)
        return
    if obj is None:
        run.skip("invalid_random_polygon")
        return
    run.case("primitive:%s" % cls, repr(spec), nontrivial=True)
    run.state("primitive_class_warm", (cls, warm))
    T = np.eye(4)
    T[:3, :3] = [[0.0, -1.0, 0.0], [1.0, 0.0, 0.0], [0.0, 0.0, 1.0]]
    T[:3, 3] = [3.0, -2.0, 5.0]

    def law(qty, got, want, sym, what, rel=64 * EPS, also=()):
        run.count("comparisons")
        got, want = np.asarray(got, dtype=np.float64), np.asarray(want, dtype=np.float64)
        for w in (want,) + tuple(also):
            tol = rel * max(float(np.abs(w).max()), 1e-300)
            if got.shape == w.shape and np.isfinite(got).all() and np.all(np.abs(got - w) <= tol):
                return True
        run.violation("route=primitive class=%s qty=%s sym=%s" % (cls, qty, sym), what,
                      dict(spec, qty=qty, got=got, expected=want))
        return False

    try:
        # the twin stays at the default density / centre: reference of the laws
        m1, I1, c1 = float(twin.mass), np.array(twin.moment_inertia), np.array(twin.center_mass)
        D1, F1 = np.array(twin.mass_properties["inertia"]), np.array(twin.moment_inertia_frame(T))
        # (a) triangle-derived values of the object against the exact integrals of its own mesh
        ctx = Ctx(run, "primitive:" + cls, np.array(obj.vertices, dtype=np.float64), np.array(obj.faces), "asis", 1.0, 0.0)
        # the witness is the spec (replay rebuilds the primitive), not its tessellation
        ctx.V0, ctx.F = np.zeros((0, 3)), np.zeros((0, 3), dtype=np.int64)
        ctx.case_extra = dict(spec)
        if warm:
            for name in PRIM_READS:
                getattr(obj, name)
            obj.moment_inertia_frame(T)
        obj.density = rho
        route = "primitive:" + cls
        if ctx.solid:
            mp = obj.mass_properties
            tv = ctx.ex.tol_volume()
            I, tI, _a = _tensor_expect(ctx, None, rho)
            ctx.judge(route + ":dict", "volume", mp["volume"], ctx.vol, tv, "set")
            ctx.judge(route + ":dict", "mass", mp["mass"], ctx.vol * rho, tv * rho * (1 + 4 * EPS), "set")
            ctx.judge(route, "mass", obj.mass, ctx.vol * rho, tv * rho * (1 + 4 * EPS), "set")
            ctx.judge(route, "density", obj.density, rho, 0.0, "set")
            ctx.judge(route + ":dict", "center_mass", mp["center_mass"], ctx.c, ctx.tc, "set")
            ctx.judge(route, "center_mass", obj.center_mass, ctx.c, ctx.tc, "set")
            ctx.judge(route + ":dict", "inertia", mp["inertia"], I, tI, "set")
            Ie, tIe, _a = _frame_expect(ctx, T[:3, :3], T[:3, 3], None, rho)
            ctx.judge(route + ":frame", "inertia", obj.moment_inertia_frame(T), Ie, tIe, "set")
        # (b) density scales mass and every reported tensor linearly
        law("mass", obj.mass, rho * m1, "density_not_linear", "mass of a %s at density %g is not density x the mass at density 1" % (cls, rho))
        law("inertia", obj.moment_inertia, rho * I1, "density_not_linear",
            "moment_inertia of a %s at density %g is not density x the tensor at density 1" % (cls, rho))
        law("inertia_dict", obj.mass_properties["inertia"], rho * D1, "density_not_linear",
            "mass_properties.inertia of a %s does not scale with the density" % cls)
        law("inertia_frame", obj.moment_inertia_frame(T), rho * F1, "density_not_linear",
            "moment_inertia_frame of a %s does not scale with the density" % cls)
        # (c) override: reported back; the tensor moves to it by the parallel-axis law
        Ib, mb = np.array(obj.moment_inertia), float(obj.mass)
        ov = c1 + np.array(spec["offset"], dtype=np.float64)
        obj.center_mass = ov.copy()
        run.count("comparisons")
        if not np.array_equal(np.asarray(obj.center_mass, dtype=np.float64), ov):
            run.violation("route=primitive class=%s qty=center_mass sym=override_not_reported" % cls,
                          "an overridden center_mass of a %s is not reported back" % cls, dict(spec, got=obj.center_mass, expected=ov))
        d = ov - c1
        pa = float(d @ d) * np.eye(3) - np.outer(d, d)
        # m: the mass the object reports, or density x the (analytic) volume it reports
        want, want2 = Ib + mb * pa, Ib + rho * float(obj.volume) * pa
        got = np.array(obj.moment_inertia)
        if np.any(d):
            unchanged = np.all(np.abs(got - Ib) <= 64 * EPS * np.abs(Ib).max())
            law("inertia", got, want, "override_ignored" if unchanged else "override_wrong_value",
                "moment_inertia of a %s with an overridden center_mass is not the tensor reported before moved to the "
                "override by the parallel-axis law" % cls, rel=1e-9, also=(want2,))
    except Exception as e:  # noqa
        run.violation("route=primitive class=%s sym=exception:%s" % (cls, type(e).__name__),
                      "mass properties of a primitive raised %r" % (e,), spec)


INT_MATRICES = [
    ("shear_unimodular", [[1, 2, 0], [0, 1, 0], [0, 0, 1]]),
    ("unimodular", [[2, 1, 0], [1, 1, 0], [0, 1, 1]]),
    ("aniso", [[2, 0, 0], [0, 1, 0], [0, 0, 3]]),
    ("mirror", [[1, 0, 0], [0, 1, 0], [0, 0, -1]]),
    ("mirror_shear", [[1, 1, 0], [0, -1, 0], [0, 0, 1]]),
    ("rot90", [[0, -1, 0], [1, 0, 0], [0, 0, 1]]),
    ("uniform2", [[2, 0, 0], [0, 2, 0], [0, 0, 2]]),
]


def check_after_transform(run, tag, V, F, cls, L, t, warm):
    """
    The integrals of a mesh that was MOVED by the library (apply_transform with an integer
    matrix, values read beforehand or not) against the exact integrals of the moved integer
    vertices: the statement is about the current solid, whatever was computed before.
    """
    import trimesh  # noqa

    L = np.array(L, dtype=np.int64)
    t = np.array(t, dtype=np.int64)
    m = gm.to_trimesh(V, F)
    if warm:
        _ = (m.area, m.area_faces, m.volume, m.center_mass, m.moment_inertia, m.mass_properties, m.face_normals)
    M = np.eye(4)
    M[:3, :3] = L
    M[:3, 3] = t
    case = {"route": "after_transform", "tag": tag, "V": np.asarray(V).tolist(), "F": np.asarray(F).tolist(),
            "cls": cls, "L": L.tolist(), "t": t.tolist(), "warm": bool(warm)}
    try:
        m.apply_transform(M)
        got = {"area": float(m.area), "volume": float(m.volume), "center_mass": np.array(m.center_mass, dtype=np.float64),
               "inertia": np.array(m.moment_inertia, dtype=np.float64)}
    except Exception as e:  # noqa
        run.violation("route=after_transform class=%s warm=%s sym=exception:%s" % (cls, warm, type(e).__name__),
                      "reading mass properties after apply_transform raised", dict(case, error=repr(e)))
        return
    V2 = np.asarray(V, dtype=np.int64) @ L.T + t
    det = int(round(np.linalg.det(L.astype(np.float64))))
    F2 = np.asarray(F)[:, ::-1] if det < 0 else np.asarray(F)
    em = exact_mass(V2, F2)
    run.case("after_transform:%s:%s" % (cls, "warm" if warm else "cold"), np.asarray(V), np.asarray(F), cls, warm,
             nontrivial=True)
    size = float(np.abs(V2).max()) + 1.0
    vol = float(em.volume)
    checks = [("area", got["area"], em.area, 1e-9 * max(1.0, em.area)),
              ("volume", got["volume"], vol, 1e-9 * max(1.0, size ** 3))]
    if abs(vol) > 1e-9:
        cm = np.array([float(x) for x in em.center_mass()])
        checks.append(("center_mass", got["center_mass"], cm, 1e-9 * size))
        I = np.array([[float(x) for x in row] for row in em.inertia_com()])
        checks.append(("inertia", got["inertia"], I, 1e-9 * max(1.0, size ** 5)))
    for name, g, w, tol in checks:
        if not np.all(np.abs(np.asarray(g) - np.asarray(w)) <= tol):
            run.violation("route=after_transform class=%s warm=%s qty=%s sym=wrong_value" % (cls, "yes" if warm else "no", name),
                          "`%s` of a mesh moved by apply_transform differs from the exact integral over the moved solid" % name,
                          dict(case, got=np.asarray(g).tolist(), want=np.asarray(w).tolist()))


# ------------------------------------------------------------------------------------------
# round 5: transforms NEAR a rigid motion / the identity (read - transform - read on one object)

NEAR_EPS = (1e-4, 3e-5, 8e-6, 2e-6, 1e-6, 1e-7, 1e-9)
NEAR_KINDS = ("scale", "similarity", "mirror_similarity", "aniso", "shear", "rotation_small", "translation_small")
NEAR_READS = ("area", "area_faces", "volume", "mass", "center_mass", "moment_inertia", "mass_properties",
              "principal_inertia_components", "face_normals", "triangles")


def near_rigid_ops(rng, kind, e, steps):
    """JSON-able list of `steps` operations of class `kind`, each off a rigid motion / the identity by e"""
    ops = []
    for _ in range(steps):
        if kind == "scale":
            ops.append(["scale", 1.0 + e])
            continue
        if kind == "translation_small":
            ops.append(["translate", (e * np.array([1.0, -2.0, 3.0])).tolist()])
            continue
        M = np.eye(4)
        if kind in ("similarity", "mirror_similarity"):
            R = gm.frac_to_float(gm.rational_rotation(rng, maxq=4))
            if kind == "mirror_similarity":
                R = R @ np.diag([1.0, 1.0, -1.0])
            M[:3, :3] = (1.0 + e) * R
            M[:3, 3] = rng.integers(-5, 6, size=3)
        elif kind == "aniso":
            M[:3, :3] = np.diag([1.0 + e, 1.0, 1.0 - e / 2])
        elif kind == "shear":
            M[0, 1] = e
            M[2, 0] = -e / 2
        elif kind == "rotation_small":
            c, s_ = np.cos(e), np.sin(e)
            M[:3, :3] = [[c, -s_, 0.0], [s_, c, 0.0], [0.0, 0.0, 1.0]]
        else:
            raise AssertionError(kind)
        ops.append(["transform", M.tolist()])
    return ops


def check_near_rigid(run, tag, V, F, kind, ops, warm):
    """
    One object: (read everything | read nothing) - edit by an operation that is ALMOST a rigid motion /
    the identity - read again, repeated for every operation.  After every step the values are judged
    against the exact integrals of the float64 vertices / faces the object holds NOW (and those of a
    cache-sharing copy taken before the step against the solid the copy holds): the statement is about
    the current solid, however close the previous one was.
    """
    V = np.asarray(V, dtype=np.int64)
    F = np.asarray(F, dtype=np.int64)
    m = gm.to_trimesh(V, F)
    wk = "yes" if warm else "no"
    T = np.eye(4)
    T[:3, :3] = [[0.0, -1.0, 0.0], [1.0, 0.0, 0.0], [0.0, 0.0, 1.0]]
    T[:3, 3] = [3.0, -2.0, 5.0]

    def read(mm):
        out = {"area": float(mm.area), "area_faces_sum": float(np.sum(mm.area_faces)), "volume": float(mm.volume),
               "mass": float(mm.mass), "center_mass": np.array(mm.center_mass, dtype=np.float64),
               "inertia": np.array(mm.moment_inertia, dtype=np.float64)}
        mp = mm.mass_properties
        out["dict_volume"], out["dict_center_mass"] = float(mp["volume"]), np.array(mp["center_mass"], dtype=np.float64)
        out["dict_inertia"] = np.array(mp["inertia"], dtype=np.float64)
        out["frame_inertia"] = np.array(mm.moment_inertia_frame(T), dtype=np.float64)
        return out

    def judge(mm, route, old, extra):
        ctx = Ctx(run, tag, np.array(mm.vertices, dtype=np.float64), np.array(mm.faces), "asis", 1.0, 0.0)
        ctx.V0, ctx.F = V, F  # the witness: the integer mesh and the operations
        ctx.case_extra = extra
        if not ctx.solid:
            return None, True
        got = read(mm)
        tv, ex = ctx.ex.tol_volume(), ctx.ex

        def alt(q):
            if old is None:
                return ()
            return (("class=%s warm=%s sym=stale_value_from_before_the_edit" % (kind, wk), old[q], 0.0),)

        I, tI, _a = _tensor_expect(ctx, None, 1.0)
        Ie, tIe, _a = _frame_expect(ctx, T[:3, :3], T[:3, 3], None, 1.0)
        before = ctx.unnamed + len(ctx.named)
        ctx.judge(route, "area", got["area"], ex.area, ex.tol_area(), alts=alt("area"))
        ctx.judge(route, "area_faces_sum", got["area_faces_sum"], ex.area, ex.tol_area(), alts=alt("area_faces_sum"))
        ctx.judge(route, "volume", got["volume"], ctx.vol, tv, alts=alt("volume"))
        ctx.judge(route, "mass", got["mass"], ctx.vol, tv, alts=alt("mass"))
        ctx.judge(route, "center_mass", got["center_mass"], ctx.c, ctx.tc, alts=alt("center_mass"))
        ctx.judge(route, "inertia", got["inertia"], I, tI, alts=alt("inertia"))
        ctx.judge(route + ":dict", "volume", got["dict_volume"], ctx.vol, tv, alts=alt("dict_volume"))
        ctx.judge(route + ":dict", "center_mass", got["dict_center_mass"], ctx.c, ctx.tc, alts=alt("dict_center_mass"))
        ctx.judge(route + ":dict", "inertia", got["dict_inertia"], I, tI, alts=alt("dict_inertia"))
        ctx.judge(route + ":frame", "inertia", got["frame_inertia"], Ie, tIe, alts=alt("frame_inertia"))
        run.note("worst_ratio_to_tolerance", max(run.notes.get("worst_ratio_to_tolerance", 0.0), ctx.worst))
        return got, ctx.unnamed + len(ctx.named) == before

    old = None
    for si, op in enumerate(ops):
        prefix = ops[: si + 1]
        extra = {"near_ops": prefix, "near_kind": kind, "warm": bool(warm)}
        try:
            twin = None
            if warm:
                for name in NEAR_READS:
                    getattr(m, name)
                old = read(m)
                twin = m.copy(include_cache=True)
            if op[0] == "scale":
                m.apply_scale(float(op[1]))
            elif op[0] == "translate":
                m.apply_translation(np.array(op[1], dtype=np.float64))
            else:
                m.apply_transform(np.array(op[1], dtype=np.float64))
            run.case("near_rigid:%s:%s" % (kind, "warm" if warm else "cold"), V, F, repr(prefix), warm, nontrivial=True)
            run.state("near_rigid_kind_warm_step", (kind, bool(warm), min(si, 2)))
            _g, ok = judge(m, "nearrigid:%s:warm=%s" % (kind, wk), old if warm else None, extra)
            if twin is not None:
                _g2, ok2 = judge(twin, "nearrigid:%s:warm=%s:cache_sharing_copy" % (kind, wk), None, extra)
                ok = ok and ok2
        except Exception as e:  # noqa
            run.violation("route=nearrigid class=%s warm=%s sym=exception:%s" % (kind, wk, type(e).__name__),
                          "a read - almost-rigid edit - read history raised %r" % (e,),
                          dict(extra, V=V.tolist(), F=F.tolist(), mesh=tag))
            return
        if not ok:
            return  # a stale value stays stale: later steps would repeat it


# ------------------------------------------------------------------------------------------
# round 5: the same numbers handed over in another representation (dtype / container / layout)


def _forms(allow_narrow=True):
    """name -> converter of an array of WHOLE numbers into another representation of the same values"""
    def ro(A):
        B = np.array(A, dtype=np.float64)
        B.setflags(write=False)
        return B

    def strided(A):
        A = np.array(A, dtype=np.float64)
        big = np.zeros(tuple(2 * n for n in A.shape), dtype=np.float64)
        view = big[tuple(slice(None, None, 2) for _ in A.shape)]
        view[...] = A
        return view

    f = {
        "int64": lambda A: np.array(A, dtype=np.int64),
        "int32": lambda A: np.array(A, dtype=np.int32),
        "nested_list_of_int": lambda A: np.array(A, dtype=np.int64).tolist(),
        "nested_tuple_of_int": lambda A: _tuples(np.array(A, dtype=np.int64).tolist()),
        "nested_list_of_float": lambda A: np.array(A, dtype=np.float64).tolist(),
        "float32": lambda A: np.array(A, dtype=np.float32),
        "fortran_order_float64": lambda A: np.asfortranarray(np.array(A, dtype=np.float64)),
        "readonly_float64": ro,
        "strided_view_float64": strided,
    }
    if allow_narrow:
        f["int8"] = lambda A: np.array(A, dtype=np.int8)
        f["float16"] = lambda A: np.array(A, dtype=np.float16)
    return f


def _tuples(x):
    return tuple(_tuples(y) for y in x) if isinstance(x, list) else x


SCALAR_FORMS = {
    "int": int, "np_int64": np.int64, "np_int32": np.int32, "np_float32": np.float32, "np_float16": np.float16,
    "zero_dim_array": lambda x: np.array(float(x)),
}

INT_ROTATIONS = [np.array(R, dtype=np.int64) for R in (
    [[1, 0, 0], [0, 1, 0], [0, 0, 1]], [[0, -1, 0], [1, 0, 0], [0, 0, 1]], [[0, 0, 1], [1, 0, 0], [0, 1, 0]],
    [[-1, 0, 0], [0, -1, 0], [0, 0, 1]], [[0, 1, 0], [0, 0, -1], [-1, 0, 0]], [[1, 0, 0], [0, 0, -1], [0, 1, 0]],
)]


def random_argform_spec(rng, k):
    return {"R": INT_ROTATIONS[k % len(INT_ROTATIONS)].tolist(),
            "t": [0, 0, 0] if k % 3 == 0 else rng.integers(-6, 7, size=3).tolist(),
            "ov": rng.integers(-5, 6, size=3).tolist(), "rho": int(rng.integers(2, 9)),
            "half": bool(k % 2)}


def check_argument_forms(run, tag, V, F, spec):
    """
    Frames, overrides, densities, triangles, vertices and tensors made of whole numbers, handed to the
    library as int arrays / nested lists / tuples / float32 / float16 / other memory layouts: the same
    numbers, so the same solid, frame, density and override - judged like the float64 form against
    the exact integrals.  `half`: the solid is (V + 1/2) / 2 (a centre of mass with fractional
    coordinates whatever the mesh), only the arguments are whole numbers.
    """
    import trimesh  # noqa
    from trimesh import inertia as tinertia
    from trimesh import triangles as ttri

    V = np.asarray(V, dtype=np.int64)
    F = np.asarray(F, dtype=np.int64)
    half = bool(spec.get("half"))
    pname, scale, trans = ("half_offset_scaled", 0.5, 0.5) if half else ("asis", 1.0, 0.0)
    ctx = Ctx(run, tag, V, F, pname, scale, trans)
    ctx.case_extra = {"argform": {k: spec[k] for k in ("R", "t", "ov", "rho", "half")}}
    if not ctx.solid:
        return
    ex, tv = ctx.ex, ctx.ex.tol_volume()
    R, t = np.array(spec["R"], dtype=np.int64), np.array(spec["t"], dtype=np.int64)
    ov, rho = np.array(spec["ov"], dtype=np.int64), int(spec["rho"])
    Rf, tf, ovf = R.astype(np.float64), t.astype(np.float64), ov.astype(np.float64)
    T = np.eye(4, dtype=np.int64)
    T[:3, :3], T[:3, 3] = R, t
    narrow = int(np.abs(V).max()) < 100
    forms = _forms()
    Ie, tIe, _a = _frame_expect(ctx, Rf, tf, None, 1.0)
    I1, tI1, _a = _tensor_expect(ctx, None, 1.0)
    Iro, tIro, aIro = _tensor_expect(ctx, ovf.tolist(), float(rho))
    Iero, tIero, aIero = _frame_expect(ctx, Rf, tf, ovf.tolist(), float(rho))
    # an integer tensor and mass for the free function transform_inertia; truth by integer algebra
    J = np.array([[7, -2, 1], [-2, 9, 3], [1, 3, 11]], dtype=np.int64)
    pa = int(t @ t) * np.eye(3, dtype=np.int64) - np.outer(t, t)
    want_rot = (R @ J @ R.T).astype(np.float64)
    want_pa = (R.T @ (J + rho * pa) @ R).astype(np.float64)

    for fname, conv in forms.items():
        route = "argform:" + fname
        try:
            run.case(route, ctx.Vf, F, fname, repr(spec), nontrivial=True)
            run.state("argument_form", fname)
            m = trimesh.Trimesh(vertices=ctx.Vf.copy(), faces=F.copy(), process=False)
            # (a) the frame
            ctx.judge(route + ":frame", "inertia", m.moment_inertia_frame(conv(T)), Ie, tIe, form=fname)
            _ = (m.area, m.moment_inertia)
            ctx.judge(route + ":frame_warm", "inertia", m.moment_inertia_frame(conv(T)), Ie, tIe, form=fname)
            # (b) density and override through the setters, then everything again
            sform = list(SCALAR_FORMS)[(len(fname) + rho) % len(SCALAR_FORMS)]
            m.density = SCALAR_FORMS[sform](rho)
            m.center_mass = conv(ov)
            run.state("scalar_form", sform)
            r = float(rho)
            ctx.judge(route + ":setters", "mass", m.mass, ctx.vol * r, tv * r * (1 + 4 * EPS), "set", "yes", form=fname, scalar_form=sform)
            ctx.judge(route + ":setters", "density", m.density, r, 0.0, "set", "yes", form=fname, scalar_form=sform)
            ctx.judge(route + ":setters", "center_mass", m.center_mass, ovf, 0.0, "set", "yes", form=fname)
            ctx.judge(route + ":setters", "inertia", m.moment_inertia, Iro, tIro, "set", "yes", alts=aIro, form=fname, scalar_form=sform)
            ctx.judge(route + ":setters_frame", "inertia", m.moment_inertia_frame(conv(T)), Iero, tIero, "set", "yes", alts=aIero,
                      form=fname, scalar_form=sform)
            # (c) free functions: density / override arguments; the tensor routines
            res = ttri.mass_properties(ctx.Vf[F].copy(), density=SCALAR_FORMS[sform](rho), center_mass=conv(ov))
            ctx.judge(route + ":free", "mass", res["mass"], ctx.vol * r, tv * r * (1 + 4 * EPS), "set", "yes", form=fname, scalar_form=sform)
            ctx.judge(route + ":free", "center_mass", res["center_mass"], ovf, 0.0, "set", "yes", form=fname)
            ctx.judge(route + ":free", "inertia", res["inertia"], Iro, tIro, "set", "yes", alts=aIro, form=fname, scalar_form=sform)
            ctx.judge(route + ":transform_inertia_3x3", "rotated", tinertia.transform_inertia(conv(R), conv(J)), want_rot, 64 * EPS * 64, form=fname)
            ctx.judge(route + ":transform_inertia_4x4", "rotated", tinertia.transform_inertia(conv(T), conv(J)), want_rot, 64 * EPS * 64, form=fname)
            ctx.judge(route + ":transform_inertia_4x4", "parallel_axis",
                      tinertia.transform_inertia(conv(T), conv(J), parallel_axis=True, mass=SCALAR_FORMS[sform](rho)),
                      want_pa, 64 * EPS * float(np.abs(want_pa).max() + 64), form=fname, scalar_form=sform)
            # (d) the solid itself in that form (whole-number coordinates only; narrow types when they fit)
            if not half and (narrow or fname not in ("int8", "float16")):
                tri = conv(V[F])
                res = ttri.mass_properties(tri)
                ctx.judge(route + ":free_triangles", "volume", res["volume"], ctx.vol, tv, form=fname)
                ctx.judge(route + ":free_triangles", "center_mass", res["center_mass"], ctx.c, ctx.tc, form=fname)
                ctx.judge(route + ":free_triangles", "inertia", res["inertia"], I1, tI1, form=fname)
                ctx.judge(route + ":free_triangles", "area", float(np.sum(ttri.area(conv(V[F])))), ex.area, ex.tol_area(), form=fname)
                # (triangles.cross is the typed low-level helper - `NDArray`, "(n, 3, 3) float" - and computes in the
                # dtype it is given; it is driven with float64 only, see check_mesh)
                mv = trimesh.Trimesh(vertices=conv(V), faces=conv(F) if fname.startswith(("int", "nested_list_of_int", "nested_tuple")) else F.copy(),
                                     process=False)
                ctx.judge(route + ":mesh_vertices", "volume", mv.volume, ctx.vol, tv, form=fname)
                ctx.judge(route + ":mesh_vertices", "area", mv.area, ex.area, ex.tol_area(), form=fname)
                ctx.judge(route + ":mesh_vertices", "center_mass", mv.center_mass, ctx.c, ctx.tc, form=fname)
                ctx.judge(route + ":mesh_vertices", "inertia", mv.moment_inertia, I1, tI1, form=fname)
        except Exception as e:  # noqa
            run.violation("route=%s sym=exception:%s" % (route, type(e).__name__),
                          "whole numbers handed over as %s: the library raised %r" % (fname, e), ctx.base_case(route=route, form=fname))
    run.note("worst_ratio_to_tolerance", max(run.notes.get("worst_ratio_to_tolerance", 0.0), ctx.worst))


# ------------------------------------------------------------------------------------------
# histories over a family of objects related by copy()

HIST_READS = ("volume", "mass", "center_mass", "moment_inertia", "mass_properties", "area",
              "principal_inertia_components", "density", "moment_inertia_frame")
HIST_OPS = ("density", "override", "transform", "translate", "invert", "vertices", "scale")


def history_programs(rng, V):
    """
    Systematic part: (values read or not) x copy(include_cache) x which of the two objects is
    edited x every editing operation; then random programs.  Steps are JSON-able lists.
    """
    lo, hi = np.min(V, axis=0), np.max(V, axis=0)

    def arg(op):
        if op == "density":
            return float(DENSITIES[int(rng.integers(len(DENSITIES)))] * (1 + int(rng.integers(3))))
        if op == "override":
            return (rng.integers(lo - 3, hi + 4).astype(np.float64) + 0.25 * int(rng.integers(4))).tolist()
        if op == "transform":
            cls, L = INT_MATRICES[int(rng.integers(len(INT_MATRICES)))]
            return [cls, L, rng.integers(-5, 6, size=3).tolist()]
        if op in ("translate", "vertices"):
            return rng.integers(-7, 8, size=3).tolist()
        if op == "scale":
            return int(rng.integers(2, 4))
        return None

    out = []
    for warm in (True, False):
        for cache in (True, False):
            for target in (1, 0):
                for op in HIST_OPS:
                    prog = []
                    if warm:
                        prog.append(["read", 0, list(HIST_READS)])
                    prog.append(["copy", 0, cache])
                    prog.append([op, target, arg(op)])
                    # and once more on the other object, so both have left the shared state
                    op2 = HIST_OPS[int(rng.integers(len(HIST_OPS)))]
                    prog.append([op2, 1 - target, arg(op2)])
                    out.append(prog)
    return out


def random_history(rng, V, n_steps):
    lo, hi = np.min(V, axis=0), np.max(V, axis=0)
    prog, n = [], 1
    for _ in range(n_steps):
        r = rng.random()
        k = int(rng.integers(n))
        if r < 0.25:
            names = [x for x in HIST_READS if rng.random() < 0.5] or ["mass"]
            prog.append(["read", k, names])
        elif r < 0.45 and n < 4:
            prog.append(["copy", k, bool(rng.random() < 0.7)])
            n += 1
        else:
            op = HIST_OPS[int(rng.integers(len(HIST_OPS)))]
            if op == "density":
                a = float(DENSITIES[int(rng.integers(len(DENSITIES)))] * (1 + int(rng.integers(3))))
            elif op == "override":
                a = (rng.integers(lo - 3, hi + 4).astype(np.float64) + 0.25 * int(rng.integers(4))).tolist()
            elif op == "transform":
                cls, L = INT_MATRICES[int(rng.integers(len(INT_MATRICES)))]
                a = [cls, L, rng.integers(-5, 6, size=3).tolist()]
            elif op in ("translate", "vertices"):
                a = rng.integers(-7, 8, size=3).tolist()
            elif op == "scale":
                a = int(rng.integers(2, 4))
            else:
                a = None
            prog.append([op, k, a])
    return prog


class _Obj:
    """reference model of one mesh object: integer solid, density, override, cache lineage"""

    def __init__(self, mesh, V, F, rho=None, ov=None, group=0):
        self.mesh, self.V, self.F, self.rho, self.ov, self.group = mesh, V, F, rho, ov, group


def check_history(run, tag, V, F, program):
    """
    Execute `program` on a family of meshes and, after every step, judge every object of the
    family against the exact integrals of its own current solid / density / override.
    Coordinates stay small integers or quarter-integers (exact in float64) up to the bounded
    number of steps, so the oracle sees the very numbers the meshes hold.
    """
    import trimesh  # noqa

    V = np.asarray(V, dtype=np.int64)
    F = np.asarray(F, dtype=np.int64)
    objs = [_Obj(gm.to_trimesh(V, F), V.astype(np.float64), F.copy())]
    ctx_cache = {}
    frame_R = np.array([[0.0, -1.0, 0.0], [1.0, 0.0, 0.0], [0.0, 0.0, 1.0]])
    frame_t = np.array([3.0, -2.0, 5.0])
    T = np.eye(4)
    T[:3, :3] = frame_R
    T[:3, 3] = frame_t
    groups = 1

    for si, step in enumerate(program):
        op, k, a = step[0], int(step[1]), step[2] if len(step) > 2 else None
        if k >= len(objs):
            continue
        o = objs[k]
        m = o.mesh
        prefix = program[: si + 1]
        case = {"route": "history", "tag": tag, "V": V.tolist(), "F": F.tolist(), "program": prefix}
        try:
            if op == "read":
                for name in a:
                    if name == "moment_inertia_frame":
                        m.moment_inertia_frame(T)
                    else:
                        getattr(m, name)
            elif op == "copy":
                c = m.copy(include_cache=bool(a))
                if a:
                    grp = o.group
                else:
                    grp = groups
                    groups += 1
                objs.append(_Obj(c, o.V.copy(), o.F.copy(), o.rho, None if o.ov is None else list(o.ov), grp))
            elif op == "density":
                m.density = a
                o.rho = float(a)
            elif op == "override":
                m.center_mass = np.array(a, dtype=np.float64)
                o.ov = [float(x) for x in a]
            elif op in ("transform", "translate", "scale"):
                if op == "transform":
                    L, t = np.array(a[1], dtype=np.int64), np.array(a[2], dtype=np.int64)
                elif op == "translate":
                    L, t = np.eye(3, dtype=np.int64), np.array(a, dtype=np.int64)
                else:
                    L, t = np.eye(3, dtype=np.int64) * int(a), np.zeros(3, dtype=np.int64)
                if float(np.abs(o.V).max()) * float(np.abs(L).sum(axis=1).max()) + 8 > 2.0 ** 20:
                    continue  # keep the degree-5 integrals of the integer model far from 2^53 ulp trouble
                M = np.eye(4)
                M[:3, :3] = L
                M[:3, 3] = t
                if op == "transform":
                    m.apply_transform(M)
                elif op == "translate":
                    m.apply_translation(t.astype(np.float64))
                else:
                    m.apply_scale(float(a))
                o.V = o.V @ L.T.astype(np.float64) + t
                if o.ov is not None:
                    o.ov = (np.array(o.ov) @ L.T.astype(np.float64) + t).tolist()
                if round(float(np.linalg.det(L.astype(np.float64)))) < 0:
                    o.F = o.F[:, ::-1].copy()
            elif op == "invert":
                m.invert()
                o.F = o.F[:, ::-1].copy()
            elif op == "vertices":
                o.V = o.V + np.array(a, dtype=np.float64)
                m.vertices = o.V.copy()
            else:
                raise AssertionError(op)
        except Exception as e:  # noqa
            run.violation("route=history op=%s sym=exception:%s" % (op, type(e).__name__),
                          "step %r of a copy / edit history raised %r" % (step, e), case)
            return
        run.case("history:%s" % op, V, F, repr(prefix), nontrivial=True)
        run.state("history_step", (op, "shared_cache" if sum(1 for x in objs if x.group == o.group) > 1 else "alone"))

        # judge every object of the family
        broken = False
        for j, x in enumerate(objs):
            if op in ("read", "copy"):
                rel = "self" if (j == k or (op == "copy" and j == len(objs) - 1)) else "other"
            else:
                rel = "self" if j == k else ("cache_sharing_copy" if x.group == o.group else "plain_copy")
            route = "history:%s:%s" % (op, rel)
            key = (x.V.tobytes(), x.F.tobytes())
            ctx = ctx_cache.get(key)
            if ctx is None:
                ctx = ctx_cache[key] = Ctx(run, tag, x.V, x.F, "asis", 1.0, 0.0)
            ctx.case_extra = dict(case, object=j)
            if not ctx.solid:
                continue
            before = ctx.unnamed
            r = 1.0 if x.rho is None else x.rho
            dk = "default" if x.rho is None else "set"
            ok_ = "no" if x.ov is None else "yes"
            mm = x.mesh
            tv = ctx.ex.tol_volume()
            try:
                ctx.judge(route, "volume", mm.volume, ctx.vol, tv, dk, ok_)
                ctx.judge(route, "mass", mm.mass, ctx.vol * r, tv * r * (1 + 4 * EPS), dk, ok_)
                ctx.judge(route, "density", mm.density, r, 0.0, dk, ok_)
                ctx.judge(route, "area", mm.area, ctx.ex.area, ctx.ex.tol_area(), dk, ok_)
                if x.ov is None:
                    ctx.judge(route, "center_mass", mm.center_mass, ctx.c, ctx.tc, dk, ok_)
                else:
                    ctx.judge(route, "center_mass", mm.center_mass, np.array(x.ov, dtype=np.float64), 0.0, dk, ok_)
                I, tI, aI = _tensor_expect(ctx, x.ov, r)
                ctx.judge(route, "inertia", mm.moment_inertia, I, tI, dk, ok_, alts=aI)
                mp = mm.mass_properties
                ctx.judge(route + ":dict", "mass", mp["mass"], ctx.vol * r, tv * r * (1 + 4 * EPS), dk, ok_)
                ctx.judge(route + ":dict", "inertia", mp["inertia"], I, tI, dk, ok_, alts=aI)
                Ie, tIe, aIe = _frame_expect(ctx, frame_R, frame_t, x.ov, r)
                ctx.judge(route + ":frame", "inertia", mm.moment_inertia_frame(T), Ie, tIe, dk, ok_, alts=aIe)
            except Exception as e:  # noqa
                run.violation("route=history op=%s on=%s sym=exception:%s" % (op, rel, type(e).__name__),
                              "reading mass properties after step %r raised %r" % (step, e), dict(case, object=j))
                return
            run.note("worst_ratio_to_tolerance", max(run.notes.get("worst_ratio_to_tolerance", 0.0), ctx.worst))
            broken = broken or ctx.unnamed > before
        if broken:
            return  # a wrong object stays wrong: later steps would only repeat it under other names


def replay(run, case):
    if isinstance(case, dict) and case.get("program") is not None:
        check_history(run, case.get("tag", "replay"), np.array(case["V"]), np.array(case["F"]), case["program"])
        return
    if isinstance(case, dict) and case.get("near_ops") is not None:
        check_near_rigid(run, case.get("mesh", "replay"), np.array(case["V"]), np.array(case["F"]), case["near_kind"],
                         case["near_ops"], case["warm"])
        return
    if isinstance(case, dict) and case.get("argform") is not None:
        check_argument_forms(run, case.get("mesh", "replay"), np.array(case["V"]), np.array(case["F"]), case["argform"])
        return
    if isinstance(case, dict) and str(case.get("route", "")).startswith("primitive") and "cls" in case:
        spec = {k: case[k] for k in ("cls", "params", "T", "density", "offset", "warm")}
        spec["route"] = "primitive"
        check_primitive(run, spec)
        return
    if isinstance(case, dict) and case.get("route") == "extreme_scale":
        check_extreme_scale(run, case["mesh"], np.array(case["V"]), np.array(case["F"]), case["placement"], case["scale"])
        return
    if isinstance(case, dict) and case.get("route") == "after_transform":
        check_after_transform(run, case["tag"], np.array(case["V"]), np.array(case["F"]), case["cls"], case["L"], case["t"], case["warm"])
        return
    V = np.array(case["V"], dtype=np.int64)
    F = np.array(case["F"], dtype=np.int64)
    rng = np.random.default_rng(0)
    frames = make_frames(rng, 6)
    if case.get("frame") is not None:
        T = np.array(case["frame"], dtype=np.float64)
        Rf = T[:3, :3]
        frames = [([[Fraction(float(x)) for x in row] for row in Rf], Rf, T[:3, 3])] + frames
    dens = tuple(d for d in [case.get("density_value")] if d is not None) or DENSITIES[:1]
    ovs = [tuple(case["center"])] if case.get("center") is not None else []
    check_mesh(run, case.get("mesh", "replay"), V, F, case.get("placement", "asis"),
               case.get("scale", 1.0), case.get("trans", 0.0), densities=dens, overrides=ovs, frames=frames)
