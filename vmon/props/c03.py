"""
C03 - mass properties equal the exact integrals over the enclosed solid.

Monitor shape: independent slow reference.  Every execution of the real code
(Trimesh.volume / mass / center_mass / moment_inertia / area / mass_properties /
moment_inertia_frame / principal_inertia_*, triangles.mass_properties / area / cross,
inertia.transform_inertia / principal_axis) is compared with vmon.oracle.massprops: the signed
tetrahedron decomposition evaluated in exact integer arithmetic on the very float64 coordinates
the mesh holds (a different derivation from the Eberly sub-expressions f1,f2,f3,g0,g1,g2 in the
code).  Tolerance |got - exact| <= 64 eps sum|terms| with sum|terms| bounded by the oracle, so
translated / scaled copies are judged with a tolerance widened by their cancellation ratio.

Frame convention (read from base.py:moment_inertia_frame and its docstring: "identity gives the
moment at the origin"; the code forms R^T (I_c + m PA(t-c)) R): `transform` = [R|t] is the pose
of the frame in world coordinates; the result is the tensor about the point t expressed in the
axes given by the columns of R.

Centre-of-mass override: the statement says the override "is honoured".  Judged as: the override
is reported as centre of mass and every tensor follows the parallel-axis law with the override
*as* the centre of mass: I_c' = I_origin - m PA(c'), I_t = I_c' + m PA(t - c').
"""

from __future__ import annotations

import itertools
from fractions import Fraction

import numpy as np

from vmon.gen import mesh as gm
from vmon.oracle.massprops import EPS, exact_mass, rotate_tensor

PROP = "C03"
LEVEL = "exploration"
RULE = (
    "closed oriented integer-coordinate meshes (asymmetric tetrahedra under all 24 vertex relabelings x "
    "face-start rotations and all 48 signed axis permutations, lattice hulls, polycubes, genus-1 frame "
    "torus, disjoint / nested-cavity / overlapping multi-body shells, inverted copies, zero-volume "
    "pillows) x placements (as is, +1e3, x1e3, x1e-3, (+1e3)x1e-3) x densities {default,0.5,1,7.25,1e3} x "
    "centre-of-mass override {none, 2 points} x ~20 rational frames, mesh-level and free-function routes. "
    "A case is one (mesh, placement, route, density, override[, frame]) evaluation; distinct = distinct "
    "(vertex bytes, face bytes, route, parameters); non-trivial = |volume| >= 1e-9 (below, only "
    "volume / area are judged)."
)
ANCHORS = [
    "trimesh/triangles.py:mass_properties",
    "trimesh/triangles.py:cross",
    "trimesh/triangles.py:area",
    "trimesh/base.py:Trimesh.mass_properties",
    "trimesh/base.py:Trimesh.center_mass",
    "trimesh/base.py:Trimesh.density",
    "trimesh/base.py:Trimesh.moment_inertia",
    "trimesh/base.py:Trimesh.moment_inertia_frame",
    "trimesh/base.py:Trimesh.area",
    "trimesh/base.py:Trimesh.area_faces",
    "trimesh/base.py:Trimesh.principal_inertia_components",
    "trimesh/inertia.py:transform_inertia",
    "trimesh/inertia.py:principal_axis",
]
SHARDS = {"quick": 1, "thorough": 8}
BUDGET = {"quick": 40, "thorough": 300}
MIN_EVENTS = {"quick": 2000, "thorough": 20000}
ASSUMPTIONS = [
    "Python integer / Fraction arithmetic and 50-digit Decimal square roots are exact enough to serve as truth",
    "a float64 evaluation of the surface integrals stays within 64 eps times the oracle's bound of sum|terms|",
    "an overridden centre of mass means: reported as given and used as the centre in the parallel-axis law",
    "moment_inertia_frame(T): tensor about the origin of T expressed in the axes of T (columns of T[:3,:3])",
]
EXHAUSTIVE = {"quick": False, "thorough": False}

DENSITIES = (0.5, 1.0, 7.25, 1e3)
PLACEMENTS = (
    ("asis", 1.0, 0.0),
    ("translated_1e3", 1.0, 1000.0),
    ("scaled_1e3", 1e3, 0.0),
    ("scaled_1e-3", 1e-3, 0.0),
    ("translated_scaled_1e-3", 1e-3, 1000.0),
)
VMIN = 1e-9


# ------------------------------------------------------------------------------------------
# helpers


def place(V, scale, trans):
    return (np.asarray(V, dtype=np.float64) + float(trans)) * float(scale)


def _max_ratio(got, want, tol):
    got = np.asarray(got, dtype=np.float64)
    want = np.asarray(want, dtype=np.float64)
    tol = np.broadcast_to(np.asarray(tol, dtype=np.float64), want.shape)
    if got.shape != want.shape:
        return float("inf")
    if not np.isfinite(got).all():
        return float("inf")
    d = np.abs(got - want)
    with np.errstate(divide="ignore", invalid="ignore"):
        r = np.where(d == 0, 0.0, d / tol)
    return float(np.max(r)) if r.size else 0.0


class Ctx:
    """One placed mesh with its oracle; issues judged comparisons."""

    def __init__(self, run, tag, V, F, pname, scale, trans):
        self.run, self.tag, self.pname = run, tag, pname
        self.V0, self.F = np.asarray(V), np.asarray(F, dtype=np.int64)
        self.scale, self.trans = scale, trans
        self.Vf = place(V, scale, trans)
        self.ex = exact_mass(self.Vf, self.F)
        self.vol = float(self.ex.volume)
        self.solid = abs(self.vol) >= VMIN
        if self.solid:
            self.c = self.ex.f(self.ex.center_mass())
            self.tc = self.ex.tol_center_mass()
        self.worst = 0.0

    def base_case(self, **extra):
        d = {"mesh": self.tag, "V": self.V0.tolist(), "F": self.F.tolist(), "placement": self.pname,
             "scale": self.scale, "trans": self.trans}
        d.update(extra)
        return d

    def judge(self, route, qty, got, want, tol, density="default", override="no", **extra):
        """Compare; split matrices into diag / offdiag so the key names the symptom."""
        self.run.count("comparisons")
        want = np.asarray(want, dtype=np.float64)
        try:
            got_a = np.asarray(got, dtype=np.float64)
        except Exception:
            got_a = None
        if got_a is None or got_a.shape != want.shape:
            self.run.violation(
                "route=%s qty=%s density=%s override=%s sym=wrong_shape" % (route, qty, density, override),
                "%s of %s has the wrong type / shape" % (qty, route),
                self.base_case(route=route, qty=qty, got=repr(got)[:200], **extra),
            )
            return False
        tol = np.broadcast_to(np.asarray(tol, dtype=np.float64), want.shape)
        parts = [(qty, np.ones(want.shape, dtype=bool))]
        if want.shape == (3, 3):
            eye = np.eye(3, dtype=bool)
            parts = [(qty + "_diag", eye), (qty + "_offdiag", ~eye)]
            if not np.array_equal(got_a, got_a.T) and _max_ratio(got_a, got_a.T, 2 * tol) > 1:
                self.run.violation(
                    "route=%s qty=%s density=%s override=%s sym=not_symmetric" % (route, qty, density, override),
                    "%s of %s is not a symmetric tensor" % (qty, route),
                    self.base_case(route=route, qty=qty, got=got_a, expected=want, **extra),
                )
        ok = True
        for name, mask in parts:
            r = _max_ratio(got_a[mask], want[mask], tol[mask])
            self.worst = max(self.worst, r if np.isfinite(r) else 1e300)
            if r > 1.0:
                ok = False
                self.run.violation(
                    "route=%s qty=%s density=%s override=%s sym=wrong_value" % (route, name, density, override),
                    "%s from %s differs from the exact integral by %.3g x the rounding tolerance" % (name, route, r),
                    self.base_case(route=route, qty=name, got=got_a, expected=want, tol=tol,
                                   ratio=r, **extra),
                )
        return ok


def _tensor_expect(ctx, center_override, rho):
    """expected inertia about the (stated) centre of mass and its tolerance, density rho"""
    ex = ctx.ex
    if center_override is None:
        I = ex.f(ex.inertia_com())
        tol = ex.tol_inertia(ctx.c, ctx.tc)
    else:
        I = ex.f(ex.inertia_com(center=center_override))
        tol = ex.tol_inertia(center_override, np.zeros(3))
    return I * rho, tol * abs(rho) * (1 + 4 * EPS) + 4 * EPS * np.abs(I * rho)


def _frame_expect(ctx, Rf, t, center_override, rho):
    ex = ctx.ex
    if center_override is None:
        I = ex.f(ex.inertia_frame(Rf, t))
        cen, tcen = ctx.c, ctx.tc
    else:
        I = ex.f(ex.inertia_frame(Rf, t, center=center_override))
        cen, tcen = np.asarray(center_override, dtype=np.float64), np.zeros(3)
    # tolerance of the aligned tensor (about t, world axes) pushed through |R|
    tol_al = ex.tol_inertia(cen, tcen, about=t)
    if center_override is None:
        I_al = np.abs(ex.f(ex.inertia_point(t)))
    else:
        I_al = np.abs(ex.f(ex.inertia_point(t, center=center_override)))
    Ra = np.abs(np.asarray(Rf, dtype=np.float64))
    tol = Ra.T @ (tol_al + 16 * EPS * I_al) @ Ra
    return I * rho, tol * abs(rho) * (1 + 8 * EPS)


# ------------------------------------------------------------------------------------------
# the checks on one placed mesh


def check_mesh(run, tag, V, F, pname, scale, trans, *, densities, overrides, frames, routes=("mesh", "free")):
    import trimesh
    from trimesh import inertia as tinertia
    from trimesh import triangles as ttri

    ctx = Ctx(run, tag, V, F, pname, scale, trans)
    ex = ctx.ex
    vb, fb = ctx.Vf, ctx.F
    canc = ex.cancellation()
    run.state("cancellation_log10_volume", int(np.floor(np.log10(canc["volume"]))) if np.isfinite(canc["volume"]) else "inf")
    run.state("orientation", "zero" if not ctx.solid else ("positive" if ctx.vol > 0 else "negative"))
    run.state("mesh_class", tag.split(":")[0])
    run.state("placement", pname)
    tv = ex.tol_volume()

    def ncase(route, *parts, nontrivial=True):
        run.case("%s:%s" % (route, pname), vb, fb, route, *parts, nontrivial=nontrivial and ctx.solid)
        run.state("route_x_mesh_class", (route, tag.split(":")[0]))

    # ------------------------------------------------------------------ mesh level
    if "mesh" in routes:
        m = trimesh.Trimesh(vertices=vb.copy(), faces=fb.copy(), process=False)
        try:
            ncase("mesh", "default")
            ctx.judge("mesh", "volume", m.volume, ctx.vol, tv)
            ctx.judge("mesh", "mass", m.mass, ctx.vol, tv)
            ctx.judge("mesh", "area", m.area, ex.area, ex.tol_area())
            ctx.judge("mesh", "area_faces_sum", float(np.sum(m.area_faces)), ex.area, ex.tol_area())
            mp = m.mass_properties
            ctx.judge("mesh_dict", "volume", mp["volume"], ctx.vol, tv)
            ctx.judge("mesh_dict", "density", mp["density"], 1.0, 0.0)
            ctx.judge("mesh", "density", m.density, 1.0, 0.0)
            if ctx.solid:
                I, tI = _tensor_expect(ctx, None, 1.0)
                ctx.judge("mesh", "center_mass", m.center_mass, ctx.c, ctx.tc)
                ctx.judge("mesh", "inertia", m.moment_inertia, I, tI)
                ctx.judge("mesh_dict", "center_mass", mp["center_mass"], ctx.c, ctx.tc)
                ctx.judge("mesh_dict", "inertia", mp["inertia"], I, tI)
                ctx.judge("mesh_dict", "mass", mp["mass"], ctx.vol, tv)
                # principal inertia: rows of vectors orthonormal, V^T diag(c) V rebuilds the tensor
                comp = np.asarray(m.principal_inertia_components, dtype=np.float64)
                vec = np.asarray(m.principal_inertia_vectors, dtype=np.float64)
                ncase("principal")
                if comp.shape == (3,) and vec.shape == (3, 3):
                    scaleI = np.abs(I).max()
                    ctx.judge("principal", "vectors_orthonormal", vec @ vec.T, np.eye(3), 64 * EPS)
                    ctx.judge("principal", "reconstruction", vec.T @ np.diag(comp) @ vec, I, tI + 256 * EPS * scaleI)
                    ctx.judge("principal", "trace", comp.sum(), np.trace(I), 3 * tI.max() + 256 * EPS * scaleI)
                else:
                    ctx.judge("principal", "shape", 0.0, 1.0, 0.0)

            # densities and overrides through the setters (after the values were read once)
            for rho, ov in itertools.product((None,) + tuple(densities), (None,) + tuple(overrides)):
                if rho is None and ov is None:
                    continue
                mm = trimesh.Trimesh(vertices=vb.copy(), faces=fb.copy(), process=False)
                _ = mm.volume  # the usual history: read, then set
                if rho is not None:
                    mm.density = rho
                if ov is not None:
                    mm.center_mass = np.array(ov, dtype=np.float64)
                r = 1.0 if rho is None else float(rho)
                dk = "default" if rho is None else "set"
                ok_ = "no" if ov is None else "yes"
                ncase("mesh", r, None if ov is None else tuple(ov))
                run.state("density_override", (dk, ok_))
                ctx.judge("mesh", "volume", mm.volume, ctx.vol, tv, dk, ok_, density_value=rho, center=ov)
                ctx.judge("mesh", "mass", mm.mass, ctx.vol * r, tv * r * (1 + 4 * EPS), dk, ok_, density_value=rho, center=ov)
                ctx.judge("mesh", "density", mm.density, r, 0.0, dk, ok_, density_value=rho, center=ov)
                if not ctx.solid:
                    continue
                if ov is None:
                    ctx.judge("mesh", "center_mass", mm.center_mass, ctx.c, ctx.tc, dk, ok_, density_value=rho)
                else:
                    ctx.judge("mesh", "center_mass", mm.center_mass, np.array(ov, dtype=np.float64), 0.0, dk, ok_,
                              density_value=rho, center=ov)
                I, tI = _tensor_expect(ctx, ov, r)
                ctx.judge("mesh", "inertia", mm.moment_inertia, I, tI, dk, ok_, density_value=rho, center=ov)
                # a couple of frames under density / override as well
                for (Rq, Rf, t) in frames[:3]:
                    T = np.eye(4)
                    T[:3, :3] = Rf
                    T[:3, 3] = t
                    Ie, tIe = _frame_expect(ctx, Rf, t, ov, r)
                    ncase("frame", r, None if ov is None else tuple(ov), T)
                    ctx.judge("frame", "inertia", mm.moment_inertia_frame(T), Ie, tIe, dk, ok_,
                              density_value=rho, center=ov, frame=T)

            # frames: tensor about t in the axes of R
            if ctx.solid:
                I1, _t = _tensor_expect(ctx, None, 1.0)
                for (Rq, Rf, t) in frames:
                    T = np.eye(4)
                    T[:3, :3] = Rf
                    T[:3, 3] = t
                    Ie, tIe = _frame_expect(ctx, Rf, t, None, 1.0)
                    ncase("frame", T)
                    ctx.judge("frame", "inertia", m.moment_inertia_frame(T), Ie, tIe, frame=T)
                    # transform_inertia, rotation only: R I R^T (3x3 and 4x4 forms)
                    Iex = ex.inertia_com()
                    want = ex.f(rotate_tensor([[Fraction(float(x)) for x in row] for row in Rf], Iex))
                    tolr = np.abs(Rf) @ (_t + 16 * EPS * np.abs(I1)) @ np.abs(Rf).T
                    ncase("transform_inertia", T)
                    ctx.judge("transform_inertia_3x3", "rotated", tinertia.transform_inertia(Rf, m.moment_inertia), want, tolr, frame=T)
                    ctx.judge("transform_inertia_4x4", "rotated", tinertia.transform_inertia(T, m.moment_inertia), want, tolr, frame=T)
                # identity frame = tensor at the origin (docstring)
                Io = ex.f(ex.inertia_about([0, 0, 0]))
                to = ex.tol_inertia(ctx.c, ctx.tc, about=[0, 0, 0])
                ncase("frame", "identity")
                ctx.judge("frame_identity", "inertia", m.moment_inertia_frame(np.eye(4)), Io, to + 16 * EPS * np.abs(Io))
        except Exception as e:  # the library raised on a valid closed mesh
            run.violation("route=mesh sym=exception:%s" % type(e).__name__,
                          "mass property access raised %r" % (e,), ctx.base_case(route="mesh"))

    # ------------------------------------------------------------------ free function
    if "free" in routes:
        tri = vb[fb]
        try:
            for rho, ov, skip, with_cross in itertools.product(
                (None,) + tuple(densities), (None,) + tuple(overrides), (False, True), (False, True)
            ):
                kw = {}
                if rho is not None:
                    kw["density"] = rho
                if ov is not None:
                    kw["center_mass"] = np.array(ov, dtype=np.float64)
                if with_cross:
                    kw["crosses"] = ttri.cross(tri)
                res = ttri.mass_properties(tri.copy(), skip_inertia=skip, **kw)
                r = 1.0 if rho is None else float(rho)
                dk = "default" if rho is None else "set"
                ok_ = "no" if ov is None else "yes"
                route = "free" + ("_crosses" if with_cross else "") + ("_skip" if skip else "")
                ncase(route, r, None if ov is None else tuple(ov))
                extra = dict(density_value=rho, center=ov, skip_inertia=skip, with_crosses=with_cross)
                ctx.judge(route, "volume", res["volume"], ctx.vol, tv, dk, ok_, **extra)
                ctx.judge(route, "mass", res["mass"], ctx.vol * r, tv * r * (1 + 4 * EPS), dk, ok_, **extra)
                ctx.judge(route, "density", res["density"], r, 0.0, dk, ok_, **extra)
                if skip and res["inertia"] is not None:
                    run.violation("route=%s qty=inertia sym=present_with_skip_inertia" % route,
                                  "skip_inertia=True still returned a tensor", ctx.base_case(**extra))
                if not ctx.solid:
                    continue
                if ov is None:
                    ctx.judge(route, "center_mass", res["center_mass"], ctx.c, ctx.tc, dk, ok_, **extra)
                else:
                    ctx.judge(route, "center_mass", res["center_mass"], np.array(ov, dtype=np.float64), 0.0, dk, ok_, **extra)
                if not skip:
                    I, tI = _tensor_expect(ctx, ov, r)
                    ctx.judge(route, "inertia", res["inertia"], I, tI, dk, ok_, **extra)
            ncase("free_area")
            ctx.judge("free", "area", float(np.sum(ttri.area(tri))), ex.area, ex.tol_area())
            ctx.judge("free_crosses", "area", float(np.sum(ttri.area(crosses=ttri.cross(tri)))), ex.area, ex.tol_area())
        except Exception as e:
            run.violation("route=free sym=exception:%s" % type(e).__name__,
                          "triangles.mass_properties raised %r" % (e,), ctx.base_case(route="free"))
    run.note("worst_ratio_to_tolerance", max(run.notes.get("worst_ratio_to_tolerance", 0.0), ctx.worst))
    return ctx


# ------------------------------------------------------------------------------------------
# workload pieces


def make_frames(rng, n):
    out = []
    # identity rotation with a translation and a pure rotation first
    I3 = [[Fraction(int(i == j)) for j in range(3)] for i in range(3)]
    out.append((I3, np.eye(3), np.array([3.0, -2.0, 5.0])))
    while len(out) < n:
        Rq = gm.rational_rotation(rng, maxq=4)
        Rf = gm.frac_to_float(Rq)
        if len(out) == 1:
            t = np.zeros(3)
        else:
            t = rng.integers(-20, 21, size=3).astype(np.float64)
        out.append((Rq, Rf, t))
    return out


def make_overrides(rng, V):
    lo, hi = np.min(V, axis=0), np.max(V, axis=0)
    a = rng.integers(lo - 3, hi + 4).astype(np.float64)
    b = np.array([0.25, -1.5, 2.0]) + rng.integers(-2, 3, size=3)
    return [tuple(a.tolist()), tuple(b.tolist())]


BASE_TETRA = [
    np.array([[1, 2, -1], [2, 2, -1], [1, 4, -1], [1, 2, 2]], dtype=np.int64),
    np.array([[-3, 1, 2], [2, -1, 0], [1, 3, -2], [0, 2, 3]], dtype=np.int64),
]
TETRA_F = np.array([[0, 2, 1], [0, 1, 3], [1, 2, 3], [0, 3, 2]], dtype=np.int64)


def tetra_family(rng, extra=2):
    """
    (tag, V, F): every vertex relabeling (24) with a face-start rotation per face, and every
    signed axis permutation (48) of asymmetric tetrahedra; half of them end up inward wound.
    """
    bases = list(BASE_TETRA) + [gm.tetra(rng)[0] for _ in range(extra)]
    for bi, V in enumerate(bases):
        F = TETRA_F.copy()
        if gm.signed_volume6(V, F) < 0:
            F = F[:, ::-1].copy()
        for pi, perm in enumerate(itertools.permutations(range(4))):
            perm = np.array(perm)
            inv = np.argsort(perm)
            V2 = V[perm]
            F2 = inv[F]
            F2 = np.array([np.roll(f, (pi + k) % 3) for k, f in enumerate(F2)], dtype=np.int64)
            yield "tetra_relabel:%d:%d" % (bi, pi), V2, F2
        k = 0
        for axes in itertools.permutations(range(3)):
            for signs in itertools.product((1, -1), repeat=3):
                V2 = V[:, list(axes)] * np.array(signs, dtype=np.int64)
                # not re-wound: odd maps give the inverted orientation class
                yield "tetra_axes:%d:%d" % (bi, k), V2, F.copy()
                k += 1


def workload(run):
    rng = run.rng
    quick = run.tier == "quick"
    frames = make_frames(rng, 20)
    idx = 0

    def do(tag, V, F, placements, dens, n_over, fr, routes=("mesh", "free")):
        ov = make_overrides(rng, V)[:n_over]
        for pname, scale, trans in placements:
            # overrides live in the placed coordinates
            ovp = [tuple(((np.array(o) + trans) * scale).tolist()) for o in ov]
            check_mesh(run, tag, V, F, pname, scale, trans, densities=dens, overrides=ovp, frames=fr, routes=routes)

    # (1) catalogue of closed meshes: every placement, all densities, both overrides, 20 frames
    n_cat = 10 if quick else 40
    for tag, V, F in gm.closed_meshes(rng, count=n_cat):
        idx += 1
        if not run.mine(idx):
            continue
        do(tag, V, F, PLACEMENTS, DENSITIES, 2, frames)
        # inverted copy: negative volume, same centre of mass, negated tensor
        Vi, Fi = gm.invert(V, F)
        do(tag + "_inverted", Vi, Fi, PLACEMENTS[:2], DENSITIES[:1], 1, frames[:4])
        if run.out_of_time(0.35):
            run.count("catalogue_cut_short")
            break

    # (1b) the same integrals after the library itself moved the mesh (values warm or cold)
    k = 0
    for tag, V, F in gm.closed_meshes(rng, count=4 if quick else 20):
        for cls, L in INT_MATRICES:
            for warm in (True, False):
                idx += 1
                k += 1
                if not run.mine(idx):
                    continue
                check_after_transform(run, tag, V, F, cls, L, [3, -2, 5] if k % 2 else [0, 0, 0], warm)
        if run.out_of_time(0.45):
            break

    # (2) zero-volume pillows: only volume / area are judged
    for k in range(3):
        idx += 1
        if not run.mine(idx):
            continue
        V, F = gm.pillow()
        V = V + rng.integers(-4, 5, size=3)
        do("pillow", V, F, PLACEMENTS[:3], DENSITIES[:1], 0, frames[:1])

    # (3) the tetrahedron family: all relabelings and signed axis permutations
    for tag, V, F in tetra_family(rng, extra=1 if quick else 4):
        idx += 1
        if not run.mine(idx):
            continue
        if run.out_of_time(0.7):
            run.count("tetra_family_cut_short")
            break
        do(tag, V, F, PLACEMENTS[:2] if quick else PLACEMENTS, DENSITIES[2:3], 1, frames[:3])

    # (4) random asymmetric solids until the budget is used
    cap = 400 if quick else 10**9
    n = 0
    while not run.out_of_time(0.92) and n < cap:
        n += 1
        r = int(rng.integers(4))
        if r == 0:
            tag, (V, F) = "tetra", gm.tetra(rng)
        elif r == 1:
            tag, (V, F) = "hull", gm.hull_int(rng, int(rng.integers(5, 13)))
        elif r == 2:
            tag, (V, F) = "polycube", gm.random_polycube(rng, int(rng.integers(2, 8)))
        else:
            a = gm.hull_int(rng, 7)
            b = gm.tetra(rng)
            tag, (V, F) = "multibody_touching_or_overlapping", gm.concat([a, (gm.translate(b[0], rng.integers(-3, 4, size=3)), b[1])])
        pl = [PLACEMENTS[0], PLACEMENTS[int(rng.integers(1, len(PLACEMENTS)))]]
        fr = [frames[0]] + make_frames(rng, 4)[2:]
        do(tag, V, F, pl, (DENSITIES[int(rng.integers(len(DENSITIES)))],), 1, fr)
    run.count("random_solids", n)


INT_MATRICES = [
    ("shear_unimodular", [[1, 2, 0], [0, 1, 0], [0, 0, 1]]),
    ("unimodular", [[2, 1, 0], [1, 1, 0], [0, 1, 1]]),
    ("aniso", [[2, 0, 0], [0, 1, 0], [0, 0, 3]]),
    ("mirror", [[1, 0, 0], [0, 1, 0], [0, 0, -1]]),
    ("mirror_shear", [[1, 1, 0], [0, -1, 0], [0, 0, 1]]),
    ("rot90", [[0, -1, 0], [1, 0, 0], [0, 0, 1]]),
    ("uniform2", [[2, 0, 0], [0, 2, 0], [0, 0, 2]]),
]


def check_after_transform(run, tag, V, F, cls, L, t, warm):
    """
    The integrals of a mesh that was MOVED by the library (apply_transform with an integer
    matrix, values read beforehand or not) against the exact integrals of the moved integer
    vertices: the statement is about the current solid, whatever was computed before.
    """
    import trimesh  # noqa

    L = np.array(L, dtype=np.int64)
    t = np.array(t, dtype=np.int64)
    m = gm.to_trimesh(V, F)
    if warm:
        _ = (m.area, m.area_faces, m.volume, m.center_mass, m.moment_inertia, m.mass_properties, m.face_normals)
    M = np.eye(4)
    M[:3, :3] = L
    M[:3, 3] = t
    case = {"route": "after_transform", "tag": tag, "V": np.asarray(V).tolist(), "F": np.asarray(F).tolist(),
            "cls": cls, "L": L.tolist(), "t": t.tolist(), "warm": bool(warm)}
    try:
        m.apply_transform(M)
        got = {"area": float(m.area), "volume": float(m.volume), "center_mass": np.array(m.center_mass, dtype=np.float64),
               "inertia": np.array(m.moment_inertia, dtype=np.float64)}
    except Exception as e:  # noqa
        run.violation("route=after_transform class=%s warm=%s sym=exception:%s" % (cls, warm, type(e).__name__),
                      "reading mass properties after apply_transform raised", dict(case, error=repr(e)))
        return
    V2 = np.asarray(V, dtype=np.int64) @ L.T + t
    det = int(round(np.linalg.det(L.astype(np.float64))))
    F2 = np.asarray(F)[:, ::-1] if det < 0 else np.asarray(F)
    em = exact_mass(V2, F2)
    run.case("after_transform:%s:%s" % (cls, "warm" if warm else "cold"), np.asarray(V), np.asarray(F), cls, warm,
             nontrivial=True)
    size = float(np.abs(V2).max()) + 1.0
    vol = float(em.volume)
    checks = [("area", got["area"], em.area, 1e-9 * max(1.0, em.area)),
              ("volume", got["volume"], vol, 1e-9 * max(1.0, size ** 3))]
    if abs(vol) > 1e-9:
        cm = np.array([float(x) for x in em.center_mass()])
        checks.append(("center_mass", got["center_mass"], cm, 1e-9 * size))
        I = np.array([[float(x) for x in row] for row in em.inertia_com()])
        checks.append(("inertia", got["inertia"], I, 1e-9 * max(1.0, size ** 5)))
    for name, g, w, tol in checks:
        if not np.all(np.abs(np.asarray(g) - np.asarray(w)) <= tol):
            run.violation("route=after_transform class=%s warm=%s qty=%s sym=wrong_value" % (cls, "yes" if warm else "no", name),
                          "`%s` of a mesh moved by apply_transform differs from the exact integral over the moved solid" % name,
                          dict(case, got=np.asarray(g).tolist(), want=np.asarray(w).tolist()))


def replay(run, case):
    if isinstance(case, dict) and case.get("route") == "after_transform":
        check_after_transform(run, case["tag"], np.array(case["V"]), np.array(case["F"]), case["cls"], case["L"], case["t"], case["warm"])
        return
    V = np.array(case["V"], dtype=np.int64)
    F = np.array(case["F"], dtype=np.int64)
    rng = np.random.default_rng(0)
    frames = make_frames(rng, 6)
    if case.get("frame") is not None:
        T = np.array(case["frame"], dtype=np.float64)
        Rf = T[:3, :3]
        frames = [([[Fraction(float(x)) for x in row] for row in Rf], Rf, T[:3, 3])] + frames
    dens = tuple(d for d in [case.get("density_value")] if d is not None) or DENSITIES[:1]
    ovs = [tuple(case["center"])] if case.get("center") is not None else []
    check_mesh(run, case.get("mesh", "replay"), V, F, case.get("placement", "asis"),
               case.get("scale", 1.0), case.get("trans", 0.0), densities=dens, overrides=ovs, frames=frames)
