"""
C04 - homogeneous transforms act covariantly on every geometry.

Monitor shape: snapshots + laws.  Before every apply_transform / apply_scale / apply_translation
the geometry is snapshotted (points, connectivity, attached data); afterwards the real object is
read again and judged against

    points     p -> M.p           explicit homogeneous product of the PRE-transform snapshot
                                  (np.longdouble accumulation)
    kept       counts, connectivity, colours / UVs / attributes / metadata (aligned with faces)
    inverse    M then M^-1 restores the snapshot
    compose    A then B equals B.A applied to a fresh copy
    meshes     faces re-wound exactly when det M < 0, volume |det| V (exact oracle on the
               snapshot; stays positive), centre of mass M.c, is_volume kept, face / vertex normals
               equal those of the transformed triangles; similarity: area s^2 A, inertia
               s^5 R I R^T; overridden centre of mass moved through M

for kinds Trimesh (cached values read beforehand or not), PointCloud, Path2D (3x3), Path3D,
primitives Box / Cylinder / Capsule / Sphere / Extrusion, Scene (dump()) and VoxelGrid.

The scene holds nested and instanced meshes, a group node without geometry and an instance 1e3 away
from the origin, Path2D and PointCloud instances and node metadata; it is read through the graph
(explicit placement), through dump() per instance and through to_edgelist() (what is attached to
the nodes).  Every kind also goes through a HISTORY of small steps on one object (each call judged
against the snapshot taken right before it; keys carry step=second|later).

Round 4 added: primitives read three ways (tessellation, parameters, the values the API reports:
volume / area / center_mass / moment_inertia, judged when they were right before the call), a refused
matrix must leave the primitive as it was, primitives with a centre of mass set by the caller; paths
with CURVED entities (Arc, closed Arc, Bezier) judged by their curves (image of an own
parametrisation); a scene of rigidly placed solids whose volume / area / center_mass / moment_inertia
and triangle soup follow the mesh laws; a uniform scale inside the former 1e-8 band, a similarity
7e-9 from rigid behind a rotation, rotated stretches along the space diagonal (L.L^T - I constant).

Tolerances: the product must be right to rounding for every matrix, 1e-11 (1 + |p|_1)(1 + |M|_max)
(the 2e-8 allowance for matrices within 1e-8 of the identity went with the library's own absolute
identity shortcuts, 7e187dd; it survives only in the inverse / composition laws and in the relative
slack of values derived from vertices) - for a scene too (its graph's 1e-5 "repair" of nearly rigid matrices
gets no allowance in the single-call law; a failure that matches it is keyed sym=near_rigid_part_dropped).
A primitive whose transformed tessellation would have vertices closer than 10 tol.merge is not judged
(its mesh is re-generated through the merging constructor; documented absolute tolerance).  Primitives may refuse a matrix that is not a similarity
(ValueError; counted); refusing a similarity is a violation.  The verdict never depends on the
random triangles inside flips_winding.
"""

from __future__ import annotations

import copy
import itertools
import math

import numpy as np

from vmon.gen import matrix as gmat
from vmon.gen import mesh as gm
from vmon.oracle.massprops import EPS, exact_mass

PROP = "C04"
LEVEL = "exploration"
RULE = (
    "geometry kinds {mesh (4 attachment variants x cached-values-read yes/no), mesh with overridden centre "
    "of mass, point cloud, Path2D (3x3 matrices), Path3D, Box, Cylinder, Capsule, Sphere, Extrusion, scene "
    "(nested nodes, instanced geometry), voxel grid} x matrix classes of gen.matrix (identity, both sides of "
    "the 1e-8 shortcut in translation / scale / rotation entries, rigid, similarity 1e-3..1e3, mirrors, "
    "anisotropic, shear, affine) plus mirrored similarities; per cell the point / kept-data / inverse laws, "
    "composition on sampled pairs, apply_scale / apply_translation; similarities about a pivot (scale and "
    "translation in one matrix), a uniform scale 1+4e-6, a mirror at 1e-6 on a model of extent 300; per kind a "
    "history of 5 small steps (0.004 / 1e-4 translations, 1e-4 rotation) on one object, scene with nodes 1e3 "
    "from the origin, a group node, Path2D / PointCloud instances, node metadata; round 4: primitives with a "
    "caller-set centre of mass (one matrix per class), paths with Arc / closed Arc / Bezier entities (2-D, 3-D, "
    "cached or not), a scene of rigidly placed solids (mass readings, triangle soup), uniform scale 1+5e-10, "
    "rotation x (1+7e-9), rotated diagonal stretches.  A case is one (kind, variant, "
    "matrix) application; distinct = distinct (kind, variant, matrix bytes, operation, earlier steps); trivial = "
    "identity matrix."
)
ANCHORS = [
    "trimesh/base.py:Trimesh.apply_transform",
    "trimesh/transformations.py:transform_points",
    "trimesh/transformations.py:flips_winding",
    "trimesh/parent.py:Geometry.apply_translation",
    "trimesh/parent.py:Geometry.apply_scale",
    "trimesh/primitives.py:Primitive.apply_transform",
    "trimesh/path/path.py:Path.apply_transform",
    "trimesh/scene/scene.py:Scene.apply_transform",
    "trimesh/points.py:PointCloud.apply_transform",
    "trimesh/voxel/base.py:VoxelGrid.apply_transform",
    "trimesh/voxel/transforms.py:Transform.apply_transform",
]
SHARDS = {"quick": 1, "thorough": 8}
BUDGET = {"quick": 50, "thorough": 300}
MIN_EVENTS = {"quick": 1500, "thorough": 10000}
ASSUMPTIONS = [
    "numpy longdouble products of the snapshot are the truth for M.p",
    "vmon.oracle.massprops (exact rational integrals) is the truth for volume / centre of mass / inertia of a snapshot",
    "only the exact identity matrix may be skipped (since 7e187dd no kind but the primitives has an absolute shortcut)",
    "own parametrisation of arcs (circumcircle) and Bezier curves (Bernstein form) is the truth for the points of a curved path; "
    "a discretisation may deviate by 1 % of the size of an entity",
    "own formulas for the volume / area / inertia of Box, Cylinder, Sphere, Extrusion from their parameters",
]
EXHAUSTIVE = {"quick": False, "thorough": False}


# ------------------------------------------------------------------------------------------
# matrices


def linear(M):
    d = M.shape[0] - 1
    return M[:d, :d]


def props(M):
    """det, similarity class ('yes' | 'no' | 'grey'), scale, inside-identity-band"""
    L = linear(M)
    d = L.shape[0]
    det = float(np.linalg.det(L))
    s = abs(det) ** (1.0 / d)
    G = L @ L.T
    rel = float(np.abs(G - s * s * np.eye(d)).max()) / max(s * s, 1e-300)
    sim = "yes" if rel < 1e-12 else ("no" if rel > 1e-7 else "grey")
    band = float(np.abs(M - np.eye(d + 1)).max()) < 1e-8
    return det, sim, s, band


def group(tag, M):
    """structural class used in keys and in the evidence table"""
    base = tag.split(":")[0]
    det, sim, s, band = props(M)
    if base == "identity":
        return "identity"
    if base == "near_identity":
        return "near_identity_%s_%s" % (tag.split(":")[1], "inside" if band else "outside")
    if base in ("mirror_axis", "mirror_rot", "mirror_point"):
        return "mirror"
    if base == "affine":
        return "affine_det%s" % ("+" if det > 0 else "-")
    if base == "aniso_rot":
        return "aniso"
    if base in ("similarity", "mirror_similarity"):
        return base + ("_small" if s < 1e-2 else ("_large" if s > 1e2 else ""))
    if base == "nudge":
        return "nudge_" + tag.split(":")[1]
    return base


def class_of_matrix(M):
    """class of a matrix nobody labelled (a product, the step of a composition that was refused)"""
    det, sim, s, band = props(M)
    if band:
        return "near_identity_inside"
    if sim == "yes" and 1e-9 <= abs(s - 1) < 1e-6:
        return "near_unit_similarity"
    if sim == "yes":
        base = ("mirror" if det < 0 else "rigid") if abs(s - 1) < 1e-9 else ("mirror_similarity" if det < 0 else "similarity")
        return base + ("_small" if s < 1e-2 else ("_large" if s > 1e2 else ""))
    return "nonsimilarity_det%s" % ("+" if det > 0 else "-")


def all_matrices(rng, dim):
    out = list(gmat.matrices(rng, dim=dim))
    # similarities with negative determinant and a scale (not produced by gen.matrix)
    rig = [M for t, M in out if t == "rigid"]
    # gen.matrix only emits similarity scales 0.5 and 2: add the 1e-3 / 1e3 the design asks for
    for k, sc in enumerate((1e-3, 1e3)):
        M = rig[k % len(rig)].copy()
        M[:dim, :dim] *= sc
        out.append(("similarity:%g" % sc, M))
    for k, s in enumerate((0.5, 2.0, 1e3, 1e-3)):
        M = rig[k % len(rig)].copy()
        Mx = np.eye(dim + 1)
        Mx[k % dim, k % dim] = -1
        M = M @ Mx
        M[:dim, :dim] *= s
        out.append(("mirror_similarity:%g" % s, M))
    # a similarity ABOUT A POINT: one matrix that carries a uniform scale != 1 and a translation
    # that is not the image of the origin under a separate step (scale_matrix(s, origin=pivot),
    # optionally followed by a rotation about an axis through the same pivot)
    pivot = np.array([2.0, -3.0, 1.0])[:dim]
    for k, sc in enumerate((2.5, 0.4)):
        M = np.eye(dim + 1)
        M[:dim, :dim] *= sc
        M[:dim, dim] = (1.0 - sc) * pivot
        if k:
            R = rig[0].copy()
            R[:dim, dim] = pivot - R[:dim, :dim] @ pivot  # rotation keeping the pivot fixed
            M = R @ M
        out.append(("similarity:pivot:%g" % sc, M))
    # a uniform scale a few parts per million away from one: far outside the 1e-8 / 1e-6 identity
    # shortcuts, inside the 1e-5 band in which a scene graph "repairs" nearly rigid matrices
    M = np.eye(dim + 1)
    M[:dim, :dim] *= 1.0 + 4e-6
    out.append(("near_unit_scale:4e-06", M))
    # a UNIFORM scale inside the former 1e-8 band (gen.matrix scales one axis only, which no primitive
    # can hold): a similarity a few parts per billion away from the identity
    # (5e-10: L.L^T - I = 1e-9, ten times below the documented epsilon of is_rigid, so that a primitive
    # that keeps it in its matrix is not at the edge of refusing it)
    M = np.eye(dim + 1)
    M[:dim, :dim] *= 1.0 + 5e-10
    out.append(("near_identity:uniscale:5e-10", M))
    # ... and the same kind of scale behind a rotation: nowhere near the identity matrix, 7e-9 from rigid
    M = rig[0].copy()
    M[:dim, :dim] *= 1.0 + 7e-9
    out.append(("near_unit_similarity:7e-09", M))
    # stretches along the diagonal of the axes, L.L^T - I = c.ones: every entry of the deviation from
    # a rotation is the SAME number (gen.matrix has the unrotated one with c = 1.75: `offset_ones`).
    # Here the square root of I + c.ones (a stretch by sqrt(1 + dim c) along (1,..,1), lengths across
    # it kept) behind a rotation, expanding and compressing
    for k, c in enumerate((1.0, -0.25)):
        w, v = np.linalg.eigh(np.eye(dim) + c * np.ones((dim, dim)))
        M = np.eye(dim + 1)
        M[:dim, :dim] = (v * np.sqrt(w)) @ v.T
        out.append(("offset_ones:rot:%g" % c, M @ rig[(k + 1) % len(rig)]))
    return out


def nudges(dim):
    """
    small steps for a HISTORY of calls on one object: each is tiny compared with the offset of a
    node / vertex far from the origin (1e3), yet 1e5 times the identity shortcut
    """
    out = []
    for ax, d in ((0, 0.004), (1, -1e-4), (dim - 1, 0.004)):
        M = np.eye(dim + 1)
        M[ax, dim] = d
        out.append(("nudge:translation", M))
    a = 1e-4
    M = np.eye(dim + 1)
    M[:2, :2] = [[math.cos(a), -math.sin(a)], [math.sin(a), math.cos(a)]]
    out.append(("nudge:rotation", M))
    M = np.eye(dim + 1)
    M[0, dim] = 0.004
    out.append(("nudge:translation", M))
    return out


def well_conditioned(M):
    """invertible with room to spare, whatever the unit (|det| may be 1e-18 for a change of units by 1e-6)"""
    L = linear(M)
    return bool(np.isfinite(L).all() and np.linalg.cond(L) < 1e6)


def apply_ref(M, P):
    M = np.asarray(M, dtype=np.longdouble)
    P = np.asarray(P, dtype=np.longdouble)
    d = P.shape[1]
    return np.asarray(P @ M[:d, :d].T + M[:d, d], dtype=np.float64)


def lift(M, d):
    """a (dim+1) matrix acting on d-dimensional snapshots (Path2D under a 3x3)"""
    return M


REPAIR_RIGID = 1e-5  # scene.transforms.TransformForest(repair_rigid=1e-5), documented


def rigid_defect(M):
    L = linear(M)
    return float(np.abs(L @ L.T - np.eye(L.shape[0])).max())


def scene_slack(M, expected):
    """
    The scene graph repairs (by SVD) any node matrix whose linear part is within 1e-5 of orthonormal
    (documented constructor argument).  A transform that deviates from rigid by dev < 1e-4 may
    therefore be applied with its linear part moved by up to dev: slack 2 dev (1 + |p|_1).
    """
    dev = rigid_defect(M)
    if 0 < dev < 10 * REPAIR_RIGID:
        return 2 * dev * (1.0 + np.abs(expected).sum(axis=1))
    return 0.0


def point_tol(M, expected):
    """
    rounding of the product, whatever the matrix.  (Until round 4 a matrix within 1e-8 of the identity
    was judged with 2e-8 (1 + |p|_1) because every kind documented an absolute 1e-8 identity shortcut;
    since 7e187dd only the exact identity is a no-op in Trimesh / PointCloud / Path / Scene /
    transform_points, so the allowance is gone: the quantifier names the matrices on BOTH sides of it.)
    """
    n1 = 1.0 + np.abs(expected).sum(axis=1)
    return 1e-11 * n1 * (1.0 + float(np.abs(M).max()))


def point_ratio(got, expected, tol):
    got = np.asarray(got, dtype=np.float64)
    if got.shape != expected.shape or not np.isfinite(got).all():
        return float("inf")
    if got.size == 0:
        return 0.0
    d = np.abs(got - expected).max(axis=1)
    return float((d / tol).max())


_EXACT_MEMO = {}


def exact_memo(V, F):
    """exact integrals of arrays seen before (every cell of a kind starts from the same arrays)"""
    k = (V.shape, F.shape, V.tobytes(), F.tobytes())
    ex = _EXACT_MEMO.get(k)
    if ex is None:
        if len(_EXACT_MEMO) > 64:
            _EXACT_MEMO.clear()
        ex = _EXACT_MEMO[k] = exact_mass(V, F)
    return ex


# ------------------------------------------------------------------------------------------
# snapshots


def freeze(x):
    """deep, comparable copy of attached data"""
    if isinstance(x, np.ndarray):
        return ("nd", str(x.dtype), x.shape, x.tobytes())
    if isinstance(x, dict):
        return ("dict", tuple(sorted((str(k), freeze(v)) for k, v in x.items())))
    if isinstance(x, (list, tuple)):
        return ("seq", tuple(freeze(v) for v in x))
    if isinstance(x, (str, int, float, bool, type(None))):
        return x
    return repr(x)


class Snap:
    __slots__ = ("points", "structure", "attached", "extra")

    def __init__(self, points, structure=None, attached=None, extra=None):
        self.points = np.array(points, dtype=np.float64)
        self.structure = structure
        self.attached = attached
        self.extra = extra or {}


# ------------------------------------------------------------------------------------------
# kinds


class Kind:
    name = "?"
    dim = 3
    may_refuse_nonsimilarity = False
    salt = 0

    def local_rng(self):
        """geometry data depend only on (salt, kind) so that a recorded case can be rebuilt exactly"""
        import zlib

        return np.random.default_rng([int(self.salt), zlib.crc32(repr((self.name, getattr(self, "source", 0), self.dim)).encode())])

    def build(self, rng):
        raise NotImplementedError

    def warm(self, obj):
        pass

    def snap(self, obj):
        raise NotImplementedError

    def structure_law(self, run, s0, s1, M, key, case):
        """default: structure identical; returns False when violated"""
        if s0.structure != s1.structure:
            run.violation(key("law=connectivity_kept"), "%s: counts / connectivity changed by the transform" % self.name, case)
            return False
        return True

    def extra_laws(self, run, obj, s0, s1, M, key, case, loose=False):
        pass


def _mesh_source(rng, which):
    if which == 0:
        V, F = gm.box_int((2, 3, 4), (-1, -2, 1))
    elif which == 1:
        V, F = gm.hull_int(rng, 9, -4, 4)
    elif which == 2:
        V, F = gm.frame_torus((2, 1, 3))
    elif which == 3:
        V, F = gm.l_prism()
    elif which == 4:
        V, F = gm.tetra(rng, -4, 4)
    elif which == 6:
        # a model drawn in small units (extent ~300): after a change of units by 1e-6 its triangles are
        # still far above the library's absolute degeneracy thresholds, so every law can be judged there
        V, F = gm.hull_int(rng, 12, -400, 400)
    else:
        a = gm.box_int((6, 6, 6), (-3, -3, -3))
        b = gm.invert(*gm.box_int((2, 2, 2), (-1, -1, -1)))
        V, F = gm.concat([a, b])
    # non-integer placement, moderate coordinates
    Vf = V.astype(np.float64) * 0.37 + np.array([0.25, -0.6, 0.4])
    return Vf, F


class MeshKind(Kind):
    dim = 3

    def __init__(self, variant, cached, source, override=False):
        self.variant, self.cached, self.source, self.override = variant, cached, source, override
        self.name = "mesh"

    def build(self, rng):
        import trimesh

        if not hasattr(self, "_vf"):
            rng = self.local_rng()
            self._vf = _mesh_source(rng, self.source)
            n, f = len(self._vf[0]), len(self._vf[1])
            self._col_v = rng.integers(0, 256, size=(n, 4)).astype(np.uint8)
            self._col_f = rng.integers(0, 256, size=(f, 4)).astype(np.uint8)
            self._uv = rng.random((n, 2))
            self._va = rng.random((n, 2))
            self._com = np.array([0.5, -0.25, 1.0])
        V, F = self._vf
        m = trimesh.Trimesh(vertices=V.copy(), faces=F.copy(), process=False)
        if self.variant == "vertex_colors":
            m.visual.vertex_colors = self._col_v.copy()
        elif self.variant == "face_colors":
            m.visual.face_colors = self._col_f.copy()
        elif self.variant == "uv":
            m.visual = trimesh.visual.TextureVisuals(uv=self._uv.copy())
        if self.variant != "plain":
            m.vertex_attributes["a"] = self._va.copy()
            m.face_attributes["b"] = np.arange(len(F), dtype=np.int64) * 3
            m.metadata["name"] = "thing"
            m.metadata["arr"] = np.array([1.5, 2.5])
        if self.override:
            m.center_mass = self._com.copy()
        return m

    def warm(self, m):
        if self.cached:
            _ = (m.face_normals, m.vertex_normals, m.volume, m.area, m.center_mass, m.moment_inertia, m.bounds,
                 m.edges_unique, m.face_adjacency, m.is_volume, m.area_faces, m.triangles_center)

    def snap(self, m):
        att = {"metadata": freeze(m.metadata), "va": freeze(dict(m.vertex_attributes)), "fa": freeze(dict(m.face_attributes)),
               "visual_kind": m.visual.kind}
        if self.variant == "vertex_colors":
            att["vc"] = freeze(np.array(m.visual.vertex_colors))
        elif self.variant == "face_colors":
            att["fc"] = freeze(np.array(m.visual.face_colors))
        elif self.variant == "uv":
            att["uv"] = freeze(np.array(m.visual.uv))
        return Snap(np.array(m.vertices), np.array(m.faces, dtype=np.int64), att)

    def structure_law(self, run, s0, s1, M, key, case):
        det, sim, s, band = props(M)
        F0, F1 = s0.structure, s1.structure
        if F0.shape != F1.shape:
            run.violation(key("law=face_count_kept"), "number of faces changed", case)
            return False
        run.count("mesh_flips_expected" if det < 0 and not band else "mesh_noflip_expected")
        same = _cyclic_equal(F0, F1)
        rev = _cyclic_equal(F0[:, ::-1], F1)
        if band and same.all():
            return True
        ok = True
        if det > 0 and not same.all():
            ok = False
            sym = "rewound" if rev.all() else "faces_changed"
            run.violation(key("law=winding sym=%s_although_det>0" % sym), "faces were re-wound / altered although det M > 0", case)
        if det < 0 and not rev.all():
            ok = False
            sym = "not_rewound" if same.all() else "faces_changed"
            run.violation(key("law=winding sym=%s_although_det<0" % sym),
                          "det M < 0 but faces were not re-wound exactly (normals would point inward)", case)
        if det < 0 and rev.all():
            run.count("mesh_flips_observed")
        return ok

    def extra_laws(self, run, m, s0, s1, M, key, case, loose=False):
        det, sim, s, band = props(M)
        band = band or loose  # a factor of a composition may legitimately have been skipped
        V0, F0, V1, F1 = s0.points, s0.structure, s1.points, s1.structure
        if V1.shape != V0.shape or F1.shape != F0.shape or not np.isfinite(V1).all():
            return
        ex0 = s0.extra.get("ex") or exact_mass(V0, F0)
        rel = 1e-7 if band else 1e-9  # vertex rounding / the skipped sub-1e-8 matrix
        # ---- exact integrals of the transformed surface: winding + points together
        ex1 = exact_mass(V1, F1)
        v0, v1 = float(ex0.volume), float(ex1.volume)
        want_v = abs(det) * v0
        tol_v = ex1.tol_volume() + rel * ex1.mag_volume
        if abs(v1 - want_v) > tol_v:
            run.violation(key("law=volume_scales_by_|det| read=exact_of_arrays"),
                          "signed volume enclosed by the transformed arrays is not |det M| times the original", dict(case, got=v1, expected=want_v))
        # ---- API values read after the transform (may come from a transported cache)
        def api(name, fn, want, tol):
            try:
                got = np.asarray(fn(), dtype=np.float64)
            except Exception as e:
                run.violation(key("law=%s sym=exception:%s" % (name, type(e).__name__)), "reading %s after the transform raised %r" % (name, e), case)
                return
            want = np.asarray(want, dtype=np.float64)
            bad = got.shape != want.shape or not np.all(np.abs(got - want) <= tol)
            if bad:
                run.violation(key("law=" + name), "%s after the transform does not follow the law" % name,
                              dict(case, got=got, expected=want, tol=np.asarray(tol)))

        api("volume_scales_by_|det|", lambda: m.volume, want_v, tol_v)
        if abs(v0) > 1e-9 and abs(v1) > 1e-6 * ex1.mag_volume:  # a solid, at whatever unit
            c0 = ex0.f(ex0.center_mass())
            c1 = apply_ref(M, c0[None])[0]
            tol_c = ex1.tol_center_mass() + (1e-7 if band else 1e-10) * (1 + np.abs(c1).sum())
            if self.override:
                cov = apply_ref(M, s0.extra["com_override"][None])[0]
                api("center_mass_override_moved", lambda: m.center_mass, cov,
                    (2e-8 if band else 1e-11 * (1.0 + float(np.abs(M).max()))) * (1.0 + float(np.abs(cov).sum())))
            else:
                api("center_mass_maps_through_M", lambda: m.center_mass, c1, tol_c)
                if sim == "yes":
                    R = linear(M) / s
                    I0 = ex0.f(ex0.inertia_com())
                    want_I = (s**5) * (R @ I0 @ R.T)
                    tol_I = ex1.tol_inertia(c1, tol_c) + rel * 100 * float(np.abs(want_I).max()) + rel * ex1.mag_second.max()
                    api("inertia_s^5_R_I_R^T", lambda: m.moment_inertia, want_I, tol_I)
        if sim == "yes":
            want_a = s * s * ex0.area
            api("area_scales_by_s^2", lambda: m.area, want_a, ex1.tol_area() + rel * 10 * want_a)
        if s0.extra.get("is_volume") is not None and well_conditioned(M):
            try:
                now = bool(m.is_volume)
                if now != s0.extra["is_volume"]:
                    run.violation(key("law=is_volume_kept sym=%s->%s" % (s0.extra["is_volume"], now)), "is_volume changed under an invertible transform", case)
            except Exception as e:
                run.violation(key("law=is_volume_kept sym=exception:%s" % type(e).__name__), "is_volume raised %r" % (e,), case)
        # ---- normals of the transformed triangles (own cross products of the new arrays)
        tri = V1[F1]
        n = np.cross(tri[:, 1] - tri[:, 0], tri[:, 2] - tri[:, 0])
        ln = np.linalg.norm(n, axis=1)
        ok = ln > 1e-12 * max(1.0, float(np.abs(V1).max()) ** 2)
        try:
            fn = np.asarray(m.face_normals, dtype=np.float64)
            if fn.shape != n.shape:
                run.violation(key("law=normals sym=shape"), "face_normals has the wrong shape after the transform", case)
            elif ok.any():
                dv = float(np.abs(fn[ok] - n[ok] / ln[ok, None]).max())
                if dv > 1e-8:
                    run.violation(key("law=normals"), "face_normals after the transform are not the normals of the transformed triangles",
                                  dict(case, max_deviation=dv))
        except Exception as e:
            run.violation(key("law=normals sym=exception:%s" % type(e).__name__), "face_normals raised %r" % (e,), case)
        try:
            import trimesh

            vn = np.asarray(m.vertex_normals, dtype=np.float64)
            fresh = trimesh.Trimesh(vertices=V1.copy(), faces=F1.copy(), process=False)
            vr = np.asarray(fresh.vertex_normals, dtype=np.float64)
            dv = float(np.abs(vn - vr).max()) if vn.shape == vr.shape else float("inf")
            if dv > 1e-8:
                run.violation(key("law=vertex_normals"), "vertex_normals after the transform differ from those of a fresh mesh with the same arrays",
                              dict(case, max_deviation=dv))
        except Exception as e:
            run.violation(key("law=vertex_normals sym=exception:%s" % type(e).__name__), "vertex_normals raised %r" % (e,), case)
        # ---- bounds
        try:
            b = np.asarray(m.bounds, dtype=np.float64)
            want_b = np.array([V1[np.unique(F1)].min(axis=0), V1[np.unique(F1)].max(axis=0)])
            if b.shape != (2, 3) or np.abs(b - want_b).max() > 0:
                run.violation(key("law=bounds"), "bounds after the transform are not the AABB of the transformed vertices", dict(case, got=b, expected=want_b))
        except Exception as e:
            run.violation(key("law=bounds sym=exception:%s" % type(e).__name__), "bounds raised %r" % (e,), case)


def _cyclic_equal(A, B):
    """row-wise: B[i] is a cyclic rotation of A[i]"""
    return (
        (A == B).all(axis=1)
        | (A == np.roll(B, 1, axis=1)).all(axis=1)
        | (A == np.roll(B, 2, axis=1)).all(axis=1)
    )


class CloudKind(Kind):
    name = "pointcloud"

    def build(self, rng):
        import trimesh

        if not hasattr(self, "_p"):
            rng = self.local_rng()
            self._p = rng.uniform(-3, 3, size=(17, 3))
            self._c = rng.integers(0, 256, size=(17, 4)).astype(np.uint8)
        pc = trimesh.PointCloud(self._p.copy(), colors=self._c.copy())
        pc.metadata["name"] = "cloud"
        return pc

    def warm(self, pc):
        _ = pc.bounds, pc.centroid

    def snap(self, pc):
        return Snap(np.array(pc.vertices), len(pc.vertices), {"colors": freeze(np.array(pc.colors)), "metadata": freeze(pc.metadata)})

    def extra_laws(self, run, pc, s0, s1, M, key, case, loose=False):
        b = np.asarray(pc.bounds)
        want = np.array([s1.points.min(axis=0), s1.points.max(axis=0)])
        if np.abs(b - want).max() > 0:
            run.violation(key("law=bounds"), "PointCloud.bounds is not the AABB of the transformed points", case)


class PathKind(Kind):
    def __init__(self, dim, cached):
        self.dim, self.cached = dim, cached
        self.name = "path%dd" % dim

    def build(self, rng):
        import trimesh
        from trimesh.path.entities import Line

        if not hasattr(self, "_v"):
            outer = np.array([[0, 0], [4, 0], [4, 3], [0, 3.0]]) + np.array([0.3, -0.2])
            inner = np.array([[1, 1], [2, 1], [2, 2], [1, 2.0]]) + np.array([0.3, -0.2])
            free = np.array([[5, 0.5], [6, 1.5], [5.5, 2.5]])
            V = np.vstack([outer, inner, free])
            if self.dim == 3:
                V = np.column_stack([V, np.array([0.0, 0, 0, 0, 0, 0, 0, 0, 0.5, 1.0, -0.5])])
                V[:8, 2] = 0.75
            self._v = V
        ents = [Line([0, 1, 2, 3, 0]), Line([4, 5, 6, 7, 4]), Line([8, 9, 10])]
        cls = trimesh.path.Path2D if self.dim == 2 else trimesh.path.Path3D
        p = cls(entities=ents, vertices=self._v.copy(), process=False, metadata={"name": "drawing"})
        return p

    def warm(self, p):
        if self.cached:
            _ = p.bounds, p.length, p.discrete, p.paths, p.extents
            if self.dim == 2:
                _ = p.area, p.polygons_closed, p.polygons_full, p.root, p.enclosure_directed

    def snap(self, p):
        st = tuple((type(e).__name__, tuple(int(i) for i in e.points), bool(e.closed)) for e in p.entities)
        return Snap(np.array(p.vertices), st, {"metadata": freeze(p.metadata), "layers": freeze(list(p.layers))})

    def extra_laws(self, run, p, s0, s1, M, key, case, loose=False):
        V1 = s1.points
        if V1.shape != s0.points.shape or not np.isfinite(V1).all():
            return
        det, sim, s, band = props(M)
        sc = 1.0 + float(np.abs(V1).max())
        # length / bounds / discrete / area from the transformed vertices (own evaluation)
        seqs = [np.array(e[1]) for e in s1.structure]
        want_len = sum(float(np.linalg.norm(np.diff(V1[q], axis=0), axis=1).sum()) for q in seqs)
        ref = np.unique(np.concatenate(seqs))
        want_b = np.array([V1[ref].min(axis=0), V1[ref].max(axis=0)])

        def api(name, fn, want, tol):
            try:
                got = np.asarray(fn(), dtype=np.float64)
            except Exception as e:
                run.violation(key("law=%s sym=exception:%s" % (name, type(e).__name__)), "reading %s after the transform raised %r" % (name, e), case)
                return
            if got.shape != np.shape(want) or not np.all(np.abs(got - want) <= tol):
                run.violation(key("law=" + name), "%s after the transform is not that of the transformed vertices" % name,
                              dict(case, got=got, expected=np.asarray(want)))

        api("length", lambda: p.length, want_len, 1e-10 * sc * len(V1))
        api("bounds", lambda: p.bounds, want_b, 1e-12 * sc)
        try:
            disc = [np.asarray(d, dtype=np.float64) for d in p.discrete]
            # curves may start anywhere / run either way / come in any order: compare the sets of
            # points (closing duplicates dropped) of all curves together
            # the discretised curves of an untouched copy, moved by M (order of curves not asserted)
            twin = self.build(None)
            for P in getattr(self, "_prefix", ()):  # earlier steps of a history (each judged when it ran)
                twin.apply_transform(P)
            before = [np.asarray(d, dtype=np.float64) for d in twin.discrete]
            if sorted(len(d) for d in disc) != sorted(len(d) for d in before):
                run.violation(key("law=discrete sym=count"), "number / size of discrete curves changed", case)
            elif len(disc):
                got_pts = np.vstack(disc)
                want_pts = apply_ref(M, np.vstack(before))
                tolp = (4e-8 if band else 1e-10) * sc * (1 + float(np.abs(M).max()))
                d1 = np.abs(got_pts[:, None, :] - want_pts[None, :, :]).max(axis=2)
                if d1.min(axis=1).max() > tolp or d1.min(axis=0).max() > tolp:
                    run.violation(key("law=discrete"), "discrete curves after the transform are not M applied to the curves before", case)
        except Exception as e:
            run.violation(key("law=discrete sym=exception:%s" % type(e).__name__), "discrete raised %r" % (e,), case)
        if self.dim == 2 and well_conditioned(M):
            def shoelace(P):
                x, y = P[:, 0], P[:, 1]
                return 0.5 * abs(float(np.dot(x, np.roll(y, -1)) - np.dot(y, np.roll(x, -1))))

            want_area = shoelace(V1[seqs[0][:-1]]) - shoelace(V1[seqs[1][:-1]])
            api("area", lambda: p.area, want_area, 1e-9 * sc * sc)
            try:
                n_full = len(p.polygons_full)
                if n_full != 1:
                    run.violation(key("law=polygons_full_count"), "number of regions changed under an invertible transform", dict(case, got=n_full))
            except Exception as e:
                run.violation(key("law=polygons_full sym=exception:%s" % type(e).__name__), "polygons_full raised %r" % (e,), case)


def arc_samples(P, closed, n):
    """
    own parametrisation of the circular arc from P[0] through P[1] to P[2] (2-D or 3-D control points;
    closed: the full circle): n points, first = P[0], last = P[2] (resp. P[0] again)
    """
    P = np.asarray(P, dtype=np.float64)
    d = P.shape[1]
    Q = _pad3(P)
    A, B, C = Q
    a, b = A - C, B - C
    axb = np.cross(a, b)
    nn = float(np.dot(axb, axb))
    center = C + np.cross(np.dot(a, a) * b - np.dot(b, b) * a, axb) / (2.0 * nn)
    r = float(np.linalg.norm(A - center))
    u = (A - center) / r
    # the sweep from A: through B to C without passing 2 pi
    w = axb / math.sqrt(nn)
    v = np.cross(w, u)

    def ang(X):
        t = math.atan2(float(np.dot(X - center, v)), float(np.dot(X - center, u)))
        return t % (2 * math.pi)

    tB, tC = ang(B), ang(C)
    if closed:
        sweep = 2 * math.pi
    elif tB < tC:
        sweep = tC
    else:  # B comes after C counter-clockwise: the arc runs the other way round
        sweep = tC - 2 * math.pi
    t = np.linspace(0.0, sweep, n)
    out = center + r * (np.cos(t)[:, None] * u + np.sin(t)[:, None] * v)
    return out[:, :d], r, abs(sweep)


def bezier_samples(P, n):
    """Bernstein form of the Bezier curve with control points P"""
    P = np.asarray(P, dtype=np.float64)
    k = len(P) - 1
    t = np.linspace(0.0, 1.0, n)[:, None]
    out = np.zeros((n, P.shape[1]))
    for i in range(k + 1):
        out += math.comb(k, i) * (t**i) * ((1 - t) ** (k - i)) * P[i]
    return out


def dist_to_polyline(P, L):
    """distance of every point of P to the open polyline through the rows of L"""
    A, B = L[:-1], L[1:]
    AB = B - A
    den = np.maximum((AB * AB).sum(axis=1), 1e-300)
    t = np.clip(((P[:, None, :] - A[None]) * AB[None]).sum(axis=2) / den, 0.0, 1.0)
    X = A[None] + t[:, :, None] * AB[None]
    return np.sqrt(((P[:, None, :] - X) ** 2).sum(axis=2)).min(axis=1)


class CurvedPathKind(PathKind):
    """
    a drawing with CURVED entities: a region bounded by a three-point Arc and its chord (Line), a hole
    that is a closed Arc (full circle), a free cubic Bezier.  Its points are the points of the curves,
    not only the control vertices: after M every point of the curve before must be at M.p, i.e. the
    curve after is the image of the curve before (an ellipse arc when M is not a similarity).
    The curves before are sampled from an own parametrisation, so the law does not depend on what
    the library had cached.  Judged with the slack of a discretisation (1 % of the size of an entity).
    """

    allows_resampling = True  # under a non-similarity an arc may be replaced by other entities / more vertices

    def __init__(self, dim, cached):
        PathKind.__init__(self, dim, cached)
        self.name = "path%dd:curved" % dim

    def build(self, rng):
        import trimesh
        from trimesh.path.entities import Arc, Bezier, Line

        if not hasattr(self, "_v"):
            c, r = np.array([0.8, -0.4]), 1.5
            a = np.radians([-70.0, 30.0, 140.0])
            arc = c + r * np.column_stack([np.cos(a), np.sin(a)])
            c2, r2 = np.array([1.1, -0.1]), 0.4
            a2 = np.radians([10.0, 130.0, 250.0])
            circ = c2 + r2 * np.column_stack([np.cos(a2), np.sin(a2)])
            bez = np.array([[4.0, 0.0], [4.5, 1.5], [5.5, -0.5], [6.0, 1.0]])
            V = np.vstack([arc, circ, bez])
            if self.dim == 3:  # on a tilted plane, so that the arcs are arcs in space
                V = np.column_stack([V, 0.3 * V[:, 0] - 0.2 * V[:, 1] + 0.75])
            self._v = V
            th = math.radians(210.0)
            self._area0 = 0.5 * r * r * (th - math.sin(th)) - math.pi * r2 * r2  # segment minus hole (2-D)
        ents = [Arc([0, 1, 2]), Line([2, 0]), Arc([3, 4, 5], closed=True), Bezier([6, 7, 8, 9])]
        cls = trimesh.path.Path2D if self.dim == 2 else trimesh.path.Path3D
        return cls(entities=ents, vertices=self._v.copy(), process=False, metadata={"name": "drawing"})

    def _curves0(self):
        """own samples of the entities before any transform: [(name, closed_loop_member, points)]"""
        V = self._v
        return [("Arc", True, arc_samples(V[[0, 1, 2]], False, 121)[0]),
                ("Line", True, V[[2, 0]]),
                ("Arc:closed", True, arc_samples(V[[3, 4, 5]], True, 121)[0]),
                ("Bezier", False, bezier_samples(V[[6, 7, 8, 9]], 61))]

    def extra_laws(self, run, p, s0, s1, M, key, case, loose=False):
        det, sim, s, band = props(M)
        if sim != "yes":
            # which matrix that is not a similarity does not matter to what an entity can hold: one key class
            import re

            key0 = key
            key = lambda law: re.sub(r"class=[^ ]+", "class=nonsimilarity", key0(law))  # noqa: E731
        Mall = [np.asarray(P, dtype=np.float64) for P in getattr(self, "_prefix", ())] + [M]
        want = []
        for name, loop, C in self._curves0():
            for P in Mall:  # earlier steps of a history (each judged when it ran), then this one
                C = apply_ref(P, C)
            want.append((name, loop, C, 0.01 * float(np.ptp(C, axis=0).max())))
        ents = list(p.entities)
        if len(ents) != len(want):
            run.violation(key("law=entity_count_kept"), "number of entities changed", dict(case, before=len(want), after=len(ents)))
            return
        V1 = np.asarray(p.vertices, dtype=np.float64)
        if not np.isfinite(V1).all():
            return
        # ---- 1. the closed curves as the path hands them out (possibly carried over from before the call)
        try:
            disc = [np.asarray(d, dtype=np.float64) for d in p.discrete]
        except Exception as e:
            run.violation(key("law=discrete sym=exception:%s" % type(e).__name__), "discrete raised %r" % (e,), case)
            return
        loops = [w for w in want if w[1]]
        if len(disc) != 2:
            run.violation(key("law=discrete sym=count"), "number of closed curves changed", dict(case, got=len(disc)))
            return
        allw = np.vstack([w[2] for w in loops])
        tolw = np.concatenate([np.full(len(w[2]), w[3]) for w in loops])
        got = np.vstack(disc)
        # every vertex handed out lies on an image curve, every sample of an image curve on a curve handed out
        d_in = np.min([dist_to_polyline(got, w[2]) - w[3] for w in loops], axis=0)
        d_out = np.min([dist_to_polyline(allw, d) for d in disc], axis=0) - tolw
        if d_in.max() > 0 or d_out.max() > 0:
            run.violation(key("law=curve_is_image_of_curve read=discrete"),
                          "the closed curves after the transform are not the image under M of the curves before",
                          dict(case, off_by=float(max(d_in.max(), d_out.max())), tolerance=float(tolw.max())))
            return
        # ---- 2. every entity, discretised afresh from what the path stores now
        try:
            scale = float(p.scale)
            for e, (name, loop, C, tol) in zip(ents, want):
                D = np.asarray(e.discrete(V1, scale=scale), dtype=np.float64)
                off = max(float(dist_to_polyline(D, C).max()), float(dist_to_polyline(C, D).max()))
                if off > tol:
                    run.violation(key("law=curve_is_image_of_curve read=entity_discrete"),
                                  "an entity discretised after the transform is not the image under M of that entity before "
                                  "(while the curves the path handed out were)", dict(case, entity=name, off_by=off, tolerance=tol))
                    return
        except Exception as e:
            run.violation(key("law=entity_discrete sym=exception:%s" % type(e).__name__), "entity.discrete raised %r" % (e,), case)
            return
        # ---- 3. values derived from the curves
        allc = np.vstack([w[2] for w in want])
        size = float(np.ptp(allc, axis=0).max())

        def api(name, fn, wantv, tol):
            try:
                g = np.asarray(fn(), dtype=np.float64)
            except Exception as e:
                run.violation(key("law=%s sym=exception:%s" % (name, type(e).__name__)), "reading %s after the transform raised %r" % (name, e), case)
                return False
            if g.shape != np.shape(wantv) or not np.all(np.abs(g - wantv) <= tol):
                run.violation(key("law=" + name), "%s after the transform is not that of the image curves" % name,
                              dict(case, got=g, expected=np.asarray(wantv)))
                return False
            return True

        # (the library bounds a Bezier by its control polygon: take the same definition, moved through M)
        ctrl = self._v[[6, 7, 8, 9]]
        for P in Mall:
            ctrl = apply_ref(P, ctrl)
        allb = np.vstack([w[2] for w in want if w[0] != "Bezier"] + [ctrl])
        if not api("bounds", lambda: p.bounds, np.array([allb.min(axis=0), allb.max(axis=0)]), 0.01 * size):
            return
        want_len = sum(float(np.linalg.norm(np.diff(w[2], axis=0), axis=1).sum()) for w in want)
        if not api("length", lambda: p.length, want_len, 0.005 * want_len):
            return
        if self.dim == 2 and well_conditioned(M):
            detall = float(np.prod([abs(np.linalg.det(linear(P))) for P in Mall]))
            if not api("area", lambda: p.area, detall * self._area0, 0.005 * detall * self._area0):
                return
            try:
                n_full = len(p.polygons_full)
                if n_full != 1:
                    run.violation(key("law=polygons_full_count"), "number of regions changed under an invertible transform", dict(case, got=n_full))
            except Exception as e:
                run.violation(key("law=polygons_full sym=exception:%s" % type(e).__name__), "polygons_full raised %r" % (e,), case)


class PrimitiveKind(Kind):
    """
    a primitive is read three ways: the tessellation it presents (points, exact integrals), its
    parameters (extents / radius / height / polygon / transform: what a refused call must leave alone)
    and the values its API reports (volume, area, center_mass, moment_inertia - analytic for some
    primitives, from the tessellation for others), the latter judged only when the reading BEFORE the
    call agreed with the oracle (a reading that is wrong before any transform is not this property's).
    override=True: centre of mass set by the caller (the inherited `center_mass` setter) beforehand.
    """

    may_refuse_nonsimilarity = True

    def __init__(self, which, override=False):
        self.which = which
        self.override = bool(override)
        self.name = "primitive:" + which

    def build(self, rng):
        from trimesh import primitives as P

        if not hasattr(self, "_t"):
            rng = self.local_rng()
            q = rng.normal(size=4)
            q /= np.linalg.norm(q)
            w, x, y, z = q
            R = np.array([
                [1 - 2 * (y * y + z * z), 2 * (x * y - w * z), 2 * (x * z + w * y)],
                [2 * (x * y + w * z), 1 - 2 * (x * x + z * z), 2 * (y * z - w * x)],
                [2 * (x * z - w * y), 2 * (y * z + w * x), 1 - 2 * (x * x + y * y)]])
            T = np.eye(4)
            T[:3, :3] = R
            T[:3, 3] = [0.7, -1.1, 0.4]
            self._t = T
            self._com = np.array([0.8, -0.9, 0.25])  # inside every one of the five solids, not their centroid
        T = self._t.copy()
        if self.which == "Box":
            p = P.Box(extents=[1.0, 2.0, 3.0], transform=T)
        elif self.which == "Cylinder":
            p = P.Cylinder(radius=0.6, height=2.0, transform=T, sections=12)
        elif self.which == "Capsule":
            p = P.Capsule(radius=0.5, height=1.5, transform=T, sections=8)
        elif self.which == "Sphere":
            p = P.Sphere(radius=1.25, center=[0.7, -1.1, 0.4], subdivisions=2)
        else:
            from shapely.geometry import Polygon

            p = P.Extrusion(polygon=Polygon([(0, 0), (2, 0), (2, 1), (1, 1.5), (0, 1)]), height=1.5, transform=T)
        if self.override:
            p.center_mass = self._com.copy()
        return p

    def warm(self, p):
        _ = p.vertices, p.faces, p.volume, p.bounds

    READS = ("volume", "area", "center_mass", "moment_inertia")

    def _params(self, p):
        pr = p.primitive
        out = {}
        for k in ("extents", "radius", "height", "transform"):
            if hasattr(pr, k):
                out[k] = np.array(getattr(pr, k), dtype=np.float64)
        if self.which == "Extrusion":
            out["polygon"] = np.array(pr.polygon.exterior.coords, dtype=np.float64)
        return out

    def snap(self, p):
        st = (len(p.vertices), len(p.faces))
        extra = {"params": self._params(p), "read": {}}
        if self.which == "Sphere":
            extra.update(center=np.array(p.primitive.center, dtype=np.float64), radius=float(p.primitive.radius))
        for name in (("center_mass",) if self.override else self.READS):
            try:
                extra["read"][name] = np.array(getattr(p, name), dtype=np.float64)
            except Exception as e:  # reported where the value is judged
                extra["read"][name] = e
        return Snap(np.array(p.vertices), st, {"metadata": freeze({k: v for k, v in p.metadata.items()})},
                    dict(extra, faces=np.array(p.faces, dtype=np.int64)))

    def refusal_law(self, run, p, s0, key, case):
        """a matrix the primitive REFUSES (ValueError) must leave it as it was"""
        P0, P1 = s0.extra["params"], self._params(p)
        changed = sorted(k for k in P0 if P0[k].shape != P1[k].shape or P0[k].tobytes() != P1[k].tobytes())
        if changed:
            run.violation(key("law=refused_matrix_leaves_unchanged sym=parameters_changed"),
                          "%s refused the matrix (ValueError) but its parameters changed: %s" % (self.name, changed),
                          dict(case, changed=changed, before={k: P0[k] for k in changed}, after={k: P1[k] for k in changed}))
            return
        V1 = np.array(p.vertices)
        if V1.shape != s0.points.shape or V1.tobytes() != s0.points.tobytes():
            run.violation(key("law=refused_matrix_leaves_unchanged sym=points_changed"),
                          "%s refused the matrix (ValueError) but its vertices changed" % self.name, case)
        run.count("refusals_left_unchanged")

    # ---- what the API should report, from the parameters (own formulas; None: read from the tessellation)
    def _analytic(self, P, ex):
        """volume, area, inertia about the centre of mass of the primitive with parameters P (density 1)"""
        w = self.which
        if w == "Box":
            a, b, c = (float(x) for x in P["extents"])
            return {"volume": a * b * c, "area": 2 * (a * b + b * c + c * a), "inertia": None}
        if w == "Cylinder":
            r, h = float(P["radius"]), float(P["height"])
            m = math.pi * r * r * h
            Rt = P["transform"][:3, :3]
            I = np.diag([m * (3 * r * r + h * h) / 12.0] * 2 + [m * r * r / 2.0])
            return {"volume": m, "area": None, "inertia": Rt @ I @ Rt.T}
        if w == "Sphere":
            r = float(P["radius"])
            m = 4.0 / 3.0 * math.pi * r**3
            return {"volume": m, "area": 4 * math.pi * r * r, "inertia": 0.4 * m * r * r * np.eye(3)}
        if w == "Extrusion":
            xy, h = P["polygon"][:-1], abs(float(P["height"]))
            x, y = xy[:, 0], xy[:, 1]
            A = 0.5 * abs(float(np.dot(x, np.roll(y, -1)) - np.dot(y, np.roll(x, -1))))
            per = float(np.linalg.norm(xy - np.roll(xy, -1, axis=0), axis=1).sum())
            return {"volume": A * h, "area": h * per + 2 * A, "inertia": None}
        return {"volume": None, "area": None, "inertia": None}

    def api_laws(self, run, s0, s1, ex0, ex1, M, key, case):
        det, sim, s, band = props(M)
        R0, R1 = s0.extra["read"], s1.extra["read"]
        an = self._analytic(s0.extra["params"], ex0)
        # an Extrusion can not take a scale into its parameters; one within the documented epsilon of
        # is_rigid (1e-8 on L.L^T) stays in its matrix: |det| - 1 up to 1.5e-8, ten times that allowed
        rel = 2e-7 if self.which == "Extrusion" else 1e-9

        def judge(name, law, before, tol_before, want, tol):
            """the reading before the call must be the oracle's (else: not this property's), then the law"""
            g0, g1 = R0[name], R1[name]
            if isinstance(g0, Exception) or np.shape(g0) != np.shape(before) or not np.all(np.abs(g0 - before) <= tol_before):
                run.count("primitive_read_not_judged_wrong_before:%s.%s" % (self.which, name))
                return True
            if isinstance(g1, Exception):
                run.violation(key("law=%s read=primitive.%s sym=exception:%s" % (law, name, type(g1).__name__)),
                              "reading %s after the transform raised %r" % (name, g1), case)
                return False
            run.count("primitive_reads_judged")
            if np.shape(g1) != np.shape(want) or not np.all(np.abs(g1 - want) <= tol):
                run.violation(key("law=%s read=primitive.%s" % (law, name)),
                              "%s.%s after the transform does not follow the law (it did describe the primitive before)" % (self.name, name),
                              dict(case, got=g1, expected=np.asarray(want), before=g0))
                return False
            return True

        v0 = float(ex0.volume)
        V0 = an["volume"] if an["volume"] is not None else v0
        tv0 = (ex0.tol_volume() + rel * ex0.mag_volume) if an["volume"] is None else rel * abs(V0)
        tv1 = (ex1.tol_volume() + rel * ex1.mag_volume) if an["volume"] is None else rel * abs(det) * abs(V0)
        judge("volume", "volume_scales_by_|det|", V0, tv0, abs(det) * V0, tv1)
        if sim == "yes":
            A0 = an["area"] if an["area"] is not None else ex0.area
            ta0 = (ex0.tol_area() + rel * 10 * A0) if an["area"] is None else rel * A0
            judge("area", "area_scales_by_s^2", A0, ta0, s * s * A0, (ex1.tol_area() if an["area"] is None else 0.0) + rel * 10 * s * s * A0)
        if self.override or not (abs(v0) > 1e-9 and abs(float(ex1.volume)) > 1e-6 * ex1.mag_volume):
            return
        c0 = ex0.f(ex0.center_mass())
        c1 = apply_ref(M, c0[None])[0]
        tc0 = ex0.tol_center_mass() + 1e-10 * (1 + np.abs(c0).sum())
        tc1 = ex1.tol_center_mass() + 1e-10 * (1 + np.abs(c1).sum())
        if not judge("center_mass", "center_mass_maps_through_M", c0, tc0, c1, tc1):
            return
        if sim == "yes":
            R = linear(M) / s
            if an["inertia"] is None:
                I0 = ex0.f(ex0.inertia_com())
                want = (s**5) * (R @ I0 @ R.T)
                ti0 = ex0.tol_inertia(c0, tc0) + rel * 100 * float(np.abs(I0).max()) + rel * ex0.mag_second.max()
                ti1 = ex1.tol_inertia(c1, tc1) + rel * 100 * float(np.abs(want).max()) + rel * ex1.mag_second.max()
            else:
                I0 = an["inertia"]
                want = (s**5) * (R @ I0 @ R.T)
                ti0, ti1 = rel * float(np.abs(I0).max()), rel * float(np.abs(want).max())
            judge("moment_inertia", "inertia_s^5_R_I_R^T", I0, ti0, want, ti1)

    def override_law(self, run, s0, s1, M, key, case):
        # the centre of mass the caller set is attached data that is a POINT: it moves through M
        com0 = s0.extra["com_override"]
        cov = apply_ref(M, com0[None])[0]
        got, was = s1.extra["read"]["center_mass"], s0.extra["read"]["center_mass"]
        tolc = 1e-11 * (1.0 + float(np.abs(M).max())) * (1.0 + float(np.abs(cov).sum()))
        if isinstance(got, Exception) or np.shape(got) != (3,) or np.abs(got - cov).max() > tolc:
            moved = isinstance(got, Exception) or isinstance(was, Exception) or np.shape(got) != np.shape(was) or np.abs(got - was).max() > 0
            if moved:
                run.violation(key("law=center_mass_override_moved kind_variant=com_override"), "an overridden centre of mass is not at M.c after the transform",
                              dict(case, got=repr(got), expected=cov))
            else:  # left where it was, whatever the matrix: one key per primitive
                ka = make_key(self.name + ":com_override", "any", None)
                run.violation(ka("law=center_mass_override_moved sym=not_moved"),
                              "an overridden centre of mass stays where it was while the primitive moves",
                              dict(case, got=got, expected=cov))

    def extra_laws(self, run, p, s0, s1, M, key, case, loose=False):
        det, sim, s, band = props(M)
        V1, F1 = s1.points, s1.extra["faces"]
        if not np.isfinite(V1).all() or len(V1) == 0:
            return
        if self.override:
            return self.override_law(run, s0, s1, M, key, case)  # everything else: the twin without an override
        # valid solid stays valid: the mesh it presents encloses |det| * the volume, positively
        ex0 = exact_memo(s0.points, s0.extra["faces"])
        ex1 = exact_mass(V1, F1)
        v0, v1 = float(ex0.volume), float(ex1.volume)
        want = abs(det) * v0
        tol = ex1.tol_volume() + (1e-7 if band else 1e-9) * ex1.mag_volume
        if abs(v1 - want) > tol:
            sym = "inside_out" if abs(v1 + want) <= tol else "wrong_value"
            run.violation(key("law=mesh_volume_scales_by_|det| sym=%s" % sym),
                          "the triangles a primitive presents after the transform do not enclose |det M| x the volume (inside-out when negative)",
                          dict(case, got=v1, expected=want))
            return  # the values the API reports would only restate this
        try:
            if not bool(p.is_volume):
                run.violation(key("law=is_volume_kept"), "primitive is no longer a valid volume", case)
        except Exception as e:
            run.violation(key("law=is_volume_kept sym=exception:%s" % type(e).__name__), "is_volume raised %r" % (e,), case)
        if self.which == "Sphere":
            c1 = apply_ref(M, s0.extra["center"][None])[0]
            tolp = point_tol(M, c1[None])[0]
            if np.abs(s1.extra["center"] - c1).max() > tolp:
                run.violation(key("law=sphere_center_maps_through_M"), "Sphere centre is not M.centre", dict(case, got=s1.extra["center"], expected=c1))
                return
            r1 = s * s0.extra["radius"]
            # (a sphere has one radius: the law is the statement's only for similarities)
            if sim == "yes" and abs(s1.extra["radius"] - r1) > 1e-11 * (1 + r1):
                run.violation(key("law=sphere_radius_scales_by_s"), "Sphere radius is not s x radius", dict(case, got=s1.extra["radius"], expected=r1))
                return
            d = np.linalg.norm(V1 - c1, axis=1)
            if np.abs(d - r1).max() > (1e-7 if band else 1e-9) * (1 + r1 + np.abs(c1).sum()):
                run.violation(key("law=sphere_vertices_on_sphere"), "Sphere vertices do not lie on the transformed sphere", case)
                return
        self.api_laws(run, s0, s1, ex0, ex1, M, key, case)


def _pad3(P):
    P = np.asarray(P, dtype=np.float64)
    if P.ndim == 2 and P.shape[1] == 2:
        P = np.column_stack([P, np.zeros(len(P))])
    return P


def polar_rigid(E):
    """the matrix with the linear part of E replaced by its orthogonal polar factor (own SVD)"""
    U, _, Vt = np.linalg.svd(E[:3, :3])
    out = np.eye(4)
    out[:3, :3] = U @ Vt
    out[:3, 3] = E[:3, 3]
    return out


def set_distance(A, B):
    """largest distance from a point of one set to the nearest point of the other (both ways)"""
    if len(A) == 0 or len(B) == 0:
        return 0.0 if len(A) == len(B) else float("inf")
    d = np.abs(A[:, None, :] - B[None, :, :]).max(axis=2)
    return float(max(d.min(axis=1).max(), d.min(axis=0).max()))


class SceneKind(Kind):
    """
    nodes:  a0 (mesh A, node metadata)  -> b0 (mesh B)           nested
            a1 (A again, scaled 0.5)                               instanced, set through graph.update
            far (group node WITHOUT geometry, offset ~1e3) -> f0 (B, node metadata)
            a2 (A again, offset 3e3 directly under the base frame)
            p0 (Path2D of line segments, identity), p1 (the same Path2D, turned in its plane)
            c0 (PointCloud)
    """

    name = "scene"
    ROWWISE = ("Trimesh", "PointCloud")

    def build(self, rng):
        import trimesh
        from trimesh.path.entities import Line

        if not hasattr(self, "_parts"):
            rng = self.local_rng()
            self._parts = [_mesh_source(rng, 0), _mesh_source(rng, 4)]
            T1 = np.eye(4)
            T1[:3, 3] = [2.0, 0.0, -1.0]
            c, s_ = math.cos(0.4), math.sin(0.4)
            T2 = np.array([[c, -s_, 0, 0.5], [s_, c, 0, 1.0], [0, 0, 1, 2.0], [0, 0, 0, 1.0]])
            T3 = np.diag([0.5, 0.5, 0.5, 1.0])
            T3[:3, 3] = [-1, -1, 3]
            Tfar = np.eye(4)
            Tfar[:3, 3] = [1000.0, -2000.0, 500.0]
            c, s_ = math.cos(-1.1), math.sin(-1.1)
            Tf0 = np.array([[1, 0, 0, 0.25], [0, c, -s_, -0.5], [0, s_, c, 1.5], [0, 0, 0, 1.0]])
            Ta2 = np.eye(4)
            Ta2[:3, 3] = [0.0, 3000.0, -7.0]
            c, s_ = math.cos(0.7), math.sin(0.7)
            Tp1 = np.array([[c, -s_, 0, 0], [s_, c, 0, 0], [0, 0, 1, 0], [0, 0, 0, 1.0]])
            Tc0 = np.eye(4)
            Tc0[:3, 3] = [-3.0, 1.0, 0.5]
            self._T = [T1, T2, T3, Tfar, Tf0, Ta2, Tp1, Tc0]
            self._pv = np.array([[0.0, 0], [3, 0], [3, 2], [0, 2], [1, 0.5], [2, 1.5]]) + np.array([0.4, -0.3])
            self._cloud = rng.uniform(-2, 2, size=(7, 3))
        T = [t.copy() for t in self._T]
        sc = trimesh.Scene()
        base = sc.graph.base_frame
        a = trimesh.Trimesh(self._parts[0][0].copy(), self._parts[0][1].copy(), process=False)
        b = trimesh.Trimesh(self._parts[1][0].copy(), self._parts[1][1].copy(), process=False)
        sc.add_geometry(a, node_name="a0", geom_name="A", transform=T[0], metadata={"tag": "a0", "n": 3})
        sc.add_geometry(b, node_name="b0", geom_name="B", transform=T[1], parent_node_name="a0")
        # second instance of A directly under the base frame
        sc.graph.update(frame_to="a1", frame_from=base, matrix=T[2], geometry="A")
        # a group node far from the origin, an instance below it, an instance far away at the base
        sc.graph.update(frame_to="far", frame_from=base, matrix=T[3])
        sc.graph.update(frame_to="f0", frame_from="far", matrix=T[4], geometry="B", metadata={"tag": "f0"})
        sc.graph.update(frame_to="a2", frame_from=base, matrix=T[5], geometry="A")
        # other geometry kinds as instances
        p = trimesh.path.Path2D(entities=[Line([0, 1, 2, 3, 0]), Line([4, 5])], vertices=self._pv.copy(), process=False)
        sc.add_geometry(p, node_name="p0", geom_name="P")
        sc.graph.update(frame_to="p1", frame_from=base, matrix=T[6], geometry="P")
        sc.add_geometry(trimesh.PointCloud(self._cloud.copy()), node_name="c0", geom_name="C", transform=T[7])
        sc.metadata["name"] = "scene"
        return sc

    def warm(self, sc):
        _ = sc.bounds, sc.centroid, sc.extents

    def _placed(self, sc):
        """explicit placement: every geometry node's world matrix (as the graph reports it) times the vertices"""
        out, mats = {}, {}
        for node in sc.graph.nodes_geometry:
            T, gname = sc.graph[node]
            g = sc.geometry[gname]
            mats[node] = np.array(T, dtype=np.float64)
            out[node] = (gname, apply_ref(mats[node], _pad3(g.vertices)))
        return out, mats

    def snap(self, sc):
        placed, mats = self._placed(sc)
        names = sorted(placed)
        pts = np.vstack([placed[n][1] for n in names])
        # the library's own dump(): one baked copy per instance
        dump = {}
        for d in sc.dump():
            dump[str(d.metadata.get("node"))] = (type(d).__name__, _pad3(d.vertices),
                                                 np.array(d.faces) if hasattr(d, "faces") else None)
        vol = {n: float(exact_mass(v, f).volume) for n, (t, v, f) in dump.items() if t == "Trimesh"}

        def fz(g):
            parts = [freeze(np.array(g.vertices))]
            if hasattr(g, "faces"):
                parts.append(freeze(np.array(g.faces)))
            if hasattr(g, "entities"):
                parts.append(tuple((type(e).__name__, tuple(int(i) for i in e.points)) for e in g.entities))
            return tuple(parts)

        geom = {k: fz(g) for k, g in sc.geometry.items()}
        # what is attached to the nodes, read through the public edge list (geometry reference, metadata)
        node_att = tuple(sorted((str(u), str(v), str(d.get("geometry")), freeze(d.get("metadata"))) for u, v, d in sc.graph.to_edgelist()))
        st = (tuple(names), tuple(placed[n][0] for n in names), tuple(len(placed[n][1]) for n in names), tuple(sorted(dump)))
        rows = np.cumsum([0] + [len(placed[n][1]) for n in names])
        return Snap(pts, st, {"geometry_untouched": geom, "metadata": freeze(sc.metadata),
                              "node_geometry_reference": tuple(x[:3] for x in node_att),
                              "node_metadata": tuple((x[0], x[1], x[3]) for x in node_att)},
                    {"dump": dump, "dump_vol": vol, "node_T": mats, "names": names, "rows": rows,
                     "verts": {n: _pad3(sc.geometry[placed[n][0]].vertices) for n in names}})

    def classify_point_failure(self, M, s0, s1, tol):
        """
        a structural symptom for a failed point law: are the points where they would be if every node
        matrix M.T that is nearly rigid (1e-13 < max|L L^T - I| < 1e-5) had been replaced by its
        orthogonal polar factor?  (own SVD; second-order slack because the library repairs products)
        """
        alt, hit = [], False
        for n in s0.extra["names"]:
            E = np.asarray(M.astype(np.longdouble) @ s0.extra["node_T"][n].astype(np.longdouble), dtype=np.float64)
            dev = rigid_defect(E)
            if 1e-13 < dev < 2 * REPAIR_RIGID:
                E, hit = polar_rigid(E), True
            alt.append(apply_ref(E, s0.extra["verts"][n]))
        if not hit:
            return None
        alt = np.vstack(alt)
        dmax = max(rigid_defect(M), 1e-8)
        if alt.shape == s1.points.shape and point_ratio(s1.points, alt, tol + 8 * dmax * dmax * (1 + np.abs(alt).sum(axis=1))) <= 1:
            return "near_rigid_part_dropped"
        return None

    def extra_laws(self, run, sc, s0, s1, M, key, case, loose=False):
        det, sim, s, band = props(M)
        d0, d1 = s0.extra["dump"], s1.extra["dump"]
        # dump() applies each node matrix through apply_transform of a copy: judge like points
        for n in sorted(d0):
            t0, v0, _ = d0[n]
            if n not in d1:
                continue  # structure law
            t1, v1, _ = d1[n]
            want = apply_ref(M, v0)
            tol = point_tol(M, want) if not band else 4e-8 * (1 + np.abs(want).sum(axis=1))
            if t0 in self.ROWWISE:
                r = point_ratio(v1, want, tol)
            else:  # Path2D.to_3D re-orders vertices: compare as point sets
                r = set_distance(v1, want) / float(np.max(tol)) if len(v1) == len(want) else float("inf")
            if r > 1:
                inst = {"Trimesh": "mesh", "PointCloud": "cloud"}.get(t0, t0.lower())
                run.violation(key("law=dump_points_p->M.p inst=%s dumped_as=%s" % (inst, t1)),
                              "Scene.dump() after the transform is not M applied to the dump before (instance %s)" % n, dict(case, ratio=r, node=n))
                return
        for n, v0 in s0.extra["dump_vol"].items():
            v1 = s1.extra["dump_vol"].get(n)
            if v1 is not None and abs(v1 - abs(det) * v0) > 1e-6 * max(1.0, abs(det) * abs(v0)):
                run.violation(key("law=dump_volume_scales_by_|det|"), "a dumped instance does not enclose |det M| x its volume (winding)", dict(case, got=v1, expected=abs(det) * v0))
                break
        try:
            b = np.asarray(sc.bounds, dtype=np.float64)
            wb = np.array([s1.points.min(axis=0), s1.points.max(axis=0)])
            if np.abs(b - wb).max() > 1e-9 * (1 + np.abs(wb).max()):
                run.violation(key("law=bounds"), "Scene.bounds is not the AABB of the placed instances", dict(case, got=b, expected=wb))
        except Exception as e:
            run.violation(key("law=bounds sym=exception:%s" % type(e).__name__), "Scene.bounds raised %r" % (e,), case)


def coarse_class(M):
    """class of a matrix for values DERIVED from placed instances: only scale and orientation matter"""
    det, sim, s, band = props(M)
    if sim != "yes":
        return "nonsimilarity_det%s" % ("+" if det > 0 else "-")
    if abs(s - 1.0) < 1e-12:
        return "rigid" if det > 0 else "mirror"
    return "scaled" if det > 0 else "scaled_mirror"


class SolidSceneKind(SceneKind):
    """
    a scene of SOLIDS only, every instance placed rigidly (nested a0 -> b0, the box instanced a second
    time turned, the tetrahedron a second time): what the scene reports about its mass - volume, area,
    center_mass, moment_inertia - and its triangle soup (`triangles`, `triangles_node`) are right before
    the call (checked against the exact integrals of the explicitly placed instances; a reading that is
    wrong beforehand is not judged: not this property's) and must follow the laws of the statement
    afterwards: |det| V, s^2 A, M.c, s^5 R I R^T, soup corners at M.p and wound so that every
    instance still encloses its volume positively.
    """

    variant = "solids"
    READS = ("volume", "area", "center_mass", "moment_inertia", "triangles", "triangles_node")

    def build(self, rng):
        import trimesh

        if not hasattr(self, "_parts"):
            rng = self.local_rng()
            self._parts = [_mesh_source(rng, 0), _mesh_source(rng, 4)]
            T1 = np.eye(4)
            T1[:3, 3] = [2.0, 0.0, -1.0]
            c, s_ = math.cos(0.4), math.sin(0.4)
            T2 = np.array([[c, -s_, 0, 0.5], [s_, c, 0, 1.0], [0, 0, 1, 2.0], [0, 0, 0, 1.0]])
            c, s_ = math.cos(0.9), math.sin(0.9)
            T3 = np.array([[c, 0, s_, -4.0], [0, 1, 0, -1.0], [-s_, 0, c, 3.0], [0, 0, 0, 1.0]])
            T4 = np.eye(4)
            T4[:3, 3] = [0.5, 6.0, -2.0]
            self._T = [T1, T2, T3, T4]
        T = [t.copy() for t in self._T]
        sc = trimesh.Scene()
        base = sc.graph.base_frame
        a = trimesh.Trimesh(self._parts[0][0].copy(), self._parts[0][1].copy(), process=False)
        b = trimesh.Trimesh(self._parts[1][0].copy(), self._parts[1][1].copy(), process=False)
        sc.add_geometry(a, node_name="a0", geom_name="A", transform=T[0], metadata={"tag": "a0"})
        sc.add_geometry(b, node_name="b0", geom_name="B", transform=T[1], parent_node_name="a0")
        sc.graph.update(frame_to="a1", frame_from=base, matrix=T[2], geometry="A")
        sc.graph.update(frame_to="b1", frame_from=base, matrix=T[3], geometry="B")
        sc.metadata["name"] = "solids"
        return sc

    def snap(self, sc):
        sn = SceneKind.snap(self, sc)
        read = {}
        for name in self.READS:
            try:
                v = getattr(sc, name)
                read[name] = np.array(v, dtype=np.float64) if name != "triangles_node" else [str(x) for x in v]
            except Exception as e:
                read[name] = e
        sn.extra["read"] = read
        sn.extra["faces"] = {n: np.array(sc.geometry[sc.graph[n][1]].faces, dtype=np.int64) for n in sn.extra["names"]}
        return sn

    @staticmethod
    def _union(names, placed, faces, mats):
        """one (V, F) of all instances; an instance placed with a mirroring matrix is the solid re-wound"""
        Vs, Fs, off = [], [], 0
        for n in names:
            F = faces[n] if np.linalg.det(mats[n][:3, :3]) > 0 else faces[n][:, ::-1]
            Vs.append(placed[n])
            Fs.append(F + off)
            off += len(placed[n])
        return np.vstack(Vs), np.vstack(Fs)

    def extra_laws(self, run, sc, s0, s1, M, key, case, loose=False):
        SceneKind.extra_laws(self, run, sc, s0, s1, M, key, case, loose)
        import re

        det, sim, s, band = props(M)
        cc = coarse_class(M)
        key0 = key
        key = lambda law: re.sub(r"class=[^ ]+", "class=" + cc, key0(law))  # noqa: E731
        names, rows = s0.extra["names"], s0.extra["rows"]
        before = {n: s0.points[rows[i]:rows[i + 1]] for i, n in enumerate(names)}
        after = {n: apply_ref(M, before[n]) for n in names}  # where the instances have to be
        mats0 = s0.extra["node_T"]
        mats1 = {n: M @ mats0[n] for n in names}  # only the sign of the determinant is used
        V0, F0 = self._union(names, before, s0.extra["faces"], mats0)
        V1, F1 = self._union(names, after, s0.extra["faces"], mats1)
        ex0, ex1 = exact_memo(V0, F0), exact_mass(V1, F1)
        R0, R1 = s0.extra["read"], s1.extra["read"]
        rel = 1e-9

        def judge(name, law, before_v, tol_before, want, tol):
            g0, g1 = R0[name], R1[name]
            if isinstance(g0, Exception) or np.shape(g0) != np.shape(before_v) or not np.all(np.abs(g0 - before_v) <= tol_before):
                run.count("scene_read_not_judged_wrong_before:%s" % name)
                return True
            if isinstance(g1, Exception):
                run.violation(key("law=%s read=scene.%s sym=exception:%s" % (law, name, type(g1).__name__)),
                              "reading Scene.%s after the transform raised %r" % (name, g1), case)
                return False
            run.count("scene_reads_judged")
            if np.shape(g1) != np.shape(want) or not np.all(np.abs(g1 - want) <= tol):
                run.violation(key("law=%s read=scene.%s" % (law, name)),
                              "Scene.%s after the transform does not follow the law (it was right before the call)" % name,
                              dict(case, got=g1, expected=np.asarray(want), before=g0))
                return False
            return True

        v0, v1 = float(ex0.volume), float(ex1.volume)
        judge("volume", "volume_scales_by_|det|", v0, ex0.tol_volume() + rel * ex0.mag_volume, v1, ex1.tol_volume() + rel * ex1.mag_volume)
        if sim == "yes":
            judge("area", "area_scales_by_s^2", ex0.area, ex0.tol_area() + rel * 10 * ex0.area, ex1.area, ex1.tol_area() + rel * 10 * ex1.area)
        c0, c1 = ex0.f(ex0.center_mass()), ex1.f(ex1.center_mass())
        tc0 = ex0.tol_center_mass() + 1e-10 * (1 + np.abs(c0).sum())
        tc1 = ex1.tol_center_mass() + 1e-10 * (1 + np.abs(c1).sum())
        if judge("center_mass", "center_mass_maps_through_M", c0, tc0, c1, tc1) and sim == "yes":
            I0, I1 = ex0.f(ex0.inertia_com()), ex1.f(ex1.inertia_com())
            ti0 = ex0.tol_inertia(c0, tc0) + rel * 100 * float(np.abs(I0).max()) + rel * ex0.mag_second.max()
            ti1 = ex1.tol_inertia(c1, tc1) + rel * 100 * float(np.abs(I1).max()) + rel * ex1.mag_second.max()
            judge("moment_inertia", "inertia_s^5_R_I_R^T", I0, ti0, I1, ti1)
        # ---- the triangle soup, instance by instance
        t0, t1, n0, n1 = R0["triangles"], R1["triangles"], R0["triangles_node"], R1["triangles_node"]
        if any(isinstance(x, Exception) for x in (t0, n0)):
            run.count("scene_read_not_judged_wrong_before:triangles")
            return
        if isinstance(t1, Exception) or isinstance(n1, Exception):
            run.violation(key("law=soup read=scene.triangles sym=exception"), "Scene.triangles raised after the transform: %r" % (t1,), case)
            return
        if t1.shape != t0.shape or list(n1) != list(n0):
            run.violation(key("law=soup_kept read=scene.triangles sym=shape_or_nodes"), "the triangle soup changed size / node assignment", case)
            return
        n0 = np.array(n0)
        for n in names:
            sel = n0 == n
            vol_inst = float(exact_mass(*self._union([n], before, s0.extra["faces"], mats0)).volume)
            b0 = float(exact_mass(t0[sel].reshape(-1, 3), np.arange(3 * sel.sum()).reshape(-1, 3)).volume)
            if abs(b0 - vol_inst) > 1e-9 * (1 + abs(vol_inst)):
                run.count("scene_read_not_judged_wrong_before:triangles")
                continue
            want = apply_ref(M, t0[sel].reshape(-1, 3)).reshape(-1, 3, 3)
            got = t1[sel]
            tol = point_tol(M, want.reshape(-1, 3)).reshape(-1, 3)
            d = np.abs(got[:, :, None, :] - want[:, None, :, :]).max(axis=3)  # corner of got x corner of want
            if (d.min(axis=1) > tol).any():
                run.violation(key("law=soup_p->M.p read=scene.triangles"), "corners of Scene.triangles are not at M.p of the corners before", dict(case, node=n))
                return
            a1 = float(exact_mass(got.reshape(-1, 3), np.arange(3 * sel.sum()).reshape(-1, 3)).volume)
            wv = abs(det) * vol_inst
            if abs(a1 - wv) > 1e-9 * (1 + wv) * (1 + float(np.abs(got).max()) ** 3):
                sym = "inside_out" if abs(a1 + wv) <= 1e-9 * (1 + wv) * (1 + float(np.abs(got).max()) ** 3) else "wrong_value"
                run.violation(key("law=soup_encloses_|det|_V read=scene.triangles sym=%s" % sym),
                              "the triangles Scene.triangles hands out for an instance do not enclose |det M| x its volume positively "
                              "(not re-wound when M mirrors)", dict(case, node=n, got=a1, expected=wv))
                return
        run.count("scene_soups_judged")


class VoxelKind(Kind):
    name = "voxel"

    def __init__(self, at_identity=False):
        # at_identity: the grid starts with the identity as its transform (what every grid built
        # from a plain array has), so that a near-identity step leaves its own matrix near the identity
        self.at_identity = bool(at_identity)
        if at_identity:
            self.name = "voxel:identity_start"

    def build(self, rng):
        import trimesh

        if not hasattr(self, "_m"):
            rng = self.local_rng()
            self._m = rng.random((3, 4, 5)) < 0.45
            self._m[0, 0, 0] = True
            self._m[2, 3, 4] = True
            T = np.diag([0.5, 0.5, 0.5, 1.0])
            T[:3, 3] = [1.0, -2.0, 0.25]
            if self.at_identity:
                T = np.eye(4)
            self._t = T
        vg = trimesh.voxel.VoxelGrid(self._m.copy(), transform=self._t.copy())
        vg.metadata["name"] = "grid"
        return vg

    def warm(self, vg):
        _ = vg.points, vg.bounds, vg.filled_count

    def snap(self, vg):
        idx = np.array(vg.sparse_indices)
        T = np.array(vg.transform, dtype=np.float64)
        lo, hi = idx.min(axis=0) - 0.5, idx.max(axis=0) + 0.5
        corners = np.array(list(itertools.product(*zip(lo, hi))))
        return Snap(np.array(vg.points), (tuple(vg.shape), int(vg.filled_count)),
                    {"occupancy": freeze(np.array(vg.matrix)), "metadata": freeze(vg.metadata)},
                    {"corners_world": apply_ref(T, corners), "bounds": np.array(vg.bounds)})

    def extra_laws(self, run, vg, s0, s1, M, key, case, loose=False):
        det, sim, s, band = props(M)
        cw = apply_ref(M, s0.extra["corners_world"])
        want = np.array([cw.min(axis=0), cw.max(axis=0)])
        # (in-band matrices are judged like any other since round 4: the 4e-8 allowance hid a grid
        # at the identity ignoring every step within 1e-8 of it)
        tol = 1e-10 * (1 + np.abs(want).max())
        if np.abs(s1.extra["bounds"] - want).max() > tol:
            run.violation(key("law=bounds"), "VoxelGrid.bounds is not the AABB of the transformed cell box", dict(case, got=s1.extra["bounds"], expected=want))


# ------------------------------------------------------------------------------------------
# the generic laws


def make_key(kind, grp, cached, suffix=""):
    nc = suffix
    if cached is not None:
        nc += " normals_cached=%s" % ("yes" if cached else "no")

    def key(law):
        return "kind=%s %s class=%s%s" % (kind, law, grp, nc)

    return key


def do_apply(obj, op, arg):
    if op == "apply_transform":
        return obj.apply_transform(arg)
    if op == "apply_scale":
        return obj.apply_scale(arg)
    return obj.apply_translation(arg)


MERGE = 1e-8  # trimesh.constants.tol.merge, documented: distance below which two vertices are one


def min_spacing(P):
    """smallest distance between two distinct points of P"""
    from scipy.spatial import cKDTree

    if len(P) < 2:
        return float("inf")
    d, _ = cKDTree(P).query(P, k=2)
    return float(d[:, 1].min())


def check_cell(run, kind, tag, M, rng, table, op="apply_transform", op_arg=None, obj=None, prefix=(), do_inverse=True):
    """
    one (kind, matrix) application with all single-matrix laws; returns the object when applied.
    obj / prefix: the call is one step of a HISTORY on an object that has already been through the
    calls listed in prefix (each of them judged the same way); the snapshot is taken right before.
    """
    M = np.asarray(M, dtype=np.float64)
    det, sim, s, band = props(M)
    grp = group(tag, M) if op == "apply_transform" else tag
    cached = getattr(kind, "cached", None)
    step = "" if not prefix else " step=%s" % ("second" if len(prefix) == 1 else "later")
    # which entry of the matrix is off by less than 1e-8 does not matter to a shortcut: one key class
    kgrp = "near_identity_inside" if (grp.startswith("near_identity_") and grp.endswith("_inside")) else grp
    key = make_key(kind.name + (":com_override" if (getattr(kind, "override", False) and isinstance(kind, MeshKind)) else ""), kgrp, cached, step)
    variant = getattr(kind, "variant", getattr(kind, "source", ""))
    case = {"kind": kind.name, "variant": variant, "source": getattr(kind, "source", None), "cached": cached,
            "override": getattr(kind, "override", False), "class": tag, "matrix": M.tolist(), "op": op,
            "op_arg": None if op_arg is None else np.asarray(op_arg).tolist(), "dim": kind.dim, "salt": int(kind.salt),
            "prefix": [np.asarray(P).tolist() for P in prefix]}
    cell = "%s|%s|%s" % (grp, kind.name, "-" if cached is None else ("cached" if cached else "fresh"))
    table[cell] = table.get(cell, 0) + 1
    run.state("table_class_x_kind_x_cached", cell)
    run.case("%s:%s%s" % (op, kind.name, ":history" if prefix else ""), kind.name, variant, cached, getattr(kind, "override", False), M, op,
             *[np.asarray(P) for P in prefix], nontrivial=grp != "identity")
    if obj is None:
        obj = kind.build(rng)
        for P in prefix:  # replay of a recorded step of a history
            obj.apply_transform(np.asarray(P, dtype=np.float64))
    kind.warm(obj)
    s0 = kind.snap(obj)
    if isinstance(kind, PrimitiveKind) and kind.which != "Sphere" and len(s0.points) > 1:
        # a primitive re-generates its tessellation through the processing constructor, which merges
        # vertices closer than the documented absolute tol.merge: keep the documented 10x gap
        gap = min_spacing(apply_ref(M, s0.points))
        if gap < 10 * MERGE:
            run.skip("primitive whose transformed tessellation has vertices closer than 10 tol.merge")
            run.state("regime_skipped", (kind.name, grp))
            return None
    if isinstance(kind, MeshKind):
        s0.extra["ex"] = exact_memo(s0.points, s0.structure)
        try:
            s0.extra["is_volume"] = bool(obj.is_volume) if kind.cached else None
        except Exception:
            s0.extra["is_volume"] = None
        if s0.extra["is_volume"] is None and not kind.cached:
            # evaluate on a separate copy so the object under test stays "fresh"
            s0.extra["is_volume"] = bool(kind.build(rng).is_volume)
    if getattr(kind, "override", False):
        com = np.array(kind._com, dtype=np.float64)
        for P in prefix:  # own bookkeeping of where the override has been moved to
            com = apply_ref(np.asarray(P, dtype=np.float64), com[None])[0]
        s0.extra["com_override"] = com
    kind._prefix = [np.asarray(P, dtype=np.float64) for P in prefix]
    try:
        do_apply(obj, op, M if op == "apply_transform" else op_arg)
    except ValueError as e:
        if kind.may_refuse_nonsimilarity and sim != "yes":
            run.count("refusals_accepted:%s" % kind.name)
            run.state("refusal", (kind.name, grp))
            # ... but a refused call must not have changed the object (which matrix was refused does
            # not matter: one key class)
            kind.refusal_law(run, obj, s0, make_key(kind.name, "nonsimilarity", cached, step), dict(case, exception=repr(e)))
            return None
        if kind.may_refuse_nonsimilarity:
            # the refusal does not depend on the size of the scale: one key per matrix class
            g0 = grp.replace("_small", "").replace("_large", "")
            if grp == "near_unit_scale" or (grp == "near_unit_similarity" and kind.which == "Extrusion"):
                g0 = "similarity"  # an Extrusion refuses every scale: the listed key
            k0 = make_key(kind.name, g0, cached)
            run.violation(k0("law=refused_similarity"), "primitive refused a similarity transform: %s" % e, dict(case, exception=repr(e)))
            return None
        run.violation(key("law=applies sym=exception:ValueError"), "%s raised %r" % (op, e), dict(case, exception=repr(e)))
        return None
    except Exception as e:
        run.violation(key("law=applies sym=exception:%s" % type(e).__name__), "%s raised %r" % (op, e), dict(case, exception=repr(e)))
        return None
    if kind.may_refuse_nonsimilarity:
        run.state("accepted", (kind.name, grp))
    s1 = kind.snap(obj)
    if getattr(kind, "allows_resampling", False) and sim != "yes" and (s1.points.shape != s0.points.shape or s1.structure != s0.structure):
        # curved entities that can not hold the image of a curve were replaced: judged by the curves only
        run.count("curved_path_re-represented_under_nonsimilarity")
        if s0.attached != s1.attached:
            diff = sorted(k for k in s0.attached if s0.attached[k] != s1.attached.get(k))
            run.violation(make_key(kind.name, "any", cached)("law=attached_data_kept what=%s" % "+".join(diff)), "attached data changed by the transform: %s" % diff, case)
        kind.extra_laws(run, obj, s0, s1, M, key, case)
        return obj
    # ---- points
    want = apply_ref(M, s0.points)
    if isinstance(kind, PrimitiveKind) and kind.which == "Sphere":
        pass  # tessellation is not rotated by design: judged by centre / radius in extra_laws
    elif s1.points.shape != s0.points.shape:
        run.violation(key("law=point_count_kept"), "number of points changed", dict(case, before=s0.points.shape, after=s1.points.shape))
        return obj  # every other law would only restate this
    else:
        # (a scene is judged like every other kind: the graph's documented repair of nearly rigid
        # matrices gets no allowance here, see classify_point_failure)
        ptol = point_tol(M, want)
        r = point_ratio(s1.points, want, ptol)
        changed = s1.points.tobytes() != s0.points.tobytes()
        if "near_identity" in grp or grp == "identity":
            run.state("identity_shortcut_observed", (kind.name, grp, "applied" if changed else "skipped"))
        if r > 1:
            sym = "unchanged" if not changed else "wrong_position"
            if hasattr(kind, "classify_point_failure"):
                sym = kind.classify_point_failure(M, s0, s1, ptol) or sym
            run.violation(key("law=points_p->M.p sym=%s" % sym), "points after %s are not M.p of the points before" % op,
                          dict(case, ratio=r))
            return obj  # volume, centre of mass ... would only restate this
    # ---- connectivity / attached data
    if not kind.structure_law(run, s0, s1, M, key, case):
        return obj
    attached_ok = s0.attached == s1.attached
    if not attached_ok:
        diff = sorted(k for k in s0.attached if s0.attached[k] != s1.attached.get(k))
        # what is attached does not depend on the matrix: one key per kind of data, not per matrix class
        ka = make_key(kind.name + (":com_override" if (getattr(kind, "override", False) and isinstance(kind, MeshKind)) else ""), "any", cached)
        run.violation(ka("law=attached_data_kept what=%s" % "+".join(diff)), "attached data changed by the transform: %s" % diff, case)
    kind.extra_laws(run, obj, s0, s1, M, key, case)
    # ---- inverse restores
    if well_conditioned(M) and op == "apply_transform" and do_inverse:
        Mi = np.linalg.inv(M)
        # one Newton step in extended precision: X <- X (2 I - M X)
        Ml, Xl = M.astype(np.longdouble), Mi.astype(np.longdouble)
        Mi = np.asarray(Xl @ (2 * np.eye(len(M), dtype=np.longdouble) - Ml @ Xl), dtype=np.float64)
        try:
            obj.apply_transform(Mi)
        except Exception as e:
            if not (kind.may_refuse_nonsimilarity and sim != "yes"):
                run.violation(key("law=inverse_restores sym=exception:%s" % type(e).__name__), "applying M^-1 raised %r" % (e,), dict(case, exception=repr(e)))
            return obj
        s2 = kind.snap(obj)
        if not (isinstance(kind, PrimitiveKind) and kind.which == "Sphere"):
            cond = float(np.linalg.cond(linear(M)))
            n1 = 1.0 + np.abs(s0.points).sum(axis=1)
            _, _, _, band_i = props(Mi)
            tol = (4e-8 if (band or band_i) else 1e-11) * n1 * (1 + cond) * (1 + float(np.abs(M).max())) * (1 + float(np.abs(Mi).max()))
            if isinstance(kind, SceneKind):
                tol = tol + 2 * scene_slack(M, s0.points)
            r = point_ratio(s2.points, s0.points, tol)
            if r > 1:
                run.violation(key("law=inverse_restores what=points"), "M then M^-1 does not restore the points", dict(case, ratio=r))
        if isinstance(kind, MeshKind):
            if s2.structure.shape != s0.structure.shape or not _cyclic_equal(s0.structure, s2.structure).all():
                run.violation(key("law=inverse_restores what=winding"), "M then M^-1 does not restore the face winding", case)
        elif s2.structure != s0.structure:
            run.violation(key("law=inverse_restores what=connectivity"), "M then M^-1 does not restore the structure", case)
        if s2.attached != (s0.attached if attached_ok else s1.attached):  # a loss at the first call is reported there
            run.violation(key("law=inverse_restores what=attached_data"), "M then M^-1 changed attached data", case)
    return obj


def check_compose(run, kind, tagA, A, tagB, B, rng):
    """A then B equals B.A on a fresh copy"""
    A = np.asarray(A, dtype=np.float64)
    B = np.asarray(B, dtype=np.float64)
    BA = np.asarray(B.astype(np.longdouble) @ A.astype(np.longdouble), dtype=np.float64)
    gA, gB = group(tagA, A), group(tagB, B)
    cached = getattr(kind, "cached", None)
    # coarse, structural class of the pair: determinant signs and whether a factor sits at the identity shortcut
    pair = "compose_det%s%s%s" % ("+" if props(A)[0] > 0 else "-", "+" if props(B)[0] > 0 else "-",
                                  "_near_identity" if ("near_identity" in gA or "near_identity" in gB) else "")
    key = make_key(kind.name + (":com_override" if (getattr(kind, "override", False) and isinstance(kind, MeshKind)) else ""), pair, cached)
    case = {"kind": kind.name, "variant": getattr(kind, "variant", None), "source": getattr(kind, "source", None),
            "cached": cached, "A": A.tolist(), "B": B.tolist(), "classA": tagA, "classB": tagB, "op": "compose", "dim": kind.dim, "salt": int(kind.salt)}
    run.case("compose:%s" % kind.name, kind.name, getattr(kind, "variant", None), cached, A, B)
    o1, o2 = kind.build(rng), kind.build(rng)
    kind.warm(o1)
    s0 = kind.snap(o1)
    if isinstance(kind, MeshKind) and kind.override:
        s0.extra["com_override"] = np.array(kind._com, dtype=np.float64)
    step = "A"
    try:
        o1.apply_transform(A)
        kind.warm(o1)
        step = "B"
        o1.apply_transform(B)
        step = "BA"
        o2.apply_transform(BA)
    except ValueError as e:
        Ms = {"A": A, "B": B, "BA": BA}[step]
        if kind.may_refuse_nonsimilarity:
            if props(Ms)[1] != "yes":
                run.count("refusals_accepted:%s" % kind.name)
                return
            # same mechanism key as a single application of that matrix class
            g1 = class_of_matrix(Ms).replace("_small", "").replace("_large", "")
            if g1 == "near_unit_similarity" and kind.which == "Extrusion":
                g1 = "similarity"
            k1 = make_key(kind.name, g1, cached)
            run.violation(k1("law=refused_similarity"), "primitive refused a similarity transform: %s" % e,
                          dict(case, exception=repr(e), step=step))
            return
        run.violation(key("law=compose sym=exception:ValueError"), "composition raised %r" % (e,), dict(case, exception=repr(e)))
        return
    except Exception as e:
        run.violation(key("law=compose sym=exception:%s" % type(e).__name__), "composition raised %r" % (e,), dict(case, exception=repr(e)))
        return
    s1, s2 = kind.snap(o1), kind.snap(o2)
    bandish = props(A)[3] or props(B)[3] or props(BA)[3]
    if isinstance(kind, PrimitiveKind) and kind.which == "Sphere":
        a = np.concatenate([s1.extra["center"], [s1.extra["radius"]]])
        b = np.concatenate([s2.extra["center"], [s2.extra["radius"]]])
        if np.abs(a - b).max() > (6e-8 if bandish else 1e-9) * (1 + np.abs(b).sum()) * (1 + float(np.abs(A).max())) * (1 + float(np.abs(B).max())):
            run.violation(key("law=compose what=sphere_parameters"), "A then B differs from B.A", case)
        return
    if s1.points.shape != s0.points.shape or s2.points.shape != s0.points.shape:
        # same mechanism key as a single application of the product
        k1 = make_key(kind.name, class_of_matrix(BA), cached)
        run.violation(k1("law=point_count_kept"), "number of points changed", dict(case, before=s0.points.shape, after=[s1.points.shape, s2.points.shape]))
        return
    want = apply_ref(BA, s0.points)
    mags = (1 + float(np.abs(A).max())) * (1 + float(np.abs(B).max()))
    tol = (6e-8 if bandish else 1e-11) * (1.0 + np.abs(s0.points).sum(axis=1)) * mags
    if isinstance(kind, SceneKind):
        tol = tol + (scene_slack(A, s0.points) + scene_slack(B, s0.points) + scene_slack(BA, s0.points)) * mags
    for nm, s in (("A_then_B", s1), ("B.A", s2)):
        r = point_ratio(s.points, want, tol)
        if r > 1:
            run.violation(key("law=compose what=points route=%s" % nm), "points after %s are not (B.A).p" % nm, dict(case, ratio=r))
    if isinstance(kind, MeshKind):
        if s1.structure.shape != s2.structure.shape or not _cyclic_equal(s1.structure, s2.structure).all():
            run.violation(key("law=compose what=winding"), "A then B winds the faces differently from B.A", case)
        # cached values carried over two transforms must still match the final arrays
        kind.extra_laws(run, o1, s0, s1, BA, key, dict(case, matrix=BA.tolist()), loose=bool(props(A)[3] or props(B)[3]))
    elif s1.structure != s2.structure:
        run.violation(key("law=compose what=connectivity"), "A then B gives a different structure from B.A", case)
    if s1.attached != s2.attached:
        run.violation(key("law=compose what=attached_data"), "A then B gives different attached data from B.A", case)


# ------------------------------------------------------------------------------------------
# workload


def kinds_list(quick, salt=0):
    ks = _kinds_list(quick)
    for k in ks:
        k.salt = salt
    return ks


def _kinds_list(quick):
    ks = []
    variants = ["plain", "vertex_colors", "face_colors", "uv"]
    sources = [0, 1, 2, 4, 5] if not quick else [0, 1, 2, 5]
    for i, src in enumerate(sources):
        for cached in (True, False):
            ks.append(MeshKind(variants[i % 4], cached, src))
    ks.append(MeshKind("face_colors", True, 6))
    ks.append(MeshKind("plain", False, 6))
    ks.append(MeshKind("plain", True, 1, override=True))
    ks.append(MeshKind("vertex_colors", False, 0, override=True))
    ks.append(CloudKind())
    for d in (2, 3):
        for cached in (True, False):
            ks.append(PathKind(d, cached))
    for d in (2, 3):
        for cached in (True, False):
            ks.append(CurvedPathKind(d, cached))
    for w in ("Box", "Cylinder", "Sphere", "Extrusion"):
        ks.append(PrimitiveKind(w))
    for w in ("Box", "Cylinder", "Sphere", "Extrusion"):
        ks.append(PrimitiveKind(w, override=True))
    ks.append(SceneKind())
    ks.append(SolidSceneKind())
    ks.append(VoxelKind())
    ks.append(VoxelKind(at_identity=True))
    # last: by far the most expensive cells (a tessellation of 3840 faces, exact integrals) - if the
    # budget is cut by load it is cut here, after every anchor has been entered
    ks.append(PrimitiveKind("Capsule"))
    ks.append(PrimitiveKind("Capsule", override=True))
    return ks


def workload(run):
    rng = run.rng
    quick = run.tier == "quick"
    table = {}
    kinds = kinds_list(quick, salt=run.seed)
    mats = {2: all_matrices(rng, 2), 3: all_matrices(rng, 3)}
    run.note("matrix_classes", sorted({group(t, M) for t, M in mats[3]}))
    idx = 0
    rounds = 0
    while True:
        rounds += 1
        # ---- every kind x every matrix
        for kind in kinds:
            seen = set()
            for tag, M in mats[kind.dim]:
                idx += 1
                if not run.mine(idx):
                    continue
                if isinstance(kind, PrimitiveKind) and kind.override:
                    # what happens to the override does not depend on the entries: one matrix per class
                    # (the twin without an override goes through all of them)
                    b = tag.split(":")[0]
                    if b in ("identity", "near_identity") or b in seen:
                        continue
                    seen.add(b)
                check_cell(run, kind, tag, M, rng, table)
            if run.out_of_time(0.6):
                break
        # ---- histories: several calls on ONE object, every call judged against the snapshot before it
        for kind in kinds:
            idx += 1
            if not run.mine(idx):
                continue
            run_history(run, kind, rng, table)
            if run.out_of_time(0.7):
                break
        # ---- composition / helpers
        for kind in kinds:
            ms = mats[kind.dim]
            pairs = []
            names = ["rigid", "similarity", "mirror_rot", "aniso_rot", "shear", "affine", "mirror_axis", "mirror_similarity", "near_identity"]
            by = {}
            for t, M in ms:
                by.setdefault(t.split(":")[0], []).append((t, M))
            for a, b in itertools.product(names, names):
                if a in by and b in by:
                    pairs.append((by[a][int(rng.integers(len(by[a])))], by[b][int(rng.integers(len(by[b])))]))
            if quick:
                sel = rng.choice(len(pairs), size=min(14, len(pairs)), replace=False)
                pairs = [pairs[i] for i in sel]
            for (ta, A), (tb, B) in pairs:
                idx += 1
                if not run.mine(idx):
                    continue
                if kind.may_refuse_nonsimilarity and not (props(A)[1] == props(B)[1] == "yes"):
                    continue
                if getattr(kind, "allows_resampling", False) and not (props(A)[1] == props(B)[1] == "yes"):
                    continue  # judged by the single call (curves); vertex-wise comparison of two routes would restate it
                dd = kind.dim
                acc = abs(np.linalg.det(np.dot(B, A)[:dd, :dd])) ** (1.0 / dd)
                if not (1e-4 <= acc <= 1e4):
                    # two extreme similarities in a row: a unit primitive ends up with extent 1e-6,
                    # below what the library's documented absolute merge tolerance (tol.merge =
                    # 1e-8) lets a regenerated tessellation keep apart.  Out of regime, not judged.
                    run.skip("composition with accumulated scale outside [1e-4, 1e4]")
                    continue
                check_compose(run, kind, ta, A, tb, B, rng)
            # apply_scale / apply_translation build their own matrices
            d = kind.dim
            for sc in (2.0, 0.5, -1.0, 1.0, 1e-3) + ((np.array([1.0, 2.0, 3.0])[:d],) if True else ()):
                idx += 1
                if not run.mine(idx):
                    continue
                S = np.eye(d + 1)
                S[:d, :d] *= np.asarray(sc, dtype=np.float64)
                tg = "apply_scale_" + ("vector" if np.ndim(sc) else ("negative" if sc < 0 else ("one" if sc == 1 else ("scalar_small" if sc < 1e-2 else "scalar"))))
                check_cell(run, kind, tg, S, rng, table, op="apply_scale", op_arg=sc)
            for t in (np.array([1.5, -2.0, 0.25])[:d], np.zeros(d), np.array([1e3, 0.0, -1e3])[:d]):
                idx += 1
                if not run.mine(idx):
                    continue
                Tm = np.eye(d + 1)
                Tm[:d, d] = t
                check_cell(run, kind, "apply_translation" + ("_zero" if not t.any() else ""), Tm, rng, table, op="apply_translation", op_arg=t)
            if run.out_of_time(0.9):
                break
        run.count("rounds", 1)
        if run.out_of_time(0.45) or (quick and rounds >= 2):
            break
        # fresh random matrices / sources for another round
        mats = {2: all_matrices(rng, 2), 3: all_matrices(rng, 3)}
        kinds = kinds_list(quick, salt=run.seed * 1000 + rounds)
    run.note("table_class_x_kind_x_cached", dict(sorted(table.items())))
    fe, fo = run.counters.get("mesh_flips_expected", 0), run.counters.get("mesh_flips_observed", 0)
    run.note("mesh_flips_expected_vs_observed", [fe, fo])


def run_history(run, kind, rng, table):
    obj, prefix = None, []
    steps = nudges(kind.dim)
    for i, (tag, M) in enumerate(steps):
        obj = check_cell(run, kind, tag, M, rng, table, obj=obj, prefix=tuple(prefix), do_inverse=(i == len(steps) - 1))
        if obj is None:
            return
        prefix.append(M)
    run.count("histories_completed")


def replay(run, case):
    rng = np.random.default_rng(0)
    k = case.get("kind", "mesh")
    if k == "mesh":
        kind = MeshKind(case.get("variant") or "plain", bool(case.get("cached")), case.get("source") or 0, bool(case.get("override")))
    elif k == "pointcloud":
        kind = CloudKind()
    elif k.startswith("path"):
        kind = (CurvedPathKind if k.endswith(":curved") else PathKind)(int(k[4]), bool(case.get("cached")))
    elif k.startswith("primitive:"):
        kind = PrimitiveKind(k.split(":")[1], bool(case.get("override")))
    elif k == "scene":
        kind = SolidSceneKind() if case.get("variant") == "solids" else SceneKind()
    else:
        kind = VoxelKind(at_identity=k.endswith("identity_start"))
    kind.salt = int(case.get("salt", 0))
    table = {}
    if case.get("op") == "compose":
        check_compose(run, kind, case["classA"], np.array(case["A"]), case["classB"], np.array(case["B"]), rng)
    else:
        check_cell(run, kind, case["class"], np.array(case["matrix"]), rng, table, op=case.get("op", "apply_transform"),
                   op_arg=None if case.get("op_arg") is None else np.array(case["op_arg"]),
                   prefix=tuple(np.array(P) for P in case.get("prefix") or ()))
