"""
C05 - topological queries equal their combinatorial definitions.

Monitor shape: independent slow reference.  For every face array the real trimesh code is run
(free functions of trimesh.graph / trimesh.geometry and the cached Trimesh properties) and each
returned value is compared with a pure-Python dict / tuple counting oracle evaluated on the raw
faces: directed edges in triplet order, sorted edges, unique edges (+ inverse), adjacency with
shared edge and unshared vertices, neighbours, incident faces, degree, face / vertex components
(union-find), Euler number, watertightness, winding consistency, and on closed manifolds the
angle-defect sum 2*pi*chi.

How trimesh defines the quantities on degenerate input (read from the code / docstrings, the
oracle follows them, nothing stricter):
  * adjacency: a *sorted edge that occurs exactly twice* among the 3n directed edges pairs the
    two faces it comes from; a face paired with itself is dropped ("degenerate faces may appear
    in adjacency as the same value").
  * unshared vertex: the vertex at the single position of the face not equal to either edge
    end, -1 when there is no such single position.
  * watertight ("every edge is included in two faces"): every sorted edge occurs exactly twice
    AND its two occurrences belong to two different faces.  winding: for each edge occurring
    exactly twice the two directed copies are opposite; an edge with 3+ occurrences makes the mesh
    inconsistent once one direction is used at least two times more often than the other (every
    convention that looks at the edge agrees there); a balanced edge of 3+ faces is not judged.
  * body count: connected groups of the vertices THE FACES USE (the statement counts on the
    faces, over any vertex count: a vertex no face refers to is not a body).
  * a loop edge (a, a) of a face with a repeated index makes `a` its own neighbour; the
    statement does not say so either way, so membership of v in its own neighbour list is only
    required to be *justified* by a loop edge, never demanded.
  * degree = "the number of faces each vertex is included in", vertex_faces = "the face indices
    that correspond to each vertex": a face that repeats the vertex counts / is listed ONCE.
  * split(only_watertight=False) with no other argument returns the faces of the mesh, component
    by component: nothing discarded, nothing added ("If only_watertight is true it ... will
    attempt to repair single triangle or quad holes").
"""

from __future__ import annotations

import logging
import math

import numpy as np

from ..gen import mesh as G

PROP = "C05"
LEVEL = "exploration"
RULE = (
    "every (n,3) face array over 4 vertices with n<=2 (4160 arrays, complete in both tiers), n=3 "
    "over 4 vertices (sampled in quick; enumerated in shards in thorough as far as the budget "
    "reaches), sampled arrays over 5 vertices with 2-4 faces, generated closed integer meshes "
    "(single / multi body; each also with 1-3 unreferenced vertices inserted into the vertex array, with a "
    "zero-area cap face closing a T-junction, and in an embedding with two needle faces), random soups up to 200 faces with injected duplicate / reversed / "
    "degenerate faces and unreferenced vertices, fans, bow-tie, Moebius strip, open grid, and soups "
    "relabelled onto vertex ids around 2^15, 2^20, 2^31, 2^32 (free functions only). One case = one "
    "(vertex count, face array); distinct = distinct (class tag, vertex count, face bytes); trivial "
    "= no faces or a single face (nothing can be shared)."
)
ANCHORS = [
    "trimesh/geometry.py:faces_to_edges",
    "trimesh/geometry.py:vertex_face_indices",
    "trimesh/geometry.py:index_sparse",
    "trimesh/graph.py:face_adjacency",
    "trimesh/graph.py:face_adjacency_unshared",
    "trimesh/graph.py:is_watertight",
    "trimesh/graph.py:connected_components",
    "trimesh/graph.py:connected_components.<locals>.components_csgraph",
    "trimesh/graph.py:connected_components.<locals>.components_networkx",
    "trimesh/graph.py:connected_component_labels",
    "trimesh/graph.py:split",
    "trimesh/graph.py:facets",
    "trimesh/graph.py:neighbors",
    "trimesh/base.py:Trimesh.edges",
    "trimesh/base.py:Trimesh.edges_unique",
    "trimesh/base.py:Trimesh.euler_number",
    "trimesh/base.py:Trimesh.vertex_neighbors",
    "trimesh/base.py:Trimesh.vertex_degree",
    "trimesh/base.py:Trimesh.vertex_faces",
    "trimesh/base.py:Trimesh.body_count",
    "trimesh/base.py:Trimesh.face_adjacency",
    "trimesh/base.py:Trimesh.is_watertight",
    "trimesh/curvature.py:vertex_defects",
    "trimesh/grouping.py:group_rows",
]
SHARDS = {"quick": 1, "thorough": 16}
BUDGET = {"quick": 55, "thorough": 480}
MIN_EVENTS = {"quick": 2500, "thorough": 20000}
ASSUMPTIONS = [
    "the pure-Python counting oracle in this file is the definition (it shares no code with trimesh)",
    "adjacency follows trimesh's documented definition: a sorted edge occurring exactly twice among all "
    "directed edges, self-pairs dropped",
    "facets: the coplanarity predicate is taken from mesh.face_adjacency_radius / span (judged elsewhere); "
    "only the grouping of the selected adjacency rows is judged here",
    "angle defects: closed meshes with integer coordinates, with and without unreferenced vertices, plus two "
    "embeddings in which every angle still exists: a zero-area cap face on a T-junction (angles 0, 0, pi; all "
    "edges of normal length) and two needle faces (sharp angle 1e-10 .. 1e-11 of a radian, mesh scaled by 1 / 1e3 / "
    "1e6, every face cross product >= 100x tol.zero); float tolerance 1e-6 on the sum and per referenced vertex; "
    "the value reported for one unreferenced vertex is not judged (only the sum is). Meshes whose faces are below "
    "the library's documented resolution (edge cross product below tol.zero = 1e-13, i.e. all edges below ~3e-7) "
    "are not generated (lead's ruling, DESIGN 7.4: same limit as C01 / C18)",
    "winding consistency on an edge of 3+ faces whose two directions balance (differ by at most one) is not judged: "
    "the statement does not fix the convention there",
]
EXHAUSTIVE = {"quick": False, "thorough": False}

_COORDS = np.array(
    [[0, 0, 0], [3, 0, 0], [0, 2, 0], [0, 0, 5], [2, 3, 1], [-1, 2, 4], [4, -2, 1], [1, 1, -3]],
    dtype=np.float64,
)


# --------------------------------------------------------------------------- oracle


_PRIMERS = ("vertex_adjacency_graph", "edges_sparse", "faces_sparse", "face_adjacency", "edges_unique",
            "vertex_faces", "face_neighborhood", "face_adjacency_edges", "edges_sorted", "referenced_vertices",
            "vertex_neighbors", "vertex_degree", "face_adjacency_unshared", "edges_unique_inverse",
            # values that are not topological themselves but are computed THROUGH the cached
            # topological helpers (sparse incidence, adjacency) and may leave them altered
            "vertex_normals", "face_normals", "vertex_defects", "face_adjacency_angles", "euler_number",
            "is_watertight", "face_angles_sparse", "body_count", "facets", "face_adjacency_convex")


class UF:
    def __init__(self, n):
        self.p = list(range(n))

    def find(self, a):
        p = self.p
        while p[a] != a:
            p[a] = p[p[a]]
            a = p[a]
        return a

    def union(self, a, b):
        ra, rb = self.find(a), self.find(b)
        if ra != rb:
            self.p[max(ra, rb)] = min(ra, rb)

    def groups(self):
        out = {}
        for i in range(len(self.p)):
            out.setdefault(self.find(i), []).append(i)
        return list(out.values())


def _unshared(face, e):
    pos = [v for v in face if v != e[0] and v != e[1]]
    return pos[0] if len(pos) == 1 else -1


class Ref:
    """Everything obtained by direct counting on the faces."""

    def __init__(self, F, nv):
        F = [tuple(int(x) for x in f) for f in F]
        self.F, self.nv, n = F, nv, len(F)
        self.edges, self.edges_face = [], []
        for i, f in enumerate(F):
            self.edges += [(f[0], f[1]), (f[1], f[2]), (f[2], f[0])]
            self.edges_face += [i, i, i]
        self.sorted = [(a, b) if a <= b else (b, a) for a, b in self.edges]
        occ = {}
        for k, e in enumerate(self.sorted):
            occ.setdefault(e, []).append(k)
        self.occ = occ
        self.unique = set(occ)
        self.adj = []  # (fa, fb, e0, e1, ua, ub)
        pairs_opposite = True
        self.self_paired = False  # an edge whose two occurrences come from ONE face (a, a, b)
        for e, ks in occ.items():
            if len(ks) != 2:
                continue
            a, b = self.edges[ks[0]], self.edges[ks[1]]
            if not (a[0] == b[1] and a[1] == b[0]):
                pairs_opposite = False
            fa, fb = self.edges_face[ks[0]], self.edges_face[ks[1]]
            if fa == fb:
                if e[0] != e[1]:
                    self.self_paired = True
                continue
            if fa > fb:
                fa, fb = fb, fa
            self.adj.append((fa, fb, e[0], e[1], _unshared(F[fa], e), _unshared(F[fb], e)))
        # watertight: "every edge is included in two faces" - every sorted edge occurs exactly
        # twice AND the two occurrences belong to two different faces.  (A face (a, a, b) carries
        # the edge (a, b) twice by itself: that edge is included in ONE face.)
        self.watertight_slots = all(len(ks) == 2 for ks in occ.values())
        self.watertight = self.watertight_slots and not self.self_paired
        # winding: three-valued.  Edges with one or two occurrences: the pair has to be opposite
        # (the library's documented rule).  An edge with three or more occurrences: the statement
        # does not say which of the usual conventions holds (every directed edge at most once /
        # the two directions balance), but EVERY convention that looks at the edge says
        # "inconsistent" once one direction is used at least two times more often than the other
        # (two of the faces that run the same way cannot be matched with an opposite one).  That
        # is judged; a balanced edge of 3+ faces is not (None).
        self.multi_edge = self.unbalanced = False
        for e, ks in occ.items():
            if len(ks) < 3 or e[0] == e[1]:
                continue
            self.multi_edge = True
            fwd = sum(1 for k in ks if self.edges[k][0] < self.edges[k][1])
            if abs(fwd - (len(ks) - fwd)) >= 2:
                self.unbalanced = True
        self.winding_pairs = pairs_opposite
        if not pairs_opposite or self.unbalanced:
            self.winding = False
        elif self.multi_edge:
            self.winding = None
        else:
            self.winding = True
        self.referenced = set(v for f in F for v in f)
        self.euler = len(self.referenced) - len(self.unique) + n
        # neighbours / incidence (small vertex counts only: dense lists)
        self.loops = set(a for a, b in self.unique if a == b)
        self.nbr = {}
        for a, b in self.unique:
            self.nbr.setdefault(a, set()).add(b)
            self.nbr.setdefault(b, set()).add(a)
        self.inc, self.occurrences = {}, {}
        for i, f in enumerate(F):
            for v in f:
                self.inc.setdefault(v, set()).add(i)
                self.occurrences[v] = self.occurrences.get(v, 0) + 1
        self.degenerate_faces = set(i for i, f in enumerate(F) if len(set(f)) < 3)
        self.deg_vertices = set(v for i in self.degenerate_faces for v in F[i])
        # structural classes
        counts = set(min(len(ks), 3) for ks in occ.values())
        seen, dup = set(), False
        for f in F:
            k = tuple(sorted(f))
            dup = dup or k in seen
            seen.add(k)
        self.klass = (
            ("B" if 1 in counts else "")
            + ("M" if 2 in counts else "")
            + ("N" if 3 in counts else "")
            + ("d" if self.degenerate_faces else "")
            + ("2" if dup else "")
            + ("i" if nv is not None and len(self.referenced) < nv else "")
        )

    def face_components(self):
        uf = UF(len(self.F))
        for a in self.adj:
            uf.union(a[0], a[1])
        return uf.groups()

    def body_count(self):
        """Connected groups of the vertices the faces use (counted on the faces: a vertex that
        no face refers to is not part of any body)."""
        uf = UF(self.nv)
        for a, b in self.unique:
            uf.union(a, b)
        return len(set(uf.find(v) for v in self.referenced))


# --------------------------------------------------------------------------- observation


class _LogTap(logging.Handler):
    def __init__(self):
        super().__init__(level=logging.DEBUG)
        self.fallback = 0

    def emit(self, record):
        try:
            if "slow loop" in record.getMessage():
                self.fallback += 1
        except Exception:
            pass


_TAP = None


def _tap():
    """Capture (and silence) trimesh's log so the vertex_faces fallback can be counted."""
    global _TAP
    if _TAP is None:
        from trimesh.constants import log

        _TAP = _LogTap()
        log.addHandler(_TAP)
        log.propagate = False
        # the harness silences the trimesh logger; the tap needs WARNING records (nothing is
        # printed: the tap is the only handler and propagation is off)
        log.setLevel(logging.WARNING)
    return _TAP


def _rows(a):
    return [tuple(r) for r in np.asarray(a).tolist()]


def _fs(groups):
    return sorted(tuple(sorted(int(i) for i in g)) for g in groups)


class Judge:
    def __init__(self, run, tag, F, nv):
        self.run, self.tag, self.F, self.nv = run, tag, F, nv
        self.deg = None
        self.V = None

    # quantities whose definition does not depend on faces with repeated indices: no deg= field
    NODEG = ("connected_components", "connected_component_labels", "split", "facets", "vertex_defects", "body_count")

    def bad(self, q, route, sym, what, opt=None, nodeg=False, **extra):
        key = "q=%s route=%s" % (q, route)
        if opt:
            key += " opt=%s" % opt
        if q not in self.NODEG and not nodeg:
            key += " deg=%d" % (1 if self.deg else 0)
        key += " sym=%s" % sym
        case = {"tag": self.tag, "nv": self.nv, "faces": np.asarray(self.F).tolist(), "q": q, "route": route}
        if self.V is not None and len(self.V) <= 200:
            case["vertices"] = np.asarray(self.V).tolist()
        case.update(extra)
        self.run.violation(key, what, case)

    def guard(self, q, route, fn):
        """Run one observation; a library exception is a violation."""
        try:
            fn()
        except AssertionError as e:
            self.bad(q, route, "raises_AssertionError", "%s raised AssertionError: %s" % (q, e))
        except Exception as e:  # noqa
            self.bad(q, route, "raises_" + type(e).__name__, "%s raised %s: %s" % (q, type(e).__name__, e))


def judge_flags(J, R, route, w, c):
    """Watertight / winding flags of one route against the counting oracle."""
    if bool(w) != R.watertight:
        if bool(w) and R.watertight_slots and R.self_paired:
            J.bad("is_watertight", route, "True_with_an_edge_paired_inside_one_face",
                  "watertight although an edge belongs to ONE face (a face that repeats a vertex carries it twice)",
                  got=bool(w), want=R.watertight)
        else:
            J.bad("is_watertight", route, "mismatch", "watertight flag differs from counting", got=bool(w), want=R.watertight)
    if R.winding is None:
        J.run.count("winding_not_judged_balanced_edge_of_3+_faces")
    elif bool(c) != R.winding:
        if bool(c) and R.winding_pairs and R.unbalanced:
            J.bad("is_winding_consistent", route, "True_with_faces_running_the_same_way",
                  "consistent although an edge of 3+ faces is traversed at least twice more often one way than the other",
                  opt="edge_with_3+_faces", nodeg=True, got=bool(c), want=False)
        else:
            J.bad("is_winding_consistent", route, "mismatch", "winding flag differs from counting", got=bool(c), want=R.winding)


def check_free_edges(J, R, F):
    """Free functions that need no vertex array (also run on huge vertex ids)."""
    from trimesh import geometry, graph

    run = J.run

    def f2e():
        e, idx = geometry.faces_to_edges(F, return_index=True)
        if _rows(e) != R.edges:
            J.bad("edges", "free", "mismatch", "faces_to_edges differs from the triplet definition", got=_rows(e))
        if idx.tolist() != R.edges_face:
            J.bad("edges_face", "free", "mismatch", "faces_to_edges face index wrong", got=idx.tolist())
        if _rows(geometry.faces_to_edges(F)) != R.edges:
            J.bad("edges", "free_noindex", "mismatch", "faces_to_edges(return_index=False) differs")

    J.guard("edges", "free", f2e)

    def adj():
        a, e = graph.face_adjacency(faces=F, return_edges=True)
        got = sorted(tuple(x) + tuple(y) for x, y in zip(_rows(a), _rows(e)))
        want = sorted(t[:4] for t in R.adj)
        if got != want:
            J.bad("face_adjacency", "free", _adj_symptom(got, want), "face_adjacency(faces) with edges differs from counting",
                  got=got, want=want)
        a2 = graph.face_adjacency(faces=F)
        if sorted(_rows(a2)) != sorted(t[:2] for t in R.adj):
            J.bad("face_adjacency", "free_noedges", "mismatch", "face_adjacency(faces) differs from counting")

    J.guard("face_adjacency", "free", adj)

    def wt():
        E = np.array(R.edges, dtype=np.int64).reshape(-1, 2)
        w, c = graph.is_watertight(E)
        w2, c2 = graph.is_watertight(E, edges_sorted=np.sort(E, axis=1))
        for route, ww, cc in (("free", w, c), ("free_sorted", w2, c2)):
            judge_flags(J, R, route, ww, cc)

    J.guard("is_watertight", "free", wt)
    run.count("free_edge_checks")


def _adj_symptom(got, want):
    g, w = set(got), set(want)
    if g == w:
        return "multiplicity"
    if g < w:
        return "missing_pairs"
    if w < g:
        return "extra_pairs"
    return "mismatch"


def check_components(J, R, adjacency, nF):
    """connected_components / labels on the face adjacency graph, both engines."""
    from trimesh import graph

    run = J.run
    comps = R.face_components()
    want_all = _fs(comps)
    nodes = np.arange(nF)
    for engine in ("scipy", "networkx", None):
        # the automatic engine is the scipy one: two settings are enough to see that
        for min_len in ((1, 2, 3, 4) if engine else (1, 3)):
            route = "engine=%s" % engine

            def cc(engine=engine, min_len=min_len, route=route):
                got = graph.connected_components(adjacency, min_len=min_len, nodes=nodes, engine=engine)
                flat = [int(i) for g in got for i in g]
                if len(flat) != len(set(flat)):
                    J.bad("connected_components", route, "overlapping_components", "a node is in two components",
                          min_len=min_len)
                got = _fs(got)
                want = [c for c in want_all if len(c) >= min_len]
                run.count("cc_checks")
                if got != want:
                    extra = [c for c in got if c not in want]
                    missing = [c for c in want if c not in got]
                    if not missing and extra and all(len(c) < min_len and c in want_all for c in extra):
                        sym = "short_components_returned"
                    else:
                        sym = "mismatch"
                    J.bad("connected_components", route, sym,
                          "connected_components(engine=%s, min_len=%d) differs from union-find" % (engine, min_len),
                          opt="min_len>1" if min_len > 1 else "min_len=1", min_len=min_len, got=got, want=want)

            J.guard("connected_components", route, cc)
    if len(adjacency):
        # nodes=None: only nodes that occur in an edge
        for engine in ("scipy", "networkx"):
            def ccn(engine=engine):
                got = _fs(graph.connected_components(adjacency, engine=engine))
                want = [c for c in want_all if len(c) >= 2]
                if got != want:
                    J.bad("connected_components", "engine=%s_nodes=None" % engine, "mismatch",
                          "connected_components(nodes=None) differs from union-find", got=got, want=want)

            J.guard("connected_components", "engine=%s_nodes=None" % engine, ccn)

    def labels():
        lab = graph.connected_component_labels(adjacency, node_count=nF).tolist()
        if len(lab) != nF:
            J.bad("connected_component_labels", "free", "length", "label count differs from node count")
            return
        part = {}
        for i, l in enumerate(lab):
            part.setdefault(l, []).append(i)
        if _fs(part.values()) != want_all:
            J.bad("connected_component_labels", "free", "mismatch", "labels do not induce the union-find partition",
                  got=lab, want=want_all)

    J.guard("connected_component_labels", "free", labels)
    return comps


def check_mesh(run, tag, F, nv, V=None, closed=False, facets=False, split_default=False, geom=None):
    """All Trimesh properties + mesh-taking free functions on one (nv, F)."""
    import trimesh
    from trimesh import curvature, geometry, graph

    F = np.asarray(F, dtype=np.int64)
    n = len(F)
    R = Ref(F, nv)
    J = Judge(run, tag, F, nv)
    J.deg = bool(R.degenerate_faces)
    run.state("structural_class", R.klass)
    J.V = V
    if V is None:
        V = _COORDS[:nv] if nv <= len(_COORDS) else np.column_stack(
            [np.arange(nv) % 7, (np.arange(nv) // 7) % 7, np.arange(nv) // 49 + (np.arange(nv) % 3) * 0.25]
        ).astype(np.float64)
    V = np.asarray(V, dtype=np.float64)
    tap = _tap()

    check_free_edges(J, R, F)

    # How the mesh came to hold these faces is varied from case to case (chosen from the face array
    # so that a replay repeats it): built directly, or built with every face reversed, queried
    # (cache warm) and then turned into F by the library's own invert() - answers cached for the
    # reversed faces must not leak into the answers for F
    h0 = (int(F.sum()) * 40503 + n * 2654435761 + nv * 131) & 0xFFFFFFFF
    arrival = "direct"
    if n and (h0 >> 4) % 3 == 0:
        arrival = "inverted_warm"
        m = trimesh.Trimesh(vertices=V.copy(), faces=np.ascontiguousarray(F[:, ::-1]), process=False)
        for name in (_PRIMERS[(h0 >> 9) % len(_PRIMERS)], _PRIMERS[(h0 >> 15) % len(_PRIMERS)]):
            try:
                getattr(m, name)
            except BaseException:
                pass
        try:
            m.invert()
        except BaseException:
            arrival = "direct"
        if arrival == "direct" or not np.array_equal(np.asarray(m.faces), F):
            arrival = "direct"
            m = trimesh.Trimesh(vertices=V.copy(), faces=F.copy(), process=False)
    else:
        m = trimesh.Trimesh(vertices=V.copy(), faces=F.copy(), process=False)
    run.state("arrival", arrival)
    run.count("arrival:" + arrival)

    # ---- edges
    def edges():
        if _rows(m.edges) != R.edges:
            J.bad("edges", "property", "mismatch", "Trimesh.edges differs from the triplet definition")
        if m.edges_face.tolist() != R.edges_face:
            J.bad("edges_face", "property", "mismatch", "Trimesh.edges_face wrong")
        if _rows(m.edges_sorted) != R.sorted:
            J.bad("edges_sorted", "property", "mismatch", "Trimesh.edges_sorted wrong")
        u = _rows(m.edges_unique)
        if len(u) != len(set(u)):
            J.bad("edges_unique", "property", "duplicates", "edges_unique contains a repeated edge", got=u)
        elif set(u) != R.unique:
            J.bad("edges_unique", "property", "set_mismatch", "edges_unique is not the set of sorted edges", got=u)
        inv = m.edges_unique_inverse.tolist()
        if len(inv) != 3 * n or any(not (0 <= i < len(u)) for i in inv) or [u[i] for i in inv] != R.sorted:
            J.bad("edges_unique_inverse", "property", "not_reconstructing", "edges_unique[inverse] != edges_sorted", got=inv)
        fue = np.asarray(m.faces_unique_edges)
        if fue.shape != (n, 3) or fue.reshape(-1).tolist() != inv:
            J.bad("faces_unique_edges", "property", "mismatch", "faces_unique_edges is not the inverse in triplets")
        ref = m.referenced_vertices.tolist()
        if [i for i, r in enumerate(ref) if r] != sorted(R.referenced) or len(ref) != nv:
            J.bad("referenced_vertices", "property", "mismatch", "referenced_vertices wrong")

    groups = [("edges", "property", edges)]

    # ---- adjacency
    def adjacency():
        a, e, u = _rows(m.face_adjacency), _rows(m.face_adjacency_edges), _rows(m.face_adjacency_unshared)
        if not (len(a) == len(e) == len(u)):
            J.bad("face_adjacency", "property", "length", "adjacency, edges and unshared differ in length")
            return
        got = sorted(x + y + z for x, y, z in zip(a, e, u))
        want = sorted(R.adj)
        if got != want:
            g4, w4 = sorted(t[:4] for t in got), sorted(t[:4] for t in want)
            if g4 != w4:
                J.bad("face_adjacency", "property", _adj_symptom(g4, w4), "Trimesh.face_adjacency (+edges) differs from counting",
                      got=got, want=want)
            else:
                J.bad("face_adjacency_unshared", "property", "mismatch", "unshared vertices differ from counting", got=got, want=want)
        u2 = _rows(graph.face_adjacency_unshared(m))
        if u2 != u:
            J.bad("face_adjacency_unshared", "free", "mismatch", "free function differs from the property")
        a3, e3 = graph.face_adjacency(mesh=m, return_edges=True)
        if sorted(x + y for x, y in zip(_rows(a3), _rows(e3))) != sorted(t[:4] for t in R.adj):
            J.bad("face_adjacency", "free_mesh", "mismatch", "face_adjacency(mesh=) differs from counting")

    groups.append(("face_adjacency", "property", adjacency))

    # ---- neighbours, incident faces, degree
    def neighbours():
        for route, nb in (("property", m.vertex_neighbors),
                          ("free", graph.neighbors(np.asarray(m.edges_unique), max_index=nv))):
            if len(nb) != nv:
                J.bad("vertex_neighbors", route, "length", "one neighbour list per vertex expected")
                continue
            for v in range(nv):
                lst = [int(x) for x in nb[v]]
                want = R.nbr.get(v, set())
                if len(lst) != len(set(lst)):
                    J.bad("vertex_neighbors", route, "duplicates", "a neighbour is listed twice", vertex=v, got=lst)
                elif set(lst) - {v} != want - {v} or (v in lst and v not in R.loops):
                    J.bad("vertex_neighbors", route, "mismatch", "neighbours differ from the edge endpoints", vertex=v,
                          got=lst, want=sorted(want))

    groups.append(("vertex_neighbors", "property", neighbours))

    def incidence():
        before = tap.fallback
        vf = np.asarray(m.vertex_faces)
        run.state("vertex_faces_path", "loop_fallback" if tap.fallback > before else "sparse")
        vf2 = geometry.vertex_face_indices(nv, F, geometry.index_sparse(nv, F))
        routes = [("property", vf), ("free", np.asarray(vf2))]
        if R.degenerate_faces or h0 % 4 == 0:
            # the documented slow loop, entered on purpose (no sparse matrix to multiply with): it
            # has to give the same rows whether or not the sparse path copes with the input
            routes.append(("free_loop", np.asarray(geometry.vertex_face_indices(nv, F, None))))
            run.count("vertex_faces_loop_forced")
        for route, arr in routes:
            if arr.ndim != 2 or arr.shape[0] != nv:
                J.bad("vertex_faces", route, "shape", "one row per vertex expected", shape=list(arr.shape))
                continue
            for v in range(nv):
                row = [int(x) for x in arr[v] if x != -1]
                want = R.inc.get(v, set())
                if set(row) == want and len(row) != len(want) and sorted(row) == sorted(
                        i for i in want for _ in range(R.F[i].count(v))):
                    J.bad("vertex_faces", route, "face_listed_once_per_corner",
                          "a face that repeats the vertex is listed once per corner", vertex=v, got=row, want=sorted(want))
                    break
                if set(row) != want or len(row) != len(want):
                    J.bad("vertex_faces", route, "mismatch", "incident faces differ from counting", vertex=v, got=row,
                          want=sorted(want))
                    break
        d = m.vertex_degree.tolist()
        if len(d) != nv:
            J.bad("vertex_degree", "property", "length", "one degree per vertex expected")
        else:
            for v in range(nv):
                per_face, per_occ = len(R.inc.get(v, ())), R.occurrences.get(v, 0)
                if d[v] != per_face:
                    # "the number of faces each vertex is included in": a face counts once
                    J.bad("vertex_degree", "property", "face_counted_once_per_corner" if d[v] == per_occ else "mismatch",
                          "degree is not the number of faces that contain the vertex", vertex=v, got=d[v], want=per_face)
                    break

    groups.append(("vertex_faces", "property", incidence))

    # ---- scalars
    def scalars():
        if m.euler_number != R.euler:
            J.bad("euler_number", "property", "mismatch", "Euler number != V_ref - E_unique + F", got=int(m.euler_number), want=R.euler)
        judge_flags(J, R, "property", m.is_watertight, m.is_winding_consistent)
        bc, unref = R.body_count(), nv - len(R.referenced)
        if int(m.body_count) != bc:
            if unref and int(m.body_count) == bc + unref:
                J.bad("body_count", "property", "one_body_per_unreferenced_vertex",
                      "body_count counts every vertex that no face uses as a body", opt="unreferenced_vertices",
                      got=int(m.body_count), want=bc)
            else:
                J.bad("body_count", "property", "mismatch", "body_count != connected groups of the vertices the faces use",
                      got=int(m.body_count), want=bc)

    groups.append(("scalars", "property", scalars))

    # The answers are defined by the faces alone, so they may not depend on which other query was
    # answered first (several properties take shortcuts through values another one cached).  The
    # read order and the values read beforehand are therefore varied from case to case - chosen
    # from the face array itself so that a replay repeats them.
    h = (int(F.sum()) * 2654435761 + n * 40503 + nv * 97) & 0xFFFFFFFF
    primers = []
    if h % 3:
        primers.append(_PRIMERS[(h >> 3) % len(_PRIMERS)])
    if h % 3 == 2:
        primers.append(_PRIMERS[(h >> 11) % len(_PRIMERS)])
    for name in primers:
        try:
            getattr(m, name)
        except BaseException:
            pass  # a primer is only there to warm the cache
    k = (h >> 7) % len(groups)
    groups = groups[k:] + groups[:k]
    if (h >> 5) & 1:
        groups.reverse()
    run.state("read_order", (tuple(primers), groups[0][0], groups[-1][0]))
    for name, route, fn in groups:
        J.guard(name, route, fn)

    # ---- components
    adjacency_arr = np.array([t[:2] for t in R.adj], dtype=np.int64).reshape(-1, 2)
    comps = check_components(J, R, adjacency_arr, n)

    def split(engine):
        route = "engine=%s" % engine
        parts = graph.split(m, only_watertight=False, engine=engine, repair=False)
        want = sorted(sorted(R.F[i] for i in c) for c in comps)
        got = []
        lookup = {tuple(p): i for i, p in enumerate(V.tolist())}
        for p in parts:
            ids = [lookup[tuple(x)] for x in np.asarray(p.vertices).tolist()]
            got.append(sorted(tuple(ids[j] for j in f) for f in np.asarray(p.faces).tolist()))
        got.sort()
        if got != want:
            J.bad("split", route, "mismatch", "split(only_watertight=False) components differ from union-find", got=got, want=want)

    def split_plain():
        # the call a user writes: no `repair`, no engine.  "only_watertight: Only return watertight
        # meshes and discard remainder" / "If only_watertight is true it ... will attempt to repair
        # single triangle or quad holes": with only_watertight=False the components are the faces
        # of the mesh, nothing discarded and nothing added
        parts = m.split(only_watertight=False)
        want = sorted(sorted(R.F[i] for i in c) for c in comps)
        lookup = {tuple(p): i for i, p in enumerate(V.tolist())}
        got = []
        for p in parts:
            ids = [lookup.get(tuple(x), -1) for x in np.asarray(p.vertices).tolist()]
            got.append(sorted(tuple(ids[j] for j in f) for f in np.asarray(p.faces).tolist()))
        got.sort()
        run.count("split_plain_checks")
        if got != want:
            # every face of the mesh is still there (as a multiset) and some more came with them
            from collections import Counter

            have = Counter(tuple(sorted(f)) for f in R.F)
            seen = Counter(tuple(sorted(f)) for g in got for f in g)
            alien = sorted((seen - have).elements())
            if alien and not (have - seen):
                J.bad("split", "default_kwargs", "components_hold_faces_the_mesh_does_not_have",
                      "split(only_watertight=False) returned triangles that are not faces of the mesh",
                      opt="only_watertight=False", got=got, want=want, added=alien)
            else:
                J.bad("split", "default_kwargs", "mismatch", "split(only_watertight=False) components differ from union-find",
                      opt="only_watertight=False", got=got, want=want)

    distinct_coords = len(set(map(tuple, V.tolist()))) == len(V)
    if distinct_coords:
        # small enumerated arrays alternate the engine (both see every class), the rest use both
        engines = ("scipy", "networkx")
        if tag.startswith(("exh_", "sample_")):
            engines = (engines[int(F.sum()) % 2],)
        for engine in engines:
            J.guard("split", "engine=%s" % engine, lambda engine=engine: split(engine))
        if n and (int(F.sum()) % 3 == 0 if tag.startswith(("exh_", "sample_")) else
                  (h0 % 2 == 0 or not tag.startswith("soup_"))):
            J.guard("split", "default_kwargs", split_plain)
    if split_default and distinct_coords:
        def split_wt():
            parts = m.split()
            # documented: "the shortest thing we can split has 3 triangles" -> bodies of >= 4 faces
            want = sorted(len(c) for c in comps if len(c) >= 4)
            got = sorted(len(p.faces) for p in parts)
            if got != want or not all(p.is_watertight for p in parts):
                J.bad("split", "only_watertight", "mismatch", "split() of closed bodies does not return every body", got=got, want=want)

        J.guard("split", "only_watertight", split_wt)

    if facets and not R.degenerate_faces:
        def fac():
            radii, span = m.face_adjacency_radius, m.face_adjacency_span
            from trimesh.constants import tol

            parallel = np.ones(len(radii), dtype=bool)
            nz = np.abs(span) > tol.zero
            parallel[nz] = (radii[nz] / span[nz]) ** 2 > tol.facet_threshold
            uf = UF(n)
            for a, b in np.asarray(m.face_adjacency)[parallel].tolist():
                uf.union(a, b)
            want = [c for c in _fs(uf.groups()) if len(c) >= 2]
            for engine in ("scipy", "networkx"):
                got = _fs(graph.facets(m, engine=engine))
                if got != want:
                    J.bad("facets", "engine=%s" % engine, "mismatch", "facets differ from union-find over the coplanar adjacency rows",
                          got=got, want=want)
            if _fs(m.facets) != want:
                J.bad("facets", "property", "mismatch", "Trimesh.facets differs from union-find")
            run.count("facet_checks")

        J.guard("facets", "both", fac)

    if closed:
        def defects():
            d = np.asarray(m.vertex_defects)
            d2 = np.asarray(curvature.vertex_defects(m))
            want = 2 * math.pi * R.euler
            # independent per-vertex angle sums
            ang = [0.0] * nv
            Vl = V.tolist()
            for f in R.F:
                for k in range(3):
                    o, a, b = Vl[f[k]], Vl[f[(k + 1) % 3]], Vl[f[(k + 2) % 3]]
                    u = [a[i] - o[i] for i in range(3)]
                    w = [b[i] - o[i] for i in range(3)]
                    cr = [u[1] * w[2] - u[2] * w[1], u[2] * w[0] - u[0] * w[2], u[0] * w[1] - u[1] * w[0]]
                    ang[f[k]] += math.atan2(math.sqrt(sum(c * c for c in cr)), sum(u[i] * w[i] for i in range(3)))
            per = [2 * math.pi - a for a in ang]
            # The statement fixes the SUM (2*pi*chi, chi counted on the faces: unreferenced vertices
            # are not part of the surface).  It says nothing about the value reported for one
            # unreferenced vertex, so the per-vertex comparison covers referenced vertices only;
            # whatever the unreferenced ones report must leave the sum alone.
            unref = [v for v in range(nv) if v not in R.referenced]
            opt = "+".join(x for x in (geom, "unreferenced_vertices" if unref else None) if x) or None
            tol_sum = 1e-6 * max(1, nv)
            for route, arr in (("property", d), ("free", d2)):
                if arr.shape != (nv,):
                    J.bad("vertex_defects", route, "shape", "one defect per vertex expected", opt=opt)
                    continue
                gap = float(arr.sum()) - want
                if abs(gap) > tol_sum:
                    sym = "sum_not_2pi_chi"
                    if unref and abs(gap - 2 * math.pi * len(unref)) <= tol_sum:
                        sym = "sum_exceeds_2pi_chi_by_2pi_per_unreferenced_vertex"
                    J.bad("vertex_defects", route, sym, "angle defects do not sum to 2*pi*Euler", opt=opt,
                          got=float(arr.sum()), want=want, unreferenced=unref)
                elif max(abs(float(arr[v]) - per[v]) for v in sorted(R.referenced)) > 1e-6:
                    J.bad("vertex_defects", route, "per_vertex", "a vertex defect differs from 2*pi - sum of incident angles",
                          opt=opt)
            if unref:
                run.count("defect_checks_with_unreferenced_vertices")
            if geom:
                run.count("defect_checks_with_" + geom)
            run.count("defect_checks")

        J.guard("vertex_defects", "property", defects)

    run.case(tag, nv, F, nontrivial=n >= 2)
    return R


def check_free_only(run, tag, F):
    """Soups relabelled onto huge vertex ids: only functions that need no vertex array."""
    F = np.asarray(F, dtype=np.int64)
    R = Ref(F, None)
    J = Judge(run, tag, F, None)
    J.deg = bool(R.degenerate_faces)
    check_free_edges(J, R, F)
    run.case(tag, F, nontrivial=len(F) >= 2)


# --------------------------------------------------------------------------- workload

_BIG = [0, 1, 2**15 - 2, 2**15 - 1, 2**15, 2**20 - 2, 2**20 - 1, 2**20, 2**31 - 3, 2**31 - 2, 2**31 - 1, 2**31,
        2**31 + 1, 2**32 - 1, 2**32, 2**32 + 1, 2**40, 2**62]


def spice(rng, F, nv):
    """Inject duplicate / reversed / rolled / degenerate faces and unreferenced vertices."""
    F = [list(f) for f in np.asarray(F).tolist()]
    for _ in range(int(rng.integers(0, 4))):
        if not F:
            break
        f = list(F[int(rng.integers(len(F)))])
        r = int(rng.integers(5))
        if r == 0:
            F.append(f)
        elif r == 1:
            F.append(f[::-1])
        elif r == 2:
            F.append(f[1:] + f[:1])
        elif r == 3:
            f[int(rng.integers(3))] = f[int(rng.integers(3))]
            F.append(f)
        else:
            F.append([f[0], f[0], f[0]])
    nv = nv + int(rng.integers(0, 3))
    return np.array(F, dtype=np.int64).reshape(-1, 3), nv


def with_unreferenced(rng, V, F):
    """
    The same surface with 1-3 vertices that no face uses, placed at the front, in the middle or
    at the end of the vertex array (faces relabelled accordingly).  Their coordinates are
    integer points outside the bounding box; now and then one sits exactly on a referenced
    vertex (an unmerged duplicate position).
    """
    V = np.asarray(V, dtype=np.float64)
    F = np.asarray(F, dtype=np.int64)
    k = int(rng.integers(1, 4))
    total = len(V) + k
    where = int(rng.integers(4))
    if where == 0:
        slots = list(range(k))
    elif where == 1:
        slots = list(range(total - k, total))
    else:
        slots = sorted(int(x) for x in rng.choice(total, size=k, replace=False))
    keep = np.array([i for i in range(total) if i not in set(slots)], dtype=np.int64)
    Vn = np.zeros((total, 3), dtype=np.float64)
    Vn[keep] = V
    hi = V.max(axis=0)
    for j, sl in enumerate(slots):
        if j == 0 and rng.random() < 0.25:
            Vn[sl] = V[int(rng.integers(len(V)))]
        else:
            Vn[sl] = hi + [7 + 3 * j, 5 + j, 11 + 2 * j]
    return Vn, keep[F]


def with_cap(rng, V, F):
    """
    The closed surface with a T-junction closed by a zero-area face (what CAD tessellators emit):
    an edge (a, b) is split at a point m on the side of ONE of its two faces, (a, b, c) becomes
    (a, m, c) + (m, b, c), and the gap is closed with the triangle (a, b, m).  Still closed,
    manifold and consistently wound by counting; the cap has the angles (0, 0, pi); every edge
    is as long as in the source mesh or a binary fraction of it (nothing is small).
    """
    V = np.asarray(V, dtype=np.float64)
    F = np.asarray(F, dtype=np.int64)
    k = int(rng.integers(len(F)))
    r = int(rng.integers(3))
    a, b, c = (int(F[k][(r + i) % 3]) for i in range(3))
    t = (0.5, 0.25, 0.75, 0.125)[int(rng.integers(4))]
    m = len(V)
    Vn = np.vstack([V, V[a] + t * (V[b] - V[a])])
    Fn = np.vstack([np.delete(F, k, axis=0), [[a, m, c], [m, b, c], [a, b, m]]])
    return Vn, Fn


def with_needle(rng, V, F):
    """
    The closed surface (same faces) in an embedding where one edge (a, b) is 1e-10 .. 1e-11 of its
    length: the two faces on it are needles whose sharp angle is >= 10x below 1e-8 rad.  The whole
    mesh is scaled by 1, 1e3 or 1e6, so in two of three cases no two vertices are closer than
    1e-8 either; the cross product of every face stays >= 100x above tol.zero (nothing is at the
    resolution limit of the library, see notes "Round 4").
    """
    V = np.asarray(V, dtype=np.float64).copy()
    F = np.asarray(F, dtype=np.int64)
    k = int(rng.integers(len(F)))
    r = int(rng.integers(3))
    a, b = int(F[k][r]), int(F[k][(r + 1) % 3])
    V *= (1.0, 1e3, 1e6)[int(rng.integers(3))]
    V[b] = V[a] + (1e-10, 1e-11)[int(rng.integers(2))] * (V[b] - V[a])
    return V, F


_GEOM = {"closed:+cap:": "zero_area_cap_face", "closed:+needle:": "needle_face"}


def structured(run):
    rng = run.rng
    n_closed = 10 if run.tier == "quick" else 40
    fixed = [("tetra",) + G.tetra(rng), ("hull",) + G.hull_int(rng, 9), ("pillow",) + G.pillow()]
    import itertools

    for tag, V, F in itertools.chain(fixed, G.closed_meshes(rng, count=n_closed)):
        check_mesh(run, "closed:" + tag, F, len(V), V=V, closed=True, facets=True, split_default=True)
        run.count("closed_meshes")
        # the same surface with one face re-wound / one face removed
        F2 = F.copy()
        k = int(rng.integers(len(F2)))
        F2[k] = F2[k][::-1]
        check_mesh(run, "closed_rewound:" + tag, F2, len(V), V=V, facets=True)
        check_mesh(run, "closed_minus_face:" + tag, np.delete(F, k, axis=0), len(V), V=V)
        # the same closed surface inside a vertex array that also holds unreferenced vertices:
        # every count is made on the faces, so nothing may change - in particular the angle
        # defects still sum to 2*pi*chi
        Vu, Fu = with_unreferenced(rng, V, F)
        check_mesh(run, "closed:+unreferenced:" + tag, Fu, len(Vu), V=Vu, closed=True, facets=True, split_default=True)
        run.count("closed_meshes_with_unreferenced_vertices")
        # closed manifold meshes hold for ANY embedding in which the angles exist: a zero-area cap
        # face on a T-junction, and two needle faces (statement: "On closed manifold meshes the
        # vertex angle defects sum to 2*pi times the Euler number")
        Vc, Fc = with_cap(rng, V, F)
        check_mesh(run, "closed:+cap:" + tag, Fc, len(Vc), V=Vc, closed=True, split_default=True, geom="zero_area_cap_face")
        Vn, Fn = with_needle(rng, V, F)
        check_mesh(run, "closed:+needle:" + tag, Fn, len(Vn), V=Vn, closed=True, split_default=True, geom="needle_face")
        if run.out_of_time(0.25):
            break
    # closed bodies that touch without sharing a face: glued at ONE vertex (vertex-connected,
    # every edge still has two faces, two edge-connected components) or along ONE edge (an edge
    # with four faces).  Where "connected" means shared edges, vertex connectivity must not
    # be used as a shortcut.
    for trial in range(3 if run.tier == "quick" else 12):
        (Va, Fa), (Vb, Fb) = G.tetra(rng), (G.hull_int(rng, 6) if trial % 2 else G.tetra(rng))
        Vb = G.translate(Vb, [40, 0, 0])
        # pinch: vertex 0 of b is identified with vertex 0 of a
        Fb_p = Fb + len(Va)
        Fb_p[Fb_p == len(Va)] = 0
        Vp = np.vstack([Va, Vb])

        def compact(Vx, Fx):
            # drop the vertices the identification left unreferenced (they would count as
            # bodies of their own in the vertex graph)
            used = np.unique(Fx)
            remap = -np.ones(len(Vx), dtype=np.int64)
            remap[used] = np.arange(len(used))
            return Vx[used], remap[Fx]

        Vc, Fc = compact(Vp, np.vstack([Fa, Fb_p]))
        check_mesh(run, "pinched_at_vertex", Fc, len(Vc), V=Vc, split_default=True)
        check_mesh(run, "pinched_at_vertex+unreferenced", np.vstack([Fa, Fb_p]), len(Vp), V=Vp, split_default=True)
        # hinge: an edge (two vertices) of b identified with an edge of a
        ea, eb = Fa[0][:2], Fb[0][:2]
        Fh = Fb + len(Va)
        for x, y in zip(eb, ea):
            Fh[Fh == x + len(Va)] = y
        Vc, Fc = compact(Vp, np.vstack([Fa, Fh]))
        check_mesh(run, "hinged_at_edge", Fc, len(Vc), V=Vc, split_default=True)
        run.count("pinched_meshes")
    for k in (1, 2, 3, 4, 6):
        F, nv = G.fan(k)
        check_mesh(run, "fan", F, nv)
    F, nv = G.bowtie()
    check_mesh(run, "bowtie", F, nv)
    for k in (3, 4, 8):
        F, nv = G.moebius(k)
        check_mesh(run, "moebius", F, nv)
    for nx, ny in ((1, 1), (2, 3), (3, 3)):
        V, F = G.open_grid(nx, ny)
        check_mesh(run, "open_grid", F, len(V), V=V, facets=True)
    # free functions on an empty face array (trivial)
    E = np.zeros((0, 3), dtype=np.int64)
    check_free_only(run, "empty", E)


def soups(run, budget_frac, at_least=0):
    rng = run.rng
    i = 0
    while i < at_least or not run.out_of_time(budget_frac):
        i += 1
        r = i % 8
        if r in (0, 1, 2):  # v=5 small arrays
            nv = 5
            F = rng.integers(0, nv, size=(int(rng.integers(2, 5)), 3))
            check_mesh(run, "sample_v5", F, nv)
        elif r in (3, 4):  # small random soups: many coincidences
            nv = int(rng.integers(3, 8))
            F, nv2 = spice(rng, rng.integers(0, nv, size=(int(rng.integers(1, 12)), 3)), nv)
            check_mesh(run, "soup_small", F, nv2, facets=(i % 16 == 3))
        elif r == 5:  # nondegenerate soup: sparse vertex_faces path, facets
            nv = int(rng.integers(4, 12))
            F = np.array([rng.choice(nv, size=3, replace=False) for _ in range(int(rng.integers(1, 20)))], dtype=np.int64)
            F, nv2 = spice(rng, F, nv) if rng.random() < 0.3 else (F, nv)
            check_mesh(run, "soup_nondegenerate", F, nv2, facets=True)
        elif r == 6:  # larger soup
            F, nv = G.random_soup(rng)
            F, nv = spice(rng, F, nv)
            check_mesh(run, "soup_large", F, nv)
        else:  # relabelled onto huge ids: free functions only
            nv = int(rng.integers(3, 7))
            F, _ = spice(rng, rng.integers(0, nv, size=(int(rng.integers(1, 8)), 3)), nv)
            ids = rng.choice(len(_BIG), size=nv, replace=False)
            lab = np.array([_BIG[j] for j in ids], dtype=np.int64)
            check_free_only(run, "soup_bigid", lab[F])


def workload(run):
    _tap()
    structured(run)
    # exhaustive v=4, n<=2
    idx = mine = 0
    done = True
    for n in (1, 2):
        for F in G.all_face_arrays(4, n):
            idx += 1
            if not run.mine(idx):
                continue
            check_mesh(run, "exh_v4_n%d" % n, F, 4)
            mine += 1
            # a fixed amount of work (4160 arrays): only the generous watchdog may cut it
            if mine % 128 == 0 and run.out_of_time(3.0):
                done = False
                break
        if not done:
            break
    run.note("exhaustive_v4_n<=2_complete", done)
    run.note("seconds_when_exhaustive_n<=2_finished", round(run.elapsed(), 1))
    if not done:
        run.inconclusive("exhaustive v=4 n<=2 enumeration cut short by the budget")
    if run.tier == "thorough":
        # n=3 over 4 vertices, enumerated in shards as far as 70% of the budget reaches
        import itertools

        tri = list(itertools.product(range(4), repeat=3))
        k, complete = 0, True
        for combo in itertools.product(tri, repeat=3):
            k += 1
            if not run.mine(k):
                continue
            check_mesh(run, "exh_v4_n3", np.array(combo, dtype=np.int64), 4)
            mine += 1
            if mine % 128 == 0 and run.out_of_time(0.7):
                complete = False
                break
        run.note("exhaustive_v4_n3_complete_in_this_shard", complete)
        run.count("v4_n3_shards_complete" if complete else "v4_n3_shards_cut")
    else:
        rng = run.rng
        rounds = 0
        while rounds < 4 or not run.out_of_time(0.6):
            rounds += 1
            for _ in range(50):
                check_mesh(run, "sample_v4_n3", rng.integers(0, 4, size=(3, 3)), 4)
    soups(run, 0.92, at_least=400)
    run.count("vertex_faces_loop_fallbacks", _tap().fallback)
    if run.shard[0] == 0 and _tap().fallback == 0:
        run.inconclusive("the loop fallback of vertex_face_indices was never observed (log tap silent)")


def replay(run, case):
    _tap()
    F = np.array(case["faces"], dtype=np.int64).reshape(-1, 3)
    if case.get("nv") is None:
        check_free_only(run, case.get("tag", "replay"), F)
    else:
        tag = case.get("tag", "replay")
        V = np.array(case["vertices"], dtype=np.float64) if case.get("vertices") else None
        geom = next((g for pre, g in _GEOM.items() if tag.startswith(pre)), None)
        check_mesh(run, tag, F, int(case["nv"]), V=V, closed=tag.startswith("closed:"), facets=geom is None,
                   split_default=tag.startswith("closed:"), geom=geom)
