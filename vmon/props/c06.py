"""
C06 - row grouping and uniqueness primitives are exact.

Monitor shape: independent slow reference.  Every call of a trimesh.grouping primitive is
observed and its return value compared with an element-by-element oracle: a Python dict keyed
by tuple(row) of arbitrary-precision ints (floats: key = round(Fraction(x) * 10^digits), the
exact value of the float, generated well inside a rounding cell so the key is unambiguous).

What is asserted (only what the statement says):
  * hashable_rows         h[i] == h[j]  <=>  row i == row j
  * unique_rows           data[unique][inverse] == data, the unique rows are pairwise distinct;
                          keep_order=True: they come in order of first occurrence
  * group_rows            the groups are exactly the classes of equal rows (of the required count)
  * group                 classes of equal values with min_len <= size <= max_len
  * unique_ordered        unique values in first-occurrence order; index / inverse reconstruct
  * unique_bincount       set of values; inverse reconstructs; counts are the multiplicities
  * unique_float          one representative per rounding cell; inverse reconstructs
  * boolean_rows          the set operation on rows
  * blocks                maximal runs of equal values (circular when wrap=True) with
                          min_len <= length <= max_len, optionally of non-zero value
  * merge_runs            first element of every maximal run (floats: runs of values equal after rounding)
  * group_min             the multiset of per-group minima
  * unique_value_in_row   at most one True per row, on a value occurring once in that row,
                          exactly one when such a value exists
  * float_to_int          the rounding cell (ints / bools unchanged)
Group order is free.  A returned group / block without members is a violation (a class of equal rows has
at least one member; callers do `group[0]`): until round 4 such groups were dropped before comparison.

Input classes added after review rounds: rows without columns; two operands of different integer types
with alias rows (boolean_rows); every integer type in the 1-D primitives; uint64 values above 2^63-1; long
inputs (run-length encoded in the witness) fed as a history of growing / shrinking lengths.
Round 4 (each class has fixed members that run in every process plus random ones; a case of such a class carries
`cls` and is keyed `fn=<function> <class> sym=<symptom>`):
  * memory layouts of the same values: Fortran order, every second column / row of a wider array whose gaps hold
    other values, reversed strides, swapped byte order - every function, both operands of boolean_rows / group_min
  * `digits` on integer input (None, 0, negative, positive) in merge_runs / blocks / the row functions: integers
    are compared exactly whatever it is; neighbours one and ten apart and at opposite ends of the type's range
  * float rows whose value * 10^digits is on both sides of 2^63, +-inf; digits up to 19 and negative
  * float16 / float32 rows (the oracle reads their exact values) where value * 10^digits needs more bits than
    the type has: chains of neighbouring float32 values, float16 values above 65504 / 10^digits
  * integer options as numpy integer scalars of every width, where the signature declares `Integer`
    (digits everywhere, group min_len / max_len, unique_bincount minlength)
  * merge_runs / blocks on floats whose neighbours are in different cells but at most one cell apart: ramps with
    sub-cell steps, steps of exactly one cell

Not judged (outside the statement, see notes/C06.md): merge_runs on bool input (documented domain is
float / int; numpy refuses boolean subtraction); float_to_int on uint64 values above 2^63-1 (documented to
return int64; the one-to-one wrap is judged through the partitions of the row functions); unique_bincount is
only given non-negative signed ints (the function's documented domain); which occurrence unique_rows /
unique_ordered index is not asserted beyond reconstruction; NaN (not equal to itself element-by-element);
finite floats whose value * 10^digits overflows a double; float_to_int's VALUE once value * 10^digits exceeds
2^50 (only the partition: the product in doubles is not the exact cell, beyond 2^63 no int64 holds it);
numpy scalars for options that do not declare them (group_rows require_count, blocks min_len / max_len).
"""

from __future__ import annotations

import itertools
from fractions import Fraction

import numpy as np

PROP = "C06"
LEVEL = "exploration"
RULE = (
    "(a) every array over {0,1,2} of length <= 6 (quick) / <= 8 (thorough, sharded) pushed through "
    "blocks (min_len x max_len x wrap x only_nonzero grid, int / bool / float input), merge_runs, group "
    "(min_len x max_len), unique_bincount, unique_ordered (flag grids), group_min, unique_value_in_row, "
    "boolean_rows, and as (n,d) rows through unique_rows / group_rows (keep_order, require_count in "
    "{None,1,2,3}); (b) generated row arrays with 1-6 columns and 1-D, magnitudes {0, +-1, +-(2^k-2..2^k+2)}, "
    "k in {7,15,16,20,21,31,32,52,53,62,63}, mixed with small values, duplicated rows, near-duplicates and "
    "*collision partners* (the hashable_rows packing formula evaluated in unbounded ints mod 2^64 and decoded "
    "back; aliases modulo the field width with / without carry), dtypes int64 / int32 / int16 / uint8 / bool; "
    "(c) float rows inside rounding cells for digits in {None,0,1,3,6}; (d) empty and single-row inputs for "
    "every function, rows without columns (n,0); (e) boolean_rows on two arrays of different integer types "
    "(all 8 signed / unsigned widths) where each side also holds aliases of the other side's rows (one element "
    "moved by +-2^8 / 2^16 / 2^32 / 2^64); the 1-D primitives on every integer type with values at the ends, the "
    "middle and the quarter points of the type's range; (f) long inputs given as run-length descriptions, lengths "
    "on both sides of 2^8..2^14 up to 30000, as a call history with ascending then descending lengths, first "
    "value == last value with short and long first runs (blocks wrap grid, merge_runs, group, unique_ordered); "
    "(g) classes with fixed members in every run plus random members: the same values in 6 memory layouts "
    "(Fortran, strided columns / rows, reversed, byte-swapped) x every function x both operands; digits in "
    "{None,0,-1,-2,1,3} on every integer type for merge_runs / blocks; float rows with value*10^digits on both "
    "sides of 2^63 and +-inf for digits in {None,0,3,12,19}; float16 / float32 rows incl. chains of neighbouring "
    "float32 values; digits / min_len / max_len / minlength as numpy integer scalars of 7 widths; float ramps with "
    "sub-cell steps and steps of one cell through merge_runs / blocks. "
    "One case = one call; distinct = distinct (function, dtype, data bytes, options); "
    "trivial = fewer than two rows / elements."
)
ANCHORS = [
    "trimesh/grouping.py:hashable_rows",
    "trimesh/grouping.py:float_to_int",
    "trimesh/util.py:decimal_to_digits",
    "trimesh/grouping.py:group",
    "trimesh/grouping.py:group_rows",
    "trimesh/grouping.py:unique_rows",
    "trimesh/grouping.py:unique_ordered",
    "trimesh/grouping.py:unique_bincount",
    "trimesh/grouping.py:unique_float",
    "trimesh/grouping.py:boolean_rows",
    "trimesh/grouping.py:blocks",
    "trimesh/grouping.py:merge_runs",
    "trimesh/grouping.py:group_min",
    "trimesh/grouping.py:unique_value_in_row",
]
SHARDS = {"quick": 1, "thorough": 16}
BUDGET = {"quick": 45, "thorough": 480}
MIN_EVENTS = {"quick": 20000, "thorough": 100000}
ASSUMPTIONS = [
    "Python int / tuple / dict equality is element-by-element comparison",
    "float keys: round(Fraction(x) * 10^digits) on values generated >= 0.2 cell away from a rounding boundary",
    "merge_runs on floats is judged like every other function: equal means equal after rounding to `digits`",
    "finite floats are only generated where value * 10^digits stays inside the range of a double; NaN is not generated",
    "numpy integer scalars are only passed to options annotated `Integer` in the signature",
    "unique_bincount is only given non-negative signed integers (documented domain of the function)",
    "merge_runs is not given bool arrays (documented domain float / int)",
]
EXHAUSTIVE = {"quick": False, "thorough": False}

INT64_MIN, INT64_MAX = -(2**63), 2**63 - 1
KS = (7, 15, 16, 20, 21, 31, 32, 52, 53, 62, 63)


# --------------------------------------------------------------------------- helpers


def _floats(x):
    """Witnesses carry non-finite floats as their repr ('inf', '-inf')."""
    if isinstance(x, (list, tuple)):
        return [_floats(v) for v in x]
    return float(x) if isinstance(x, str) else x


# memory layouts of one and the same array of values: what changes is strides / byte order only
LAYOUTS_2D = ("F", "colstep", "colrev", "rowstep", "rowrev", "swapped")
LAYOUTS_1D = ("rowstep", "rowrev", "swapped")
# structural class of a layout (goes into keys): is one row still one contiguous piece of memory
LAYOUT_CLASS = {"F": "rows_strided", "colstep": "rows_strided", "colrev": "rows_strided", "rowstep": "rows_spaced",
                "rowrev": "rows_spaced", "swapped": "byteswapped"}


def relayout(a, layout):
    """The same values in another memory layout (the gaps of strided views hold OTHER values)."""
    if layout in (None, "C") or a.ndim == 0:
        return a
    junk = (a + 1) if a.dtype.kind != "b" else ~a
    if layout == "F":
        out = np.asfortranarray(a)
    elif layout == "colstep" and a.ndim == 2:
        wide = np.empty((a.shape[0], 2 * a.shape[1]), dtype=a.dtype)
        wide[:, ::2], wide[:, 1::2] = a, junk
        out = wide[:, ::2]
    elif layout == "colrev" and a.ndim == 2:
        out = np.ascontiguousarray(a[:, ::-1])[:, ::-1]
    elif layout == "rowstep":
        tall = np.empty((2 * a.shape[0],) + a.shape[1:], dtype=a.dtype)
        tall[::2], tall[1::2] = a, junk
        out = tall[::2]
    elif layout == "rowrev":
        out = np.ascontiguousarray(a[::-1])[::-1]
    elif layout == "swapped":
        out = a.astype(a.dtype.newbyteorder())
    else:
        return a
    assert out.shape == a.shape and (out == a).all()
    return out


def mk(case, name="data"):
    # the second operand may have its own dtype (mixed integer types); long inputs are recorded
    # run-length encoded ("rle": [[value, count], ...]) so a witness stays small
    dtype = (case.get(name + "_dtype") if name != "data" else None) or case.get("dtype", "int64")
    rle = case.get("rle" if name == "data" else name + "_rle")
    if rle is not None:
        a = np.repeat(np.array([v for v, _ in rle], dtype=dtype), [int(c) for _, c in rle])
    else:
        raw = case[name]
        a = np.array(_floats(raw) if np.dtype(dtype).kind == "f" else raw, dtype=dtype)
    shape = case.get("shape" if name == "data" else name + "_shape")
    if shape is not None:
        a = a.reshape(shape)
    return relayout(a, case.get("layout" if name == "data" else name + "_layout"))


def npopt(case, name):
    """An integer option, as a plain int or - `<name>_type` in the case - as a numpy integer scalar."""
    v, t = case.get(name), case.get(name + "_type")
    return v if (v is None or t is None) else np.dtype(t).type(v)


HUGE = 10**400  # oracle image of +-inf: above every finite double times 10^digits


def keys_of(a, digits=None):
    """Oracle identity of every element (1-D) or row (2-D)."""
    if a.dtype.kind == "f":
        s = Fraction(10) ** (8 if digits is None else int(digits))

        def conv(x):
            if x in (float("inf"), float("-inf")):
                return HUGE if x > 0 else -HUGE
            return int(round(Fraction(x) * s))
    else:
        conv = int
    if a.ndim == 1:
        return [conv(x) for x in a.tolist()]
    return [tuple(conv(x) for x in r) for r in a.tolist()]


def cell_margin(a, digits=None):
    """Smallest distance (in cells) of a finite float value from a rounding boundary (k + 0.5)."""
    s = Fraction(10) ** (8 if digits is None else int(digits))
    worst = Fraction(1, 2)
    for x in np.asarray(a, dtype=np.float64).reshape(-1).tolist():
        if x in (float("inf"), float("-inf")):
            continue
        worst = min(worst, abs((Fraction(x) * s) % 1 - Fraction(1, 2)))
    return float(worst)


def out_of_int64(a, digits=None):
    """Float input some element of which, scaled by 10^digits, no int64 can hold (or is infinite)."""
    if a.dtype.kind != "f" or a.size == 0:
        return False
    return max(abs(k) for k in keys_of(a.reshape(-1), digits)) >= 2**63


def inexact_cells(a, digits=None):
    """Float input whose scaled values are too large for `x * 10^digits` in doubles to be the exact cell."""
    if a.dtype.kind != "f" or a.size == 0:
        return False
    return max(abs(k) for k in keys_of(a.reshape(-1), digits)) >= 2**50


def classes(keys):
    d = {}
    for i, k in enumerate(keys):
        d.setdefault(k, []).append(i)
    return d


def first_order(keys):
    seen, out = set(), []
    for k in keys:
        if k not in seen:
            seen.add(k)
            out.append(k)
    return out


def klass(a):
    if a.shape[0] == 0:
        return "input=empty"
    if a.ndim == 2:
        return "cols=%d" % a.shape[1]
    return "cols=1d"


def fs(groups):
    return sorted(tuple(sorted(int(i) for i in g)) for g in groups if len(g))


def brief(v, limit=400):
    """Observed / expected values of a long input are summarised, the witness stays replayable."""
    r = repr(v)
    return v if len(r) <= 4 * limit else {"summary": r[:limit] + " ... " + r[-limit // 4:], "repr_len": len(r)}


def bad(run, case, key, what, **obs):
    w = dict(case)
    w.update({k: brief(v) for k, v in obs.items()})
    run.violation(key, what, w)


def dig(case, a):
    """What identifies the input of a case in the distinct-case digest (compact for long inputs)."""
    if case.get("rle") is not None:
        return ("rle", str(a.dtype), repr(case["rle"]))
    return a


def call(run, case, a, fn, *args, opt="", **kw):
    """Call the library; an exception is a violation (keyed by function / input class / type)."""
    try:
        return True, fn(*args, **kw)
    except Exception as e:  # noqa
        key = "fn=%s %s%s sym=raises_%s" % (case["fn"], case.get("cls") or klass(a),
                                            (" " + opt) if opt and not case.get("cls") else "", type(e).__name__)
        bad(run, case, key, "%s raised %s: %s" % (case["fn"], type(e).__name__, str(e)[:120]))
        return False, None


def kbase(case, default):
    """Key prefix: a case of a named input / option class (`cls`) is keyed by function + that class alone."""
    return ("fn=%s %s" % (case["fn"], case["cls"])) if case.get("cls") else default


def hval(h):
    """Python-hashable identity of each element of a hashable_rows result."""
    if h.dtype.kind == "V":
        return [x.tobytes() for x in h]
    return [int(x) for x in h.tolist()]


def representation(run, a, digits):
    """Which representation hashable_rows picks for this array (monitored state only)."""
    from trimesh import grouping

    try:
        h = grouping.hashable_rows(a, digits=digits)
    except Exception as e:  # noqa
        return "raises_" + type(e).__name__
    rep = {"V": "void", "u": "packed", "i": "flat"}.get(h.dtype.kind, h.dtype.kind)
    if a.ndim == 2 and a.shape[0] and 1 <= a.shape[1] <= 4 and a.dtype.kind != "f":
        p = 64 // a.shape[1]
        T = 1 << (p - 1)
        mx = max(abs(int(a.max())), abs(int(a.min())))
        side = "below" if mx < T - 2 else ("at" if mx <= T + 2 else "above")
        run.state("hashable_rows_representation", (a.shape[1], rep, side))
    else:
        run.state("hashable_rows_representation", (a.shape[1] if a.ndim == 2 else "1d", rep, a.dtype.kind))
    return rep


# --------------------------------------------------------------------------- checkers
# every checker takes the JSON-able case dict, rebuilds the input, calls the real function and
# compares with the oracle; replay() calls the same function with the recorded dict.


def chk_hashable_rows(run, case):
    from trimesh import grouping

    a = mk(case)
    digits = case.get("digits")
    ok, h = call(run, case, a, grouping.hashable_rows, a, digits=npopt(case, "digits"))
    run.case("hashable_rows", a, digits, case.get("digits_type"), case.get("layout"), nontrivial=len(a) >= 2)
    if not ok:
        return
    keys = keys_of(a, digits)
    hv = hval(h)
    rep = {"V": "void", "u": "packed", "i": "flat"}.get(h.dtype.kind, h.dtype.kind)
    base = kbase(case, "fn=hashable_rows %s kind=%s rep=%s" % (klass(a), a.dtype.kind, rep))
    if len(hv) != len(keys):
        bad(run, case, base + " sym=length", "one hashable per row expected", got=len(hv))
        return
    k2h, h2k = {}, {}
    for k, v in zip(keys, hv):
        k2h.setdefault(k, set()).add(v)
        h2k.setdefault(v, set()).add(k)
    if any(len(s) > 1 for s in h2k.values()):
        rows = [sorted(s) for s in h2k.values() if len(s) > 1][0]
        bad(run, case, base + " sym=distinct_rows_merged", "two different rows received the same hashable", rows=rows)
    if any(len(s) > 1 for s in k2h.values()):
        bad(run, case, base + " sym=equal_rows_split", "equal rows received different hashables")


def chk_unique_rows(run, case):
    from trimesh import grouping

    a = mk(case)
    digits, keep = case.get("digits"), bool(case.get("keep_order", False))
    ok, res = call(run, case, a, grouping.unique_rows, a, digits=npopt(case, "digits"), keep_order=keep)
    run.case("unique_rows", a, digits, keep, case.get("digits_type"), case.get("layout"), nontrivial=len(a) >= 2)
    if not ok:
        return
    keys = keys_of(a, digits)
    base = kbase(case, "fn=unique_rows %s kind=%s keep_order=%d" % (klass(a), a.dtype.kind, keep))
    try:
        u, inv = [int(x) for x in res[0]], [int(x) for x in res[1]]
    except Exception:
        bad(run, case, base + " sym=malformed_result", "unique_rows did not return (unique, inverse)")
        return
    n = len(keys)
    if len(inv) != n or any(not (0 <= i < len(u)) for i in inv) or any(not (0 <= i < n) for i in u):
        bad(run, case, base + " sym=index_out_of_range", "unique / inverse out of range", unique=u, inverse=inv)
        return
    ukeys = [keys[i] for i in u]
    if any(ukeys[inv[i]] != keys[i] for i in range(n)):
        cls = classes(keys)
        merged = any(len(set(keys[j] for j in range(n) if inv[j] == t)) > 1 for t in set(inv))
        bad(run, case, base + (" sym=distinct_rows_merged" if merged and len(u) < len(cls) else " sym=not_reconstructing"),
            "data[unique][inverse] != data", unique=u, inverse=inv)
    elif len(set(ukeys)) != len(ukeys):
        bad(run, case, base + " sym=equal_rows_split", "a row is reported unique twice", unique=u, inverse=inv)
    elif keep and ukeys != first_order(keys):
        bad(run, case, base + " sym=order", "keep_order=True but rows are not in order of first occurrence", unique=u)


def chk_group_rows(run, case):
    from trimesh import grouping

    a = mk(case)
    digits, rc = case.get("digits"), case.get("require_count")
    ok, res = call(run, case, a, grouping.group_rows, a, require_count=npopt(case, "require_count"),
                   digits=npopt(case, "digits"))
    run.case("group_rows", a, digits, rc, case.get("digits_type"), case.get("require_count_type"), case.get("layout"),
             nontrivial=len(a) >= 2)
    if not ok:
        return
    keys = keys_of(a, digits)
    cls = classes(keys)
    base = kbase(case, "fn=group_rows %s kind=%s require_count=%s" % (klass(a), a.dtype.kind, rc))
    try:
        if rc is None:
            groups = [np.asarray(g).reshape(-1).tolist() for g in res]
        elif rc == 1:
            res = np.asarray(res)
            if res.ndim != 1:
                raise ValueError("require_count=1 must be flat")
            groups = [[int(i)] for i in res.tolist()]
        else:
            res = np.asarray(res)
            if res.ndim != 2 or res.shape[1] != rc:
                raise ValueError("shape")
            groups = res.tolist()
    except Exception:
        bad(run, case, base + " sym=malformed_result", "group_rows result has the wrong shape")
        return
    if any(len(g) == 0 for g in groups):
        # a class of equal rows has at least one member: `for g in groups: g[0]` must be safe
        bad(run, case, "fn=group_rows %s sym=empty_group_returned" % klass(a), "a group without members is returned",
            got=groups)
    got = fs(groups)
    want = fs(g for g in cls.values() if rc is None or len(g) == rc)
    if got != want:
        flat = [i for g in got for i in g]
        mixed = any(len(set(keys[i] for i in g)) > 1 for g in got if all(0 <= i < len(keys) for i in g))
        if mixed:
            sym = "distinct_rows_merged"
        elif len(flat) != len(set(flat)):
            sym = "index_repeated"
        elif set(got) < set(want):
            sym = "missing_groups"
        elif set(want) < set(got):
            sym = "extra_groups"
        else:
            sym = "mismatch"
        if case.get("cls") and sym in ("missing_groups", "extra_groups", "mismatch"):
            sym = "groups_differ"
        bad(run, case, base + " sym=" + sym, "groups differ from the classes of equal rows", got=got, want=want)


def chk_group(run, case):
    from trimesh import grouping

    a = mk(case)
    mn, mx = case.get("min_len"), case.get("max_len")
    ok, res = call(run, case, a, grouping.group, a, min_len=npopt(case, "min_len"), max_len=npopt(case, "max_len"))
    run.case("group", dig(case, a), mn, mx, case.get("min_len_type"), case.get("max_len_type"), case.get("layout"),
             nontrivial=len(a) >= 2)
    if not ok:
        return
    cls = classes(keys_of(a))
    if any(len(g) == 0 for g in res):
        bad(run, case, "fn=group %s sym=empty_group_returned" % klass(a), "a group without members is returned",
            got=[np.asarray(g).tolist() for g in res])
    got = fs(np.asarray(g).tolist() for g in res)
    want = fs(g for g in cls.values() if (mn is None or len(g) >= mn) and (mx is None or len(g) <= mx))
    if got != want:
        base = kbase(case, "fn=group %s kind=%s min_len=%s max_len=%s" % (
            klass(a), a.dtype.kind, "set" if mn is not None else "None", "set" if mx is not None else "None"))
        bad(run, case, base + " sym=mismatch", "groups differ from the classes of equal values", got=got, want=want)


def chk_unique_ordered(run, case):
    from trimesh import grouping

    a = mk(case)
    ri, rv = bool(case.get("return_index")), bool(case.get("return_inverse"))
    ok, res = call(run, case, a, grouping.unique_ordered, a, return_index=ri, return_inverse=rv)
    run.case("unique_ordered", dig(case, a), ri, rv, case.get("layout"), nontrivial=len(a) >= 2)
    if not ok:
        return
    keys = keys_of(a)
    base = kbase(case, "fn=unique_ordered %s kind=%s flags=%d%d" % (klass(a), a.dtype.kind, ri, rv))
    parts = list(res) if (ri or rv) else [res]
    if len(parts) != 1 + ri + rv:
        bad(run, case, base + " sym=malformed_result", "wrong number of return values")
        return
    uniq = keys_of(np.asarray(parts[0]))
    if uniq != first_order(keys):
        bad(run, case, base + " sym=order" if sorted(uniq) == sorted(first_order(keys)) else base + " sym=values",
            "unique values are not the first occurrences in order", got=uniq)
        return
    pos = 1
    if ri:
        idx = [int(i) for i in parts[pos]]
        pos += 1
        if len(idx) != len(uniq) or any(not (0 <= i < len(keys)) for i in idx) or [keys[i] for i in idx] != uniq:
            bad(run, case, base + " sym=index", "data[index] != unique", got=idx)
    if rv:
        inv = [int(i) for i in parts[pos]]
        if len(inv) != len(keys) or any(not (0 <= i < len(uniq)) for i in inv) or [uniq[i] for i in inv] != keys:
            bad(run, case, base + " sym=inverse", "unique[inverse] != data", got=inv)


def chk_unique_bincount(run, case):
    from trimesh import grouping

    a = mk(case)
    ml, rv, rc = int(case.get("minlength", 0)), bool(case.get("return_inverse")), bool(case.get("return_counts"))
    ok, res = call(run, case, a, grouping.unique_bincount, a, minlength=npopt(dict(case, minlength=ml), "minlength"),
                   return_inverse=rv, return_counts=rc)
    run.case("unique_bincount", a, ml, rv, rc, case.get("minlength_type"), case.get("layout"), nontrivial=len(a) >= 2)
    if not ok:
        return
    keys = keys_of(a)
    cls = classes(keys)
    base = kbase(case, "fn=unique_bincount %s flags=%d%d" % (klass(a), rv, rc))
    parts = list(res) if (rv or rc) else [res]
    if len(parts) != 1 + rv + rc:
        bad(run, case, base + " sym=malformed_result", "wrong number of return values")
        return
    uniq = [int(x) for x in parts[0]]
    if len(set(uniq)) != len(uniq) or set(uniq) != set(cls):
        bad(run, case, base + " sym=values", "unique values are not the set of values", got=uniq)
        return
    pos = 1
    if rv:
        inv = [int(i) for i in parts[pos]]
        pos += 1
        if len(inv) != len(keys) or any(not (0 <= i < len(uniq)) for i in inv) or [uniq[i] for i in inv] != keys:
            bad(run, case, base + " sym=inverse", "unique[inverse] != values", got=inv)
    if rc:
        cnt = [int(i) for i in parts[pos]]
        if cnt != [len(cls[u]) for u in uniq]:
            bad(run, case, base + " sym=counts", "counts are not the multiplicities", got=cnt)


def chk_merge_runs(run, case):
    from trimesh import grouping

    a = mk(case)
    digits = case.get("digits")
    kw = {} if digits is None else {"digits": npopt(case, "digits")}
    ok, res = call(run, case, a, grouping.merge_runs, a, **kw)
    run.case("merge_runs", dig(case, a), digits, case.get("digits_type"), case.get("layout"), nontrivial=len(a) >= 2)
    if not ok:
        return
    keys = keys_of(a, digits)
    want = [k for i, k in enumerate(keys) if i == 0 or k != keys[i - 1]]
    got = keys_of(np.asarray(res), digits)
    if got != want:
        base = "fn=merge_runs %s kind=%s" % (klass(a), a.dtype.kind)
        plain = base
        d = 8 if digits is None else int(digits)
        if a.dtype.kind in "iu":
            raw = [int(x) for x in a.tolist()]
            pairs = [(x, y) for x, y in zip(raw, raw[1:]) if x != y]
            # integers are compared exactly whatever `digits` says; structural classes of the input:
            # different neighbours not further apart than 10^-digits (only possible for digits <= 0) ...
            close = d <= 0 and any(abs(x - y) <= 10 ** (-d) for x, y in pairs)
            # ... and neighbours whose difference the type cannot hold: half the range of a signed
            # type (2^63 for int64, 2^31 for int32 ...), any decrease for an unsigned one
            half = 8 * a.dtype.itemsize - 1
            wraps = any(abs(x - y) >= 2**half for x, y in pairs) if a.dtype.kind == "i" else any(y < x for x, y in pairs)
            if case.get("digits_type"):
                pass  # the option's TYPE is the class (the same call with a plain int is observed next to it)
            elif digits is not None and d <= 0:
                base += " digits=nonpositive" + (" input=difference_wraps" if wraps and not close else "")
            elif a.dtype.kind == "i" and wraps:
                base += " input=adjacent_difference>=2^%d" % half
        elif a.dtype.kind == "f":
            # floats: equal means equal after rounding; class of the input: neighbours in different
            # cells which are not further apart than one cell (10^-digits)
            s = Fraction(10) ** d
            pos = [Fraction(x) * s for x in a.tolist() if x not in (float("inf"), float("-inf"))]
            near = 1 + Fraction(1, 10**6)  # "one cell" up to the rounding of the subtraction in doubles
            if len(pos) == len(keys) and any(k != m and abs(p - q) <= near for k, m, p, q in zip(keys, keys[1:], pos, pos[1:])):
                base += " input=different_cells_within_10^-digits"
        if base == plain:
            # none of merge_runs' own input classes: the class the generator named (layout / option type ...)
            base = kbase(case, base)
        sym = "distinct_values_merged" if len(got) < len(want) else ("repeats_kept" if len(got) > len(want) else "values")
        bad(run, case, base + " sym=" + sym, "result is not the first element of every maximal run", got=got, want=want)


def chk_unique_float(run, case):
    from trimesh import grouping

    a = mk(case)
    digits = case.get("digits")
    ri, rv = bool(case.get("return_index")), bool(case.get("return_inverse"))
    ok, res = call(run, case, a, grouping.unique_float, a, return_index=ri, return_inverse=rv, digits=npopt(case, "digits"))
    run.case("unique_float", a, digits, ri, rv, case.get("digits_type"), case.get("layout"), nontrivial=len(a) >= 2)
    if not ok:
        return
    keys = keys_of(a, digits)
    base = kbase(case, "fn=unique_float %s kind=%s flags=%d%d" % (klass(a), a.dtype.kind, ri, rv))
    parts = list(res) if (ri or rv) else [res]
    if len(parts) != 1 + ri + rv:
        bad(run, case, base + " sym=malformed_result", "wrong number of return values")
        return
    uniq = keys_of(np.asarray(parts[0], dtype=a.dtype), digits)
    if len(set(uniq)) != len(uniq):
        bad(run, case, base + " sym=equal_values_split", "two representatives round to the same cell", got=uniq)
        return
    if set(uniq) != set(keys):
        bad(run, case, base + (" sym=distinct_values_merged" if set(uniq) < set(keys) else " sym=values"),
            "representatives are not one per rounding cell", got=uniq)
        return
    pos = 1
    if ri:
        idx = [int(i) for i in parts[pos]]
        pos += 1
        if len(idx) != len(uniq) or any(not (0 <= i < len(keys)) for i in idx) or [keys[i] for i in idx] != uniq:
            bad(run, case, base + " sym=index", "data[index] does not round to unique", got=idx)
    if rv:
        inv = [int(i) for i in parts[pos]]
        if len(inv) != len(keys) or any(not (0 <= i < len(uniq)) for i in inv) or [uniq[i] for i in inv] != keys:
            bad(run, case, base + " sym=inverse", "unique[inverse] does not round to data", got=inv)


def chk_unique_value_in_row(run, case):
    from trimesh import grouping

    a = mk(case)
    kw = {"unique": np.unique(a)} if case.get("pass_unique") else {}
    ok, res = call(run, case, a, grouping.unique_value_in_row, a, **kw)
    run.case("unique_value_in_row", a, bool(kw), case.get("layout"), nontrivial=len(a) >= 2)
    if not ok:
        return
    base = kbase(case, "fn=unique_value_in_row %s" % klass(a))
    res = np.asarray(res)
    if res.shape != a.shape or res.dtype != bool:
        bad(run, case, base + " sym=malformed_result", "result must be a bool array of the input's shape")
        return
    for row, flags in zip(a.tolist(), res.tolist()):
        once = [v for v in row if row.count(v) == 1]
        marked = [v for v, f in zip(row, flags) if f]
        if len(marked) > 1:
            bad(run, case, base + " sym=several_true_in_row", "more than one True in a row", got=res.tolist())
            return
        if marked and marked[0] not in once:
            bad(run, case, base + " sym=marks_repeated_value", "True on a value that occurs more than once", got=res.tolist())
            return
        if once and not marked:
            bad(run, case, base + " sym=unique_value_missed", "a value occurring once exists but no True", got=res.tolist())
            return


def chk_boolean_rows(run, case):
    from trimesh import grouping

    a, b = mk(case), mk(case, "b")
    opname = case.get("operation", "intersect1d")
    ok, res = call(run, case, a, grouping.boolean_rows, a, b, operation=getattr(np, opname))
    run.case("boolean_rows", a, b, opname, case.get("layout"), case.get("b_layout"), nontrivial=len(a) >= 1 and len(b) >= 1)
    if not ok:
        return
    la, lb = keys_of(a), keys_of(b)
    ka, kb = set(la), set(lb)
    want = ka & kb if opname == "intersect1d" else ka - kb
    res = np.asarray(res)
    # input class: same / mixed integer types; unsigned values no signed 64 bit integer holds
    big = [x.dtype.kind == "u" and x.size > 0 and int(x.max()) > INT64_MAX for x in (a, b)]
    if case.get("cls"):
        base = kbase(case, "")
    elif any(big):
        base = "fn=boolean_rows input=uint64_values>=2^63 a=%s b=%s" % (a.dtype.kind, b.dtype.kind)
    elif a.dtype == b.dtype:
        base = "fn=boolean_rows %s kind=%s op=%s" % (klass(a), a.dtype.kind, opname)
    else:
        wa, wb = a.dtype.itemsize, b.dtype.itemsize
        rel = "a_narrower" if wa < wb else ("a_wider" if wa > wb else "same_width")
        base = "fn=boolean_rows %s types=%s a=%s b=%s op=%s" % (klass(a), rel, a.dtype.kind, b.dtype.kind, opname)
    if res.ndim != 2 or res.shape[1] != a.shape[1]:
        bad(run, case, base + " sym=malformed_result", "result must be (p, d)")
        return
    got = keys_of(res)
    sgot = set(got)
    if sgot != want:
        # rows reported as shared (intersect) / removed from a (setdiff) although no row of b equals them
        matched = (sgot - want) if opname == "intersect1d" else ((ka - sgot) - kb)
        missed = (want - sgot) if opname == "intersect1d" else ((sgot & ka) - want)
        if sgot - ka:
            sym = "returned_row_not_in_a"
        elif matched and not missed:
            sym = "distinct_rows_matched"
        elif missed and not matched:
            sym = "equal_rows_missed"
        else:
            sym = "mismatch"
        bad(run, case, base + " sym=" + sym, "rows differ from the set operation", got=sorted(got), want=sorted(want))
    elif len(got) != len(sgot):
        bad(run, case, base + " sym=duplicates", "a row is returned twice by a set operation", got=sorted(got))


def ref_blocks(keys, min_len, max_len, wrap, only_nonzero):
    n = len(keys)
    runs, i = [], 0
    while i < n:
        j = i
        while j + 1 < n and keys[j + 1] == keys[i]:
            j += 1
        runs.append(list(range(i, j + 1)))
        i = j + 1
    linear = [list(r) for r in runs]
    if wrap and len(runs) > 1 and keys[0] == keys[-1]:
        runs[0] = runs[-1] + runs[0]
        runs.pop()

    def okay(r):
        return min_len <= len(r) <= max_len and (not only_nonzero or keys[r[0]] != 0)

    return [r for r in runs if okay(r)], runs, linear, okay


def chk_blocks(run, case):
    from trimesh import grouping

    a = mk(case)
    mn, mx = int(case.get("min_len", 2)), case.get("max_len")
    wrap, nz, digits = bool(case.get("wrap")), bool(case.get("only_nonzero")), case.get("digits")
    mxv = np.inf if mx is None else int(mx)
    opt = "wrap=%d nz=%d" % (wrap, nz)
    ok, res = call(run, case, a, grouping.blocks, a, min_len=npopt(dict(case, min_len=mn), "min_len"),
                   max_len=np.inf if mx is None else npopt(case, "max_len"), wrap=wrap, digits=npopt(case, "digits"),
                   only_nonzero=nz, opt=opt)
    run.case("blocks", dig(case, a), mn, mx, wrap, nz, digits, case.get("digits_type"), case.get("min_len_type"),
             case.get("max_len_type"), case.get("layout"), nontrivial=len(a) >= 2)
    if not ok:
        return
    keys = keys_of(a, digits)
    want_runs, circ, linear, okay = ref_blocks(keys, mn, mxv, wrap, nz)
    try:
        got_raw = [[int(i) for i in np.asarray(b).reshape(-1)] for b in res]
    except Exception:
        bad(run, case, "fn=blocks %s sym=malformed_result" % opt, "blocks must return a sequence of index arrays")
        return
    if any(len(b) == 0 for b in got_raw):
        bad(run, case, "fn=blocks %s sym=empty_block_returned" % klass(a), "a block without members is returned", got=got_raw)
    got_raw = [b for b in got_raw if len(b)]
    got = sorted(tuple(sorted(b)) for b in got_raw)
    want = sorted(tuple(sorted(b)) for b in want_runs)
    if got == want and all(len(set(b)) == len(b) for b in got_raw):
        return
    # ---- structural classification
    if len(linear) == 1:
        ends = "single_run"
    elif not wrap or keys[0] != keys[-1]:
        ends = "na"
    else:
        ends = {2: "both", 1: "one", 0: "none"}[int(okay(linear[0])) + int(okay(linear[-1]))]
    extra = [b for b in got_raw if tuple(sorted(b)) not in want]
    missing = [b for b in want if b not in got]
    if any(len(set(b)) != len(b) for b in got_raw):
        sym = "self_wrapped_block"
    elif any(len(b) > mxv for b in extra):
        sym = "block_exceeds_max_len"
    elif any(len(b) < mn for b in extra):
        sym = "block_below_min_len"
    elif any(any(set(b) < set(c) for c in circ) for b in extra):
        sym = "partial_run_returned"
    elif any(nz and keys[b[0]] == 0 for b in extra):
        sym = "zero_block_returned"
    elif extra and missing:
        sym = "wrong_blocks"
    elif extra:
        sym = "extra_block"
    else:
        sym = "missing_block"
    if case.get("cls"):
        sym = "runs_differ" if sym != "self_wrapped_block" else sym
    bad(run, case, kbase(case, "fn=blocks wrap=%d ends=%s" % (wrap, ends)) + " sym=" + sym, "blocks differ from the maximal runs", got=got_raw,
        want=want_runs)


def chk_group_min(run, case):
    from trimesh import grouping

    g, d = mk(case), mk(case, "b")
    ok, res = call(run, case, g, grouping.group_min, g, d)
    run.case("group_min", g, d, case.get("layout"), case.get("b_layout"), nontrivial=len(g) >= 2)
    if not ok:
        return
    ref = {}
    for k, v in zip(keys_of(g), keys_of(d)):
        ref[k] = v if k not in ref else min(ref[k], v)
    got = sorted(keys_of(np.asarray(res)))
    if got != sorted(ref.values()):
        bad(run, case, kbase(case, "fn=group_min %s" % klass(g)) + " sym=mismatch", "minima differ from the per-group minimum", got=got,
            want=sorted(ref.values()))


def chk_float_to_int(run, case):
    from trimesh import grouping

    a = mk(case)
    digits = case.get("digits")
    ok, res = call(run, case, a, grouping.float_to_int, a, digits=npopt(case, "digits"))
    run.case("float_to_int", a, digits, case.get("digits_type"), case.get("layout"), nontrivial=a.size >= 2)
    if not ok:
        return
    res = np.asarray(res)
    base = kbase(case, "fn=float_to_int %s kind=%s" % (klass(a), a.dtype.kind))
    if res.shape != a.shape or res.dtype.kind not in "iu":
        bad(run, case, base + " sym=malformed_result", "integer array of the input's shape expected")
    elif inexact_cells(a, digits):
        # scaled values beyond 2^50: the product in doubles is not the exact cell any more, beyond 2^63 no
        # int64 holds it - what remains of the statement is the partition (same cell <=> same integer)
        k2r, r2k = {}, {}
        for k, r in zip(keys_of(a.reshape(-1), digits), keys_of(res.reshape(-1))):
            k2r.setdefault(k, set()).add(r)
            r2k.setdefault(r, set()).add(k)
        if any(len(v) > 1 for v in r2k.values()):
            bad(run, case, base + " sym=distinct_values_merged", "values of different cells receive the same integer",
                got=res.tolist())
        elif any(len(v) > 1 for v in k2r.values()):
            bad(run, case, base + " sym=equal_values_split", "equal values receive different integers", got=res.tolist())
    elif keys_of(res) != keys_of(a, digits):
        bad(run, case, base + " sym=wrong_cell", "value is not the rounding cell of the input", got=res.tolist())


CHECKERS = {
    "hashable_rows": chk_hashable_rows,
    "unique_rows": chk_unique_rows,
    "group_rows": chk_group_rows,
    "group": chk_group,
    "unique_ordered": chk_unique_ordered,
    "unique_bincount": chk_unique_bincount,
    "merge_runs": chk_merge_runs,
    "unique_float": chk_unique_float,
    "unique_value_in_row": chk_unique_value_in_row,
    "boolean_rows": chk_boolean_rows,
    "blocks": chk_blocks,
    "group_min": chk_group_min,
    "float_to_int": chk_float_to_int,
}


def observe(run, fn, data, dtype="int64", shape=None, **opts):
    case = {"fn": fn, "dtype": dtype}
    if data is not None:
        case["data"] = data
    if shape is not None:
        case["shape"] = list(shape)
    case.update(opts)
    CHECKERS[fn](run, case)


# --------------------------------------------------------------------------- generators


def pack_big(row, p):
    """hashable_rows' packing formula in unbounded ints, modulo 2^64 like uint64 arithmetic."""
    T, M = 1 << (p - 1), 1 << 64
    packed = 0
    for j, v in enumerate(row):
        packed ^= (((v + T) % M) << (j * p)) % M
    return packed


def partners(row):
    """Rows != row that collide with it under a too-permissive / mis-shifted packing."""
    c = len(row)
    if not 2 <= c <= 4:
        return []
    p = 64 // c
    T = 1 << (p - 1)
    out = []
    packed = pack_big(row, p)
    dec = [((packed >> (j * p)) & ((1 << p) - 1)) - T for j in range(c)]
    if dec != list(row) and pack_big(dec, p) == packed:
        out.append(dec)
    for j in range(c):
        for k in (p - 1, p):
            for s in (1, -1):
                for carry in (0, 1, -1):
                    if carry and j + 1 >= c:
                        continue
                    b = list(row)
                    b[j] -= s * (1 << k)
                    if carry:
                        b[j + 1] += carry
                    if all(INT64_MIN <= v <= INT64_MAX for v in b) and b != list(row):
                        out.append(b)
    return out


def magnitudes(k):
    return [s * ((1 << k) + d) for s in (1, -1) for d in (-2, -1, 0, 1, 2) if INT64_MIN <= s * ((1 << k) + d) <= INT64_MAX]


def gen_rows(rng, pyr, c):
    """(rows, tag): list of rows (python ints) for c columns."""
    n = int(rng.integers(2, 10))
    mode = pyr.choice(["small", "mixed", "threshold", "threshold", "partner", "partner"])
    p = 64 // c if c <= 4 else 16
    small = lambda: int(rng.integers(-3, 4))  # noqa
    if mode == "small":
        rows = [[small() for _ in range(c)] for _ in range(n)]
    elif mode == "mixed":
        k = pyr.choice(KS)
        pool = magnitudes(k)
        rows = [[pyr.choice(pool) if rng.random() < 0.3 else small() for _ in range(c)] for _ in range(n)]
    else:
        # thresholds of this column count: the packing limit 2^(p-1) and the field width 2^p
        k = pyr.choice([p - 1, p - 1, p]) if c <= 4 and rng.random() < 0.8 else pyr.choice(KS)
        k = min(k, 63)
        pool = magnitudes(k)
        if mode == "threshold":
            rows = [[pyr.choice(pool) if rng.random() < 0.4 else small() for _ in range(c)] for _ in range(n)]
        else:
            inrange = rng.random() < 0.5
            rows = []
            for _ in range(n):
                r = [int(rng.integers(0, 9)) for _ in range(c)]
                if not inrange:
                    r[int(rng.integers(c))] = pyr.choice(pool)
                rows.append(r)
    # equal rows, near duplicates, collision partners
    for _ in range(int(rng.integers(1, 4))):
        rows.append(list(pyr.choice(rows)))
    for _ in range(int(rng.integers(0, 3))):
        r = list(pyr.choice(rows))
        j = int(rng.integers(c))
        r[j] = min(INT64_MAX, max(INT64_MIN, r[j] + pyr.choice([-1, 1])))
        rows.append(r)
    if mode == "partner" or rng.random() < 0.3:
        T = 1 << (p - 1)
        packable = c <= 4 and all(abs(v) <= T - 2 for r in rows for v in r)
        for _ in range(int(rng.integers(1, 4))):
            ps = partners(pyr.choice(rows))
            if packable and rng.random() < 0.8:
                # keep the whole array inside the packing range: the real code must pack *and* separate them
                ps = [b for b in ps if all(abs(v) <= T - 2 for v in b)]
            if ps:
                rows += pyr.sample(ps, min(len(ps), int(rng.integers(1, 4))))
    pyr.shuffle(rows)
    return rows, mode


def row_suite(run, rows, dtype, shape, tag, digits=None, **extra):
    """Push one row array through every row function and option (extra: layout / digits_type / cls ...)."""
    data = rows.tolist() if isinstance(rows, np.ndarray) else rows
    a = mk(dict(extra, data=data, dtype=dtype, shape=list(shape)))
    rep = representation(run, a, digits)
    run.count("rows:" + tag + ":" + rep)
    observe(run, "hashable_rows", data, dtype, shape, digits=digits, **extra)
    for keep in (False, True):
        observe(run, "unique_rows", data, dtype, shape, digits=digits, keep_order=keep, **extra)
    for rc in (None, 1, 2, 3):
        observe(run, "group_rows", data, dtype, shape, digits=digits, require_count=rc, **extra)
    if not (a.dtype.kind == "u" and a.size and int(a.max()) > INT64_MAX):
        # float_to_int returns int64: unsigned values above 2^63-1 have no image (they wrap one-to-one,
        # which the partition checks above do judge)
        observe(run, "float_to_int", data, dtype, shape, digits=digits, **extra)


def float_cells(rng, cells, digits, spread=0.3):
    d = 8 if digits is None else digits
    cells = np.asarray(cells, dtype=np.int64)
    delta = rng.uniform(-spread, spread, size=cells.shape)
    return (cells + delta) / float(10**d)


def fixed_cases(run):
    """Empty, single and hand-picked inputs for every function."""
    i64 = "int64"
    for c in (1, 2, 3, 4, 5, 6):
        row_suite(run, [], i64, (0, c), "empty")
        row_suite(run, [list(range(c))], i64, (1, c), "single")
        row_suite(run, [], "float64", (0, c), "empty_float")
        # rows without columns: every row is the same (empty) row
        row_suite(run, [[] for _ in range(c % 3 + 1)], i64, (c % 3 + 1, 0), "zero_columns")
    for op in ("intersect1d", "setdiff1d"):
        observe(run, "boolean_rows", [[], []], i64, (2, 0), b=[[]], b_shape=[1, 0], operation=op)
    observe(run, "unique_value_in_row", [[], []], i64, (2, 0))
    row_suite(run, [], i64, (0,), "empty_1d")
    row_suite(run, [7], i64, (1,), "single_1d")
    # the documented examples and the design's collision pairs
    row_suite(run, [[1, 2], [3, 4], [1, 2]], i64, (3, 2), "doc")
    row_suite(run, [[5, 0], [5 - 2**32, 1], [5, 0]], i64, (3, 2), "pair")
    row_suite(run, [[5, 0], [5 - 2**31, 1], [5, 0]], i64, (3, 2), "pair")
    row_suite(run, [[5, 0, 0], [5 - 2**20, 1, 0], [5 - 2**21, 1, 0]], i64, (3, 3), "pair")
    row_suite(run, [[5, 0, 0, 0], [5 - 2**15, 1, 0, 0], [5 - 2**16, 1, 0, 0]], i64, (3, 4), "pair")
    for fn in ("group", "unique_ordered", "unique_bincount", "merge_runs", "blocks"):
        for data in ([], [4], [4, 4], [4, 5]):
            observe(run, fn, data, i64, (len(data),))
    for wrap in (False, True):
        for nz in (False, True):
            for data in ([], [0], [1], [1, 1]):
                for mn in (1, 2):
                    observe(run, "blocks", data, i64, (len(data),), min_len=mn, wrap=wrap, only_nonzero=nz)
                    observe(run, "blocks", data, "bool", (len(data),), min_len=mn, wrap=wrap, only_nonzero=nz)
    observe(run, "unique_float", [], "float64", (0,), return_index=True, return_inverse=True)
    observe(run, "unique_float", [0.5], "float64", (1,), return_index=True, return_inverse=True, digits=3)
    observe(run, "group_min", [], i64, (0,), b=[], b_shape=[0])
    observe(run, "group_min", [3], i64, (1,), b=[9], b_shape=[1])
    observe(run, "unique_value_in_row", [], i64, (0, 3))
    observe(run, "unique_value_in_row", [[1, 1, 2]], i64, (1, 3))
    observe(run, "unique_value_in_row", [[-1, 1, 1], [-1, 1, -1], [-1, 1, 1]], "int8", (3, 3))
    for op in ("intersect1d", "setdiff1d"):
        observe(run, "boolean_rows", [], i64, (0, 2), b=[[1, 2]], b_shape=[1, 2], operation=op)
        observe(run, "boolean_rows", [[1, 2]], i64, (1, 2), b=[], b_shape=[0, 2], operation=op)
        observe(run, "boolean_rows", [[1, 2], [3, 4]], i64, (2, 2), b=[[3, 4]], b_shape=[1, 2], operation=op)
    # extreme magnitudes in the 1-D primitives
    ext = [2**62, -(2**62), 2**63 - 1, -(2**63), 2**63 - 1, 0, 0, -(2**63)]
    observe(run, "merge_runs", [2**62, -(2**62)], i64, (2,))
    observe(run, "merge_runs", [2**62, -(2**62), 5], i64, (3,))
    observe(run, "merge_runs", ext, i64, (len(ext),))
    observe(run, "group", ext, i64, (len(ext),))
    observe(run, "unique_ordered", ext, i64, (len(ext),), return_index=True, return_inverse=True)
    observe(run, "blocks", ext, i64, (len(ext),), min_len=1)
    observe(run, "group_min", [0, 1, 0, 1, 2, 2, 0, 1], i64, (8,), b=ext, b_shape=[8])


# --------------------------------------------------------------------------- classes added after review round 4

NP_INTS = ("int8", "int16", "int32", "int64", "uint8", "uint16", "uint64")


def safe_floats(x, dtype, digits):
    """
    The values as `dtype` (float16 / float32 / float64); an element whose EXACT value is closer than
    0.2 cell to a rounding boundary is replaced by zero so that its cell is unambiguous.
    """
    a = np.array(x, dtype=dtype)
    s = Fraction(10) ** (8 if digits is None else int(digits))
    flat = a.reshape(-1)
    for i, v in enumerate(flat.tolist()):
        if v in (float("inf"), float("-inf")) or v != v or abs((Fraction(v) * s) % 1 - Fraction(1, 2)) < Fraction(1, 5):
            flat[i] = 0
    return a


def float_suite(run, x, dtype, digits, tag, rows=True, **extra):
    """One float array (1-D or rows) through every function that takes `digits`."""
    x = np.asarray(x)
    data = x.tolist()
    if rows:
        row_suite(run, data, dtype, x.shape, tag, digits=digits, **extra)
    flat = x.reshape(-1)
    fl = flat.tolist()
    observe(run, "unique_float", fl, dtype, flat.shape, digits=digits, return_index=True, return_inverse=True, **extra)
    observe(run, "blocks", fl, dtype, flat.shape, min_len=1, max_len=None, wrap=False, digits=digits, **extra)
    observe(run, "blocks", fl, dtype, flat.shape, min_len=2, max_len=None, wrap=True, only_nonzero=True, digits=digits, **extra)
    observe(run, "merge_runs", fl, dtype, flat.shape, digits=digits, **extra)


def layout_cases(run, rows=None, dtype="int64"):
    """
    The same values in every memory layout (Fortran order, every second column / row of a wider array,
    reversed strides, swapped byte order) through every function; both operands of the two-array ones.
    """
    if rows is None:
        todo = [([[0, 1, 2], [3, 4, 5], [0, 1, 2], [6, 7, 8]], dt) for dt in ("int64", "int8", "uint16")]
        todo += [([[0, 1], [1, 0], [0, 1], [2, 2], [1, 0]], "int32"), ([[1, 0, 1, 0, 1], [0, 0, 0, 0, 1], [1, 0, 1, 0, 1]], "bool"),
                 ([[3, 1, 4, 1, 5], [9, 2, 6, 5, 3], [3, 1, 4, 1, 5]], "uint64")]
    else:
        todo = [(rows, dtype)]
    for rows_, dt in todo:
        n, c = len(rows_), len(rows_[0])
        h = max(1, n // 2)
        for lay in LAYOUTS_2D:
            cls = "layout=" + LAYOUT_CLASS[lay]
            row_suite(run, rows_, dt, (n, c), "layout_" + lay, layout=lay, cls=cls)
            if dt != "bool":
                observe(run, "unique_value_in_row", rows_, dt, (n, c), layout=lay, cls=cls)
                for op in ("intersect1d", "setdiff1d"):
                    for la, lb in ((lay, None), (None, lay), (lay, lay)):
                        observe(run, "boolean_rows", rows_, dt, (n, c), b=rows_[h:] + [[1] * c], b_shape=[n - h + 1, c],
                                operation=op, layout=la, b_layout=lb, cls=cls)
            run.state("layout", (lay, dt))
    if rows is not None:
        return
    col = [1, 1, 2, 2, 3, 1, 1, 0, 0]
    n = len(col)
    for dt in ("int64", "uint8", "int16"):
        for lay in LAYOUTS_1D:
            cls = "layout=" + LAYOUT_CLASS[lay]
            observe(run, "merge_runs", col, dt, (n,), layout=lay, cls=cls)
            observe(run, "group", col, dt, (n,), min_len=1, max_len=3, layout=lay, cls=cls)
            observe(run, "unique_ordered", col, dt, (n,), return_index=True, return_inverse=True, layout=lay, cls=cls)
            for wrap in (False, True):
                observe(run, "blocks", col, dt, (n,), min_len=1, wrap=wrap, only_nonzero=wrap, layout=lay, cls=cls)
            observe(run, "group_min", col, dt, (n,), b=col[::-1], b_shape=[n], layout=lay, b_layout=lay, cls=cls)
            if dt == "int64":
                observe(run, "unique_bincount", col, dt, (n,), return_inverse=True, return_counts=True, layout=lay, cls=cls)
            row_suite(run, col, dt, (n,), "layout_1d_" + lay, layout=lay, cls=cls)
    for lay in LAYOUTS_2D:
        x = [[1.0, 2.0], [3.0, 4.0], [1.0, 2.0], [1.0, 3.0]]
        float_suite(run, x, "float64", 1, "layout_float_" + lay, layout=lay, cls="layout=" + LAYOUT_CLASS[lay])


def integer_digits_cases(run):
    """
    merge_runs / blocks on integers with every value of `digits` (integers are compared exactly whatever it
    is): neighbours one unit apart, ten apart, and neighbours at opposite ends of the type's range.
    """
    for dt, (lo, hi) in INT_DTYPES.items():
        ends = [hi, lo, hi, lo + 3, hi - 2, hi - 2, lo]
        near = [5, 6, 7, 7, 17, 20, 5, 4]
        for digits in (None, 0, -1, -2, 1, 3):
            for col, tag in ((ends, "ends"), (near, "near")):
                observe(run, "merge_runs", col, dt, (len(col),), digits=digits)
                observe(run, "blocks", col, dt, (len(col),), min_len=1, digits=digits)
        run.state("integer_digits_dtype", dt)
    for digits in (0, -1):
        observe(run, "merge_runs", [2**64 - 2, 0, 0, 5], "uint64", (4,), digits=digits)
        for fn in ("unique_rows", "group_rows", "hashable_rows"):
            observe(run, fn, [[1, 2], [2, 2], [1, 2], [11, 2]], "int64", (4, 2), digits=digits)


def big_float_cases(run, pyr=None, digits_list=(None, 0, 3, 12, 19)):
    """
    Float rows whose value * 10^digits is on both sides of 2^63 (what an int64 holds), far apart from each
    other (>= 1e-3 relative) so that no rounding question arises; +-inf next to finite values.  Every finite
    value * 10^digits stays inside the range of a double (1e280 * 1e19): a product that overflows to inf is not
    judged against inf.  Deterministic when pyr is None.
    """
    import random

    pyr = pyr or random.Random(6)
    for digits in digits_list:
        d = 8 if digits is None else digits
        T = float(2**63) / float(10**d)
        below = [T * f for f in (0.4, 0.999, 0.25)]
        above = [T * f for f in (1.001, 2.5, 1e3, 1e9)]
        small = [0.0, 1.0, -1.0, 3.0] if d <= 12 else [0.0]  # whole numbers: cell centres for every digits >= 0
        for kind in ("below", "above", "infinite"):
            pool = {"below": below + small, "above": above + below[:1] + small,
                    "infinite": [float("inf"), float("-inf"), above[0], 1e280] + small}[kind]
            pool = pool + [-v for v in pool if v > 0]
            cls = {"below": None, "above": "input=scaled_value>=2^63", "infinite": "input=infinite"}[kind]
            extra = {} if cls is None else {"cls": cls}
            for c in (1, 2, 3, 5):
                rows = [[pyr.choice(pool) for _ in range(c)] for _ in range(5)]
                if kind != "below":
                    # at least two different rows that differ only in values no int64 holds
                    rows[0][0], rows[1][0] = pool[0], pool[1]
                    rows[1][1:] = rows[0][1:]
                rows += [list(rows[0]), list(rows[2])]
                pyr.shuffle(rows)
                row_suite(run, rows, "float64", (len(rows), c), "bigfloat_" + kind, digits=digits, **extra)
            col = [pool[0], pool[1], pool[1], pool[2], pool[0], pool[0], pool[-1]]
            float_suite(run, col, "float64", digits, "bigfloat_1d_" + kind, **extra)
            run.state("big_float", (kind, digits))


def narrow_float_cases(run):
    """
    float16 / float32 rows: the SAME numbers a float64 array could hold (the oracle reads their exact values),
    at magnitudes where value * 10^digits needs more bits than the narrow type has.
    """
    f16 = [[1, 2], [3, 4], [1, 2], [5, 6]]
    for digits in (None, 0, 1, 3):
        float_suite(run, safe_floats(f16, "float16", digits), "float16", digits, "float16", cls="input=float16")
        float_suite(run, safe_floats([0.5, 0.5, 1.25, 2.0, 2.0, 0.5], "float16", digits), "float16", digits, "float16_1d",
                    cls="input=float16")
    # chains of neighbouring float32 values: 6e-8 apart near 0.7 (6 cells at 8 digits), 7.6e-6 near 100 (7.6 cells at 6)
    for start, digits in ((0.7, None), (100.3, 6), (3.3, 7), (0.7, 3), (1000.25, 3)):
        chain = [np.float32(start)]
        for _ in range(5):
            chain.append(np.nextafter(chain[-1], np.float32(np.inf)))
        chain = [float(v) for v in chain]
        rows = [[chain[0], 0.0], [chain[1], 0.0], [chain[2], 0.0], [chain[0], 0.0], [chain[4], 1.0], [chain[5], 1.0]]
        float_suite(run, safe_floats(rows, "float32", digits), "float32", digits, "float32", cls="input=float32")
        col = [chain[0], chain[0], chain[1], chain[2], chain[2], chain[3], chain[0]]
        float_suite(run, safe_floats(col, "float32", digits), "float32", digits, "float32_1d", cls="input=float32")
    run.state("narrow_float", "fixed")


def numpy_option_cases(run):
    """
    Integer options given as numpy integer scalars of every width (`digits: Optional[Integer]` in the
    signatures; `isinstance(digits, (int, np.integer))` in float_to_int): the result must be the one of the
    plain int.
    """
    cells = [[1, 0], [2, 0], [3, 0], [1, 0], [2, 1], [-3, 7]]
    for digits in (-1, 0, 1, 3, 5, 10):
        x = (np.array(cells) + np.array([[0.2, -0.1]])) / (Fraction(10) ** digits)
        x = np.array(x, dtype=np.float64)
        col = np.array([(10 * k + 0.2) / (Fraction(10) ** digits) for k in (1, 1, 2, 3, 3, 1, -3)], dtype=np.float64)
        for t in (None,) + NP_INTS:
            if t is not None and t[0] == "u" and digits < 0:
                continue
            extra = {} if t is None else {"digits_type": t, "cls": "option=digits_as_numpy_integer"}
            float_suite(run, x, "float64", digits, "npdigits", **extra)
            float_suite(run, col, "float64", digits, "npdigits_1d", **extra)
            ints = [400, 400, 500, 700, 700, 400]  # further apart than 10^-digits for every digits here
            observe(run, "merge_runs", ints, "int64", (6,), digits=digits, **extra)
            observe(run, "blocks", ints, "int64", (6,), min_len=1, digits=digits, **extra)
            run.state("numpy_digits", (digits, t))
    # counts: only the options annotated `Integer` (group min_len / max_len, unique_bincount minlength);
    # group_rows(require_count=) and blocks(min_len=, max_len=) do not declare numpy scalars
    col = [0, 0, 1, 2, 2, 2, 0, 0]
    for t in NP_INTS:
        cls = "option=counts_as_numpy_integer"
        for mn, mx in ((1, 2), (2, 3), (2, None), (None, 2), (3, 3)):
            tt = {k + "_type": t for k, v in (("min_len", mn), ("max_len", mx)) if v is not None}
            observe(run, "group", col, "int64", (8,), min_len=mn, max_len=mx, cls=cls, **tt)
        observe(run, "unique_bincount", col, "int64", (8,), minlength=4, minlength_type=t, return_inverse=True,
                return_counts=True, cls=cls)


def rounding_run_cases(run):
    """
    merge_runs / blocks on floats whose neighbours lie in DIFFERENT cells but not further apart than one cell
    (10^-digits): slow ramps (steps of a fraction of a cell), steps of exactly one cell, and neighbours on both
    sides of a boundary.  Every value is >= 0.2 cell away from a rounding boundary.
    """
    for digits in (None, 2, 0, -1):
        s = Fraction(10) ** (8 if digits is None else digits)
        for step in (0.29, 0.45, 1.0, 0.6):
            pos = [k * step for k in range(40)]
            pos = [p for p in pos if abs(p % 1 - 0.5) >= 0.25]
            x = safe_floats([float(Fraction(p) / s) for p in pos], "float64", digits)
            observe(run, "merge_runs", x.tolist(), "float64", x.shape, digits=digits)
            observe(run, "blocks", x.tolist(), "float64", x.shape, min_len=1, digits=digits)
        pos = [0.3, 0.7, 1.3, 1.3, 1.7, 2.25, 2.25, 0.3]
        x = safe_floats([float(Fraction(p) / s) for p in pos], "float64", digits)
        observe(run, "merge_runs", x.tolist(), "float64", x.shape, digits=digits)
    run.state("rounding_runs", "fixed")


def random_review(run):
    """Random members of the round-4 classes (the fixed members above run in every process)."""
    rng, pyr = run.rng, run.pyrng
    k = pyr.choice(["layout", "layout", "bigfloat", "narrowfloat", "narrowfloat", "ramp", "ramp"])
    run.count("random_review:" + k)
    if k == "layout":
        c = pyr.choice([1, 2, 3, 4, 5])
        rows, _ = gen_rows(rng, pyr, c)
        layout_cases(run, rows[:8], "int64")
    elif k == "bigfloat":
        big_float_cases(run, pyr=pyr, digits_list=(pyr.choice([None, 0, 3, 6, 12, 15, 19]),))
    elif k == "narrowfloat":
        dt = pyr.choice(["float32", "float32", "float16"])
        digits = pyr.choice([None, 3, 6, 7] if dt == "float32" else [None, 0, 1, 3])
        one = np.dtype(dt).type
        base = one(pyr.choice([0.7, 3.3, 100.3, 1000.25, 12345.5] if dt == "float32" else [0.7, 1.0, 3.25, 12.5, 100.0]))
        chain = [base]
        for _ in range(8):
            chain.append(np.nextafter(chain[-1], one(np.inf)))
        chain = [float(v) for v in chain] + [0.0, 1.0]
        c = pyr.choice([1, 2, 3, 5])
        rows = [[pyr.choice(chain) for _ in range(c)] for _ in range(int(rng.integers(3, 7)))]
        rows += [list(rows[0]), list(rows[1])]
        pyr.shuffle(rows)
        float_suite(run, safe_floats(rows, dt, digits), dt, digits, dt, cls="input=" + dt)
        col = [pyr.choice(chain) for _ in range(int(rng.integers(3, 8)))]
        col = [v for v in col for _ in range(int(rng.integers(1, 3)))]
        float_suite(run, safe_floats(col, dt, digits), dt, digits, dt + "_1d", cls="input=" + dt)
    else:
        digits = pyr.choice([None, 0, 1, 2, 5, -1])
        s = Fraction(10) ** (8 if digits is None else digits)
        step = Fraction(int(rng.integers(5, 101)), 100) * pyr.choice([1, -1])
        start = int(rng.integers(-5, 6))
        pos = [start + k_ * step for k_ in range(int(rng.integers(5, 40)))]
        pos = [q for q in pos if abs(q % 1 - Fraction(1, 2)) >= Fraction(1, 4)]
        pos = [q for q in pos for _ in range(int(rng.integers(1, 3)))]
        if len(pos) >= 2:
            x = safe_floats([float(q / s) for q in pos], "float64", digits)
            observe(run, "merge_runs", x.tolist(), "float64", x.shape, digits=digits)
            observe(run, "blocks", x.tolist(), "float64", x.shape, min_len=int(rng.integers(1, 3)), digits=digits)


def review_classes(run):
    layout_cases(run)
    integer_digits_cases(run)
    big_float_cases(run)
    narrow_float_cases(run)
    numpy_option_cases(run)
    rounding_run_cases(run)
    run.count("review_round4_classes")


BLOCK_GRID = [
    (mn, mx, wrap, nz)
    for mn in (1, 2, 3)
    for mx in (None, 1, 2, 3, 4)
    for wrap in (False, True)
    for nz in (False, True)
]


def exhaustive_suite(run, arr):
    """All 1-D primitives (with their option grids) on one small array over {0,1,2}."""
    L = len(arr)
    data = list(arr)
    sh = (L,)
    for mn, mx, wrap, nz in BLOCK_GRID:
        observe(run, "blocks", data, "int64", sh, min_len=mn, max_len=mx, wrap=wrap, only_nonzero=nz)
    if max(data) <= 1:
        for mn, mx, wrap, nz in BLOCK_GRID:
            if mx in (None, 2):
                observe(run, "blocks", data, "bool", sh, min_len=mn, max_len=mx, wrap=wrap, only_nonzero=nz)
    # floats inside cells: value v -> cell v (digits=1)
    fl = [v / 10.0 + 0.02 * ((i % 3) - 1) for i, v in enumerate(data)]
    for mn, wrap, nz in ((1, True, False), (2, True, True), (2, False, False)):
        observe(run, "blocks", fl, "float64", sh, min_len=mn, max_len=None, wrap=wrap, only_nonzero=nz, digits=1)
    observe(run, "merge_runs", data, "int64", sh)
    observe(run, "merge_runs", data, "int32", sh, digits=2)
    observe(run, "merge_runs", data, "int64", sh, digits=0)
    observe(run, "merge_runs", data, "uint8", sh, digits=-1)
    observe(run, "merge_runs", [v * 1.0 + 0.004 * ((i % 3) - 1) for i, v in enumerate(data)], "float64", sh, digits=1)
    for mn in (None, 1, 2, 3):
        for mx in (None, 1, 2, 3):
            observe(run, "group", data, "int64", sh, min_len=mn, max_len=mx)
    for ri in (False, True):
        for rv in (False, True):
            observe(run, "unique_ordered", data, "int64", sh, return_index=ri, return_inverse=rv)
            for ml in (0, 4):
                observe(run, "unique_bincount", data, "int64", sh, minlength=ml, return_inverse=ri, return_counts=rv)
    d1 = [(7 * i + 3 * v) % 5 - 2 for i, v in enumerate(data)]
    observe(run, "group_min", data, "int64", sh, b=d1, b_shape=[L])
    observe(run, "group_min", data, "int64", sh, b=data[::-1], b_shape=[L])
    observe(run, "group_min", d1, "int64", sh, b=data, b_shape=[L])
    for d in (1, 2, 3, 4):
        if L % d == 0:
            observe(run, "unique_value_in_row", data, "int64", (L // d, d))
            observe(run, "unique_value_in_row", data, "int64", (L // d, d), pass_unique=True)
            if d >= 2 or L <= 4:
                for keep in (False, True):
                    observe(run, "unique_rows", data, "int64", (L // d, d), keep_order=keep)
                for rc in (None, 1, 2, 3):
                    observe(run, "group_rows", data, "int64", (L // d, d), require_count=rc)
                observe(run, "hashable_rows", data, "int64", (L // d, d))
    for d in (1, 2):
        for cut in range(0, L + 1, d):
            if (L - cut) % d == 0:
                for op in ("intersect1d", "setdiff1d"):
                    observe(run, "boolean_rows", data[:cut], "int64", (cut // d, d), b=data[cut:], b_shape=[(L - cut) // d, d],
                            operation=op)
    for keep in (False, True):
        observe(run, "unique_rows", data, "int64", sh, keep_order=keep)
    for rc in (None, 1, 2, 3):
        observe(run, "group_rows", data, "int64", sh, require_count=rc)


SMALL_DTYPES = {"int32": (-(2**31), 2**31 - 1), "int16": (-(2**15), 2**15 - 1), "int8": (-128, 127), "uint8": (0, 255),
                "uint16": (0, 65535), "uint32": (0, 2**32 - 1), "bool": (0, 1)}


def random_rows(run):
    rng, pyr = run.rng, run.pyrng
    x = rng.random()
    if x < 0.10:
        return mixed_dtype_rows(run)
    if x < 0.16:
        return narrow_1d(run)
    if x < 0.163:
        return long_suite(run, int(rng.integers(300, 30000)))
    if x < 0.19:
        return random_review(run)
    r = int(rng.integers(10))
    if r <= 5:
        c = pyr.choice([1, 2, 2, 2, 3, 3, 4, 4, 5, 6])
        rows, mode = gen_rows(rng, pyr, c)
        row_suite(run, rows, "int64", (len(rows), c), mode)
        if rng.random() < 0.3:
            # the same rows also through the 1-D primitives column-wise and boolean_rows
            col = [r_[0] for r_ in rows]
            n = len(col)
            observe(run, "group", col, "int64", (n,), min_len=pyr.choice([None, 1, 2]), max_len=pyr.choice([None, 2, 3]))
            observe(run, "unique_ordered", col, "int64", (n,), return_index=True, return_inverse=True)
            observe(run, "blocks", col, "int64", (n,), min_len=1, wrap=bool(rng.integers(2)))
            if all(abs(x - y) < 2**63 for x, y in zip(col, col[1:])):
                observe(run, "merge_runs", col, "int64", (n,))
            observe(run, "group_min", [abs(v) % 3 for v in col], "int64", (n,), b=col, b_shape=[n])
            h = n // 2
            for op in ("intersect1d", "setdiff1d"):
                observe(run, "boolean_rows", rows[:h], "int64", (h, c), b=rows[h:], b_shape=[n - h, c], operation=op)
    elif r == 6:
        # narrow dtypes: values at the ends of the dtype range
        dt = pyr.choice(list(SMALL_DTYPES))
        lo, hi = SMALL_DTYPES[dt]
        c = int(rng.integers(1, 7))
        pool = [lo, lo + 1 if hi > 1 else lo, hi - 1 if hi > 1 else hi, hi, 0, 1]
        n = int(rng.integers(2, 9))
        rows = [[pyr.choice(pool) for _ in range(c)] for _ in range(n)]
        rows += [list(pyr.choice(rows)) for _ in range(2)]
        pyr.shuffle(rows)
        row_suite(run, rows, dt, (len(rows), c), "dtype_" + dt)
    elif r == 7:
        # 1-D integer input to the row functions, huge magnitudes
        k = pyr.choice(KS)
        pool = magnitudes(k) + [0, 1, -1]
        col = [pyr.choice(pool) for _ in range(int(rng.integers(2, 12)))]
        row_suite(run, col, "int64", (len(col),), "1d")
    else:
        # float rows inside rounding cells
        digits = pyr.choice([None, 0, 1, 3, 6])
        c = pyr.choice([1, 2, 3, 3, 4, 5, "1d"])
        n = int(rng.integers(2, 10))
        big = pyr.choice([3, 3, 1000, 10**6])
        if c == "1d":
            cells = rng.integers(-big, big + 1, size=n)
            cells = np.concatenate([cells, cells[: max(1, n // 2)], cells[:2] + 1])
        else:
            cells = rng.integers(-big, big + 1, size=(n, c))
            near = cells[:2].copy()
            near[:, int(rng.integers(c))] += 1
            cells = np.vstack([cells, cells[: max(1, n // 2)], near])
        perm = rng.permutation(len(cells))
        cells = cells[perm]
        x = float_cells(rng, cells, digits)
        row_suite(run, x, "float64", x.shape, "float", digits=digits)
        flat = x.reshape(-1)
        for ri in (False, True):
            observe(run, "unique_float", flat.tolist(), "float64", flat.shape, digits=digits, return_index=ri,
                    return_inverse=not ri)
        observe(run, "unique_float", flat.tolist(), "float64", flat.shape, digits=digits, return_index=True, return_inverse=True)
        # runs of cells >= 10 apart for the tolerance-based merge_runs, blocks on cells
        runs = np.repeat(rng.integers(-5, 6, size=n) * 10, rng.integers(1, 4, size=n))
        xr = float_cells(rng, runs, digits, spread=0.05)
        observe(run, "merge_runs", xr.tolist(), "float64", xr.shape, digits=digits)
        xb = float_cells(rng, np.repeat(rng.integers(-1, 2, size=n), rng.integers(1, 4, size=n)), digits)
        observe(run, "blocks", xb.tolist(), "float64", xb.shape, min_len=int(rng.integers(1, 4)),
                max_len=pyr.choice([None, 2, 3]), wrap=bool(rng.integers(2)), only_nonzero=bool(rng.integers(2)), digits=digits)


INT_DTYPES = {"int8": (-128, 127), "int16": (-(2**15), 2**15 - 1), "int32": (-(2**31), 2**31 - 1),
              "int64": (INT64_MIN, INT64_MAX), "uint8": (0, 255), "uint16": (0, 65535), "uint32": (0, 2**32 - 1),
              "uint64": (0, 2**64 - 1)}


def fits(row, dt):
    lo, hi = INT_DTYPES[dt]
    return all(lo <= v <= hi for v in row)


def mixed_dtype_rows(run):
    """
    boolean_rows on two arrays of DIFFERENT integer types.  Rows are drawn as Python ints; `a` gets the
    ones its type can hold, `b` the ones its type can hold, and each side also gets *aliases* of rows of
    the other side: one element moved by +-2^8 / 2^16 / 2^32 / 2^64, i.e. a different row that becomes
    equal to it if either array is cast to a narrower type or to the other signedness.
    """
    rng, pyr = run.rng, run.pyrng
    da, db = pyr.sample(list(INT_DTYPES), 2) if rng.random() < 0.85 else [pyr.choice(list(INT_DTYPES))] * 2
    c = pyr.choice([1, 2, 2, 3, 4, 5])

    def pool(dt):
        lo, hi = INT_DTYPES[dt]
        return [lo, lo + 1, hi - 1, hi, (lo + hi) // 2, (lo + hi) // 2 + 1]

    values = pool(da) + pool(db) + [0, 1, 2, 3, -1, -2, 7] * 3
    rows = [[pyr.choice(values) for _ in range(c)] for _ in range(int(rng.integers(3, 9)))]
    rows += [[int(rng.integers(0, 4)) for _ in range(c)] for _ in range(3)]
    A = [r for r in rows if fits(r, da)]
    B = [r for r in rows if fits(r, db) and rng.random() < 0.7]
    for src, dst, ddst in ((A, B, db), (B, A, da)):
        for r in list(src):
            for _ in range(2):
                q = list(r)
                q[int(rng.integers(c))] += pyr.choice([1, -1]) * (1 << pyr.choice([8, 16, 32, 64]))
                if fits(q, ddst):
                    dst.append(q)
    if not A or not B:
        return
    pyr.shuffle(A)
    pyr.shuffle(B)
    run.state("boolean_rows_dtypes", (da, db))
    for op in ("intersect1d", "setdiff1d"):
        observe(run, "boolean_rows", A, da, (len(A), c), b=B, b_shape=[len(B), c], b_dtype=db, operation=op)


def narrow_1d(run):
    """The 1-D primitives on every integer type, values at both ends of the type's range."""
    rng, pyr = run.rng, run.pyrng
    dt = pyr.choice(list(INT_DTYPES))
    lo, hi = INT_DTYPES[dt]
    mid = (lo + hi + 1) // 2
    q = (hi - lo + 1) // 4
    pool = [lo, lo + 1, hi - 1, hi, mid, mid + 1, mid - 1, mid - q, mid + q, mid + 5]
    n = int(rng.integers(2, 12))
    col = [pyr.choice(pool) for _ in range(n)]
    col = [v for v in col for _ in range(int(rng.integers(1, 3)))]
    n = len(col)
    run.state("narrow_1d_dtype", dt)
    observe(run, "merge_runs", col, dt, (n,), digits=pyr.choice([None, None, 0, -1, -3, 2]))
    observe(run, "group", col, dt, (n,), min_len=pyr.choice([None, 1, 2]), max_len=pyr.choice([None, 2, 3]))
    observe(run, "unique_ordered", col, dt, (n,), return_index=True, return_inverse=True)
    observe(run, "blocks", col, dt, (n,), min_len=int(rng.integers(1, 3)), wrap=bool(rng.integers(2)),
            only_nonzero=bool(rng.integers(2)))
    observe(run, "group_min", [v % 3 for v in col], "int64", (n,), b=col, b_shape=[n], b_dtype=dt)
    observe(run, "group_min", col, dt, (n,), b=[(5 * i) % 7 for i in range(n)], b_shape=[n], b_dtype="int64")
    if dt == "uint64":
        row_suite(run, col, dt, (n,), "1d_uint64")
        if n % 2 == 0:
            row_suite(run, col, dt, (n // 2, 2), "uint64")


# lengths on both sides of the sizes where an implementation may switch strategy or reuse a buffer
LONG_LENGTHS = (257, 1023, 2047, 2049, 4095, 4096, 4097, 5000, 8191, 8193, 12289, 16385, 20001)


def gen_rle(rng, pyr, n):
    """Run-length description of a length-n array: few long runs or many short ones, ends often equal."""
    vals = [0, 1, 2, 5, -2]
    style = pyr.choice(["few", "few", "few", "many"])
    if style == "many":
        lens = []
        while sum(lens) < n:
            lens.append(int(rng.integers(1, 40)))
        lens[-1] -= sum(lens) - n
    else:
        r = int(rng.integers(2, 9))
        head = pyr.choice([1, 2, int(rng.integers(3, 12)), n // 2, max(1, n - 20 - r)])
        tail = int(rng.integers(1, 12))
        body = max(0, n - head - tail)
        if body < r:
            head, body = max(1, n - tail - r), min(n - 1 - tail, r)
        cuts = sorted(set(int(x) for x in rng.integers(1, max(2, body), size=r - 1))) if body > 1 else []
        inner = [b - a for a, b in zip([0] + cuts, cuts + [body])] if body > 0 else []
        lens = [head] + [x for x in inner if x > 0] + [tail]
        lens[-1] += n - sum(lens)
    lens = [x for x in lens if x > 0]
    out, prev = [], None
    for x in lens:
        v = pyr.choice([w for w in vals if w != prev])
        out.append([v, x])
        prev = v
    if len(out) > 2 and rng.random() < 0.75 and out[-2][0] != out[0][0]:
        out[-1][0] = out[0][0]
    return out


def long_suite(run, n, dtype="int64"):
    rng, pyr = run.rng, run.pyrng
    rle = gen_rle(rng, pyr, n)
    n = sum(c for _, c in rle)
    head, tail = rle[0][1], rle[-1][1]
    run.state("long_input", ("len>4096" if n > 4096 else "len<=4096", "ends_equal" if rle[0][0] == rle[-1][0] else "ends_differ",
                             "head_long" if head > 100 else "head_short"))
    joined = head + tail
    grid = [(1, None, True, False), (1, None, True, True), (2, pyr.choice([None, joined, joined - 1]), True, False),
            (pyr.choice([1, joined, joined + 1]), None, bool(rng.integers(2)), bool(rng.integers(2)))]
    for mn, mx, wrap, nz in grid:
        observe(run, "blocks", None, dtype, (n,), rle=rle, min_len=mn, max_len=mx, wrap=wrap, only_nonzero=nz)
    observe(run, "merge_runs", None, dtype, (n,), rle=rle)
    observe(run, "group", None, dtype, (n,), rle=rle, min_len=pyr.choice([None, 2]), max_len=None)
    observe(run, "unique_ordered", None, dtype, (n,), rle=rle, return_index=True, return_inverse=True)
    run.count("long_inputs")


def long_inputs(run):
    """
    Histories of calls on long inputs: lengths ascending (every call is the longest so far), then
    descending / random (every call is shorter than something seen before).
    """
    rng = run.rng
    for n in LONG_LENGTHS:
        for _ in range(2):
            long_suite(run, n + int(rng.integers(0, 3)))
    for n in sorted((int(x) for x in rng.integers(300, 20000, size=4)), reverse=True):
        long_suite(run, n)


def workload(run):
    fixed_cases(run)
    review_classes(run)
    long_inputs(run)
    lmax = 6 if run.tier == "quick" else 8
    idx, mine, complete = 0, 0, True
    for L in range(1, lmax + 1):
        for arr in itertools.product((0, 1, 2), repeat=L):
            idx += 1
            if not run.mine(idx):
                continue
            exhaustive_suite(run, arr)
            mine += 1
            # lengths <= 5 are a fixed amount of work (363 arrays): only the watchdog may cut them
            if mine % 16 == 0 and run.out_of_time(0.6 if L > 5 else 3.0):
                complete = False
                break
        if not complete:
            break
        run.count("exhaustive_len%d_shards_complete" % L)
    run.note("exhaustive_arrays_enumerated", idx)
    if not complete:
        run.count("exhaustive_cut_short_shards")
        if L <= 5:
            run.inconclusive("exhaustive arrays of length <= 5 cut short by the watchdog")
    rounds = 0
    while rounds < 40 or not run.out_of_time(0.92):
        rounds += 1
        for _ in range(20):
            random_rows(run)
    run.count("random_row_rounds", rounds)


def replay(run, case):
    fn = case.get("fn")
    if fn in CHECKERS:
        clean = {k: v for k, v in case.items() if k not in ("got", "want", "rows", "unique", "inverse")}
        CHECKERS[fn](run, clean)
