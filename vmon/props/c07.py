"""
C07 - re-indexing operations never move triangles or misalign attached data.

Monitor shape: independent oracle on each execution, by PROVENANCE TAGGING.  Every vertex
and face of a generated mesh carries its own index several times over:

    face_attributes['id'], face_attributes['tag2'] (2-D), id-encoding RGBA face colours
    vertex_attributes['id'], vertex_attributes['pos'] (2-D copy of the position),
    id-encoding vertex colours, or UVs of a TextureVisuals (pixel centre of the vertex'
    "uv group" + id * 1e-7, so every UV row is unique and decodes to the vertex)

(one visual kind per pass, since a mesh has one at a time), optionally with face / vertex
normals cached or vertex normals assigned before the operation.  After the operation the ids
say which old face / vertex each survivor is, and plain numpy compares

  * corner positions      new triangles[k] == old triangles[id_k], corner by corner, within
                          10**-digits_vertex (1e-8 by default) for merging operations, exactly
                          otherwise; up to corner permutation only for process(validate=True)
  * corner identity       for non-merging operations the vertex under corner c of face k is
                          the *same* old vertex; for merges it is a vertex of the same rounding
                          cell (and same UV / normal cell unless merge_tex / merge_norm)
  * order                 the surviving face ids equal the ids selected by the mask in mask
                          order (exactly known for masks), strictly increasing otherwise
  * alignment             every attached array still decodes to the id of its row
  * index range           0 <= faces < len(vertices)
  * multiset              split(only_watertight=False, repair=False) partitions the faces and
                          concatenating the parts reproduces the triangle multiset exactly

Operations that hand out NEW meshes (split, submesh, concatenate) are also run as one step of a
caller's history: the returned meshes are edited in place (moved, thinned, inverted,
re-coloured ...), or the source gets its visual, and the same call is made again on the
unmodified source (keywords in another order, or on mesh.copy(include_cache=True)); every result is
judged by the same oracle and the source must not have changed with the edits.

Magnitude class ("far"): the same integer meshes in large units / far from the origin, on both
sides (10x gap) of the point where |x| * 10**digits leaves int64 (input class
coords_overflow_int64_grid in the key) and of the point where it is no longer a finite double
(coords_overflow_float64_scaling).

Round 4 additions:
  * data the operation must CARRY (not only keep aligned): face_attributes / vertex_attributes
    of the meshes handed out by submesh / split / concatenate (sym attributes_dropped, else the
    usual *_attr_misaligned); vertex normals ASSIGNED by the caller across operations that only
    re-index vertices - merge (unless merge_norm=True), remove_unreferenced_vertices,
    update_vertices that keeps every referenced vertex, remove_infinite_values / process
    (validate=False) when no face goes (sym stored_vertex_normals_dropped).  Where faces are
    removed or re-wound stored normals may be dropped as before (the library has one slot for
    stored and computed normals and computed ones would be stale).
  * assigned normals keep deciding what merge_norm=False may merge under process(validate=True)
  * per-face data of texture visuals: TextureVisuals.face_materials (MultiMaterial, with and
    without UV rows - the glTF loader builds the latter for merge_primitives=True)
  * option repair: repair=False (the default of the monitor) -> every returned triangle is a
    triangle of the source (sym faces_not_in_source); repair=True -> new faces may be appended
    after the survivors, which are judged as always

Round 5 additions:
  * state "derived values read before the operation" (params reads="derived", every in-place
    operation in one of the two passes over a mesh): the caller has looked at triangles, edges,
    face_adjacency, vertex_faces, bounds ... so they sit in the cache.  After EVERY in-place
    operation what the mesh reports (mesh.triangles, mesh.edges; with reads also edges_sorted /
    edges_unique / face_adjacency / vertex_faces / referenced_vertices / bounds / faces_sparse /
    area_faces) is compared with plain numpy on the vertex and face arrays it holds now
    (sym reported_<attribute>_wrong, reads=before in the key)
  * concatenation of three to five textured inputs whose materials RECUR non-contiguously
    (A B A, A B A B, A B C A: equal materials are packed once, the UV rows still belong to the
    inputs in input order; materials=recurring in the key) and the routes Scene.to_mesh() /
    Scene.dump(concatenate=True) next to util.concatenate / a + b (all visual kinds)
"""

from __future__ import annotations

import itertools

import numpy as np

PROP = "C07"
LEVEL = "exploration"
RULE = (
    "one case = one re-indexing operation (with its option combination / mask) executed on one "
    "provenance-tagged mesh: closed integer meshes and soups decorated with exact / within-tolerance "
    "(1e-9) / outside-tolerance (1e-6) duplicate vertices, unreferenced vertices, repeated and "
    "degenerate faces, NaN/inf coordinates; x visual kind (none/face/vertex/texture/texture with one material index per face) x normals "
    "(cold/computed/assigned); the meshes also placed at scale 1e6..1e15, 1e298, 1e302 / offset 1e12..1e15; submesh / split with hole repair off and on; split / submesh / "
    "concatenate also repeated after the caller edited the earlier result in place; in-place operations with and without the derived values "
    "(triangles, edges, adjacency ...) read before; concatenation by util.concatenate / a + b / Scene.to_mesh / Scene.dump with one, distinct and recurring (A B A) texture materials. distinct = distinct (operation, options, mask, visual, normals, "
    "mesh bytes); non-trivial = the operation changed the face or vertex arrays (or produced "
    "new meshes) so that a mis-indexing was possible."
)
ANCHORS = [
    "trimesh/grouping.py:merge_vertices",
    "trimesh/base.py:Trimesh.update_vertices",
    "trimesh/base.py:Trimesh.update_faces",
    "trimesh/base.py:Trimesh.remove_unreferenced_vertices",
    "trimesh/base.py:Trimesh.unmerge_vertices",
    "trimesh/base.py:Trimesh.remove_infinite_values",
    "trimesh/base.py:Trimesh.unique_faces",
    "trimesh/base.py:Trimesh.nondegenerate_faces",
    "trimesh/base.py:Trimesh.process",
    "trimesh/triangles.py:nondegenerate",
    "trimesh/util.py:submesh",
    "trimesh/util.py:append_faces",
    "trimesh/util.py:concatenate",
    "trimesh/graph.py:split",
    "trimesh/visual/color.py:ColorVisuals._update_key",
    "trimesh/visual/color.py:ColorVisuals.face_subset",
    "trimesh/visual/texture.py:TextureVisuals.update_vertices",
    "trimesh/visual/texture.py:TextureVisuals.face_subset",
    "trimesh/visual/objects.py:concatenate",
]
SHARDS = {"quick": 1, "thorough": 8}
BUDGET = {"quick": 45, "thorough": 300}
MIN_EVENTS = {"quick": 1500, "thorough": 10000}
ASSUMPTIONS = [
    "numpy fancy indexing, cross products and byte comparison are correct",
    "ids fit the encodings: < 2**24 faces/vertices for colours, < 1024 vertices for UVs",
    "a face that references a vertex removed by the caller's own vertex mask is judged under the "
    "separate input class drops_referenced_vertices (it cannot keep its corner)",
    "which faces unique_faces / nondegenerate_faces select is not part of the statement (only "
    "what happens to survivors); differences from a first-occurrence reference are evidence only",
    "fresh Trimesh(process=False).vertex_normals is trusted as the recomputed vertex normal, for vertices whose "
    "faces are all clearly non-degenerate and do not cancel",
    "TextureVisuals.face_materials of a MultiMaterial WITH uv rows (no loader builds it) is not followed through "
    "submesh(append=True) / concatenate: stacking goes through material.pack, which takes single materials",
]
EXHAUSTIVE = {"quick": False, "thorough": False}

VISUALS = ("none", "face", "vertex", "texture",
           # states of the colour visual reached by a history rather than by assignment:
           "face:default_edited",    # no colours assigned; the default face colours read and edited IN PLACE
           "vertex:default_edited",  # the same for the default vertex colours
           "vertex:face_read",       # vertex colours assigned, the derived face colours read (cached) before the operation
           # per-face data of a texture visual: one material index per face (what the glTF loader
           # builds for merge_primitives=True), with the usual id-encoding UVs and without any UV
           "texture:face_materials",
           "texture:face_materials_nouv")
NORMALS = ("cold", "computed", "assigned")
IMG = 32  # texture is IMG x IMG pixels, one per uv group
NMAT = 5  # materials of the MultiMaterial; face i uses material i % NMAT
_MATERIALS = []


def _materials():
    """NMAT distinguishable materials (shared: nothing edits them)."""
    if not _MATERIALS:
        from trimesh.visual.material import PBRMaterial

        for i in range(NMAT):
            _MATERIALS.append(PBRMaterial(name="m%d" % i, baseColorFactor=[40 * i + 20, 255 - 40 * i, 17 * i, 255]))
    return list(_MATERIALS)

_DIRS = np.array(
    [[1, 0, 0], [-1, 0, 0], [0, 1, 0], [0, -1, 0], [0, 0, 1], [0, 0, -1]]
    + [[a, b, c] for a in (1, -1) for b in (1, -1) for c in (1, -1)],
    dtype=np.float64,
)
_DIRS /= np.linalg.norm(_DIRS, axis=1)[:, None]


# ----------------------------------------------------------------------------
# id encodings


def enc(ids):
    ids = np.asarray(ids, dtype=np.int64) + 1
    c = np.empty((len(ids), 4), dtype=np.uint8)
    c[:, 0] = ids & 255
    c[:, 1] = (ids >> 8) & 255
    c[:, 2] = (ids >> 16) & 255
    c[:, 3] = 255
    return c


def dec(col):
    col = np.asarray(col)
    if col.ndim != 2 or col.shape[1] < 3:
        return None
    col = col.astype(np.int64)
    return col[:, 0] + (col[:, 1] << 8) + (col[:, 2] << 16) - 1


def _image(variant=0):
    from PIL import Image

    ids = np.arange(IMG * IMG).reshape(IMG, IMG)
    px = np.zeros((IMG, IMG, 3), dtype=np.uint8)
    px[..., 0] = ids & 255
    px[..., 1] = (ids >> 8) & 255
    px[..., 2] = 40 + 60 * variant
    # every uv group owns a 3x3 block of equal texels and UVs point at the centre texel, so
    # a one-texel rounding difference in an atlas re-packing still samples the same id
    px = np.repeat(np.repeat(px, 3, axis=0), 3, axis=1)
    return Image.fromarray(px, "RGB")


def uv_of_group(g, ids):
    g = np.asarray(g, dtype=np.int64) % (IMG * IMG)
    r, c = np.divmod(g, IMG)
    uv = np.column_stack([(c + 0.5) / IMG, 1.0 - (r + 0.5) / IMG]).astype(np.float64)
    uv += (np.asarray(ids, dtype=np.float64) * 1e-7)[:, None]
    return uv


# ----------------------------------------------------------------------------
# tagged meshes


class Tagged:
    """Arrays of one generated mesh + everything needed to rebuild it exactly."""

    def __init__(self, V, F, uvg=None, ng=None, tag="", feats=()):
        self.V = np.array(V, dtype=np.float64).reshape(-1, 3)
        self.F = np.array(F, dtype=np.int64).reshape(-1, 3)
        self.nv, self.nf = len(self.V), len(self.F)
        self.uvg = np.arange(self.nv) if uvg is None else np.asarray(uvg, dtype=np.int64)
        self.ng = (np.arange(self.nv) % len(_DIRS)) if ng is None else np.asarray(ng, dtype=np.int64)
        self.tag = tag
        self.feats = tuple(sorted(feats))
        ids = np.arange(self.nv)
        self.uv = uv_of_group(self.uvg, ids)
        self.vn = _DIRS[self.ng % len(_DIRS)].copy()
        self.vn[:, 0] += ids * 1e-7
        self.fcol = enc(np.arange(self.nf))
        self.vcol = enc(ids)
        ref = np.zeros(self.nv, dtype=bool)
        if self.nf:
            ref[self.F.reshape(-1)] = True
        self.referenced = ref
        self.finite_v = np.isfinite(self.V).all(axis=1)

    def to_case(self):
        return {
            "V": [[_f2j(x) for x in row] for row in self.V.tolist()],
            "F": self.F.tolist(),
            "uvg": self.uvg.tolist(),
            "ng": self.ng.tolist(),
            "tag": self.tag,
            "feats": list(self.feats),
        }

    @staticmethod
    def from_case(d):
        V = np.array([[_j2f(x) for x in row] for row in d["V"]], dtype=np.float64).reshape(-1, 3)
        return Tagged(V, d["F"], d.get("uvg"), d.get("ng"), d.get("tag", ""), d.get("feats", ()))

    def digest(self):
        return (self.V.tobytes(), self.F.tobytes(), self.uvg.tobytes(), self.ng.tobytes())

    def apply_visual(self, m, visual, image_variant=0):
        """Attach the id-encoding visual to a mesh that holds this object's arrays."""
        from trimesh.visual.texture import TextureVisuals

        visual, _, vstate = visual.partition(":")
        if visual == "face":
            if vstate == "default_edited" and self.nf:
                fc = m.visual.face_colors
                fc[:] = self.fcol  # edited in place, not read again before the operation
            else:
                m.visual.face_colors = self.fcol.copy()
        elif visual == "vertex":
            if vstate == "default_edited" and self.nv:
                vc = m.visual.vertex_colors
                vc[:] = self.vcol
            else:
                m.visual.vertex_colors = self.vcol.copy()
            if vstate == "face_read":
                _ = m.visual.face_colors
        elif visual == "texture" and vstate.startswith("face_materials"):
            from trimesh.visual.material import MultiMaterial

            m.visual = TextureVisuals(uv=None if vstate.endswith("nouv") else self.uv.copy(),
                                      material=MultiMaterial(materials=_materials()),
                                      face_materials=(np.arange(self.nf) % NMAT).tolist())
        elif visual == "texture":
            m.visual = TextureVisuals(uv=self.uv.copy(), image=_image(image_variant))

    def build(self, visual, normals, image_variant=0):
        import trimesh

        m = trimesh.Trimesh(vertices=self.V.copy(), faces=self.F.copy(), process=False)
        m.face_attributes["id"] = np.arange(self.nf)
        m.face_attributes["tag2"] = np.column_stack([np.arange(self.nf), -np.arange(self.nf)])
        m.vertex_attributes["id"] = np.arange(self.nv)
        m.vertex_attributes["pos"] = self.V.copy()
        self.apply_visual(m, visual, image_variant)
        if normals == "computed":
            _ = m.face_normals
            _ = m.vertex_normals
        elif normals == "assigned":
            _ = m.face_normals
            m.vertex_normals = self.vn.copy()
        return m


def _f2j(x):
    x = float(x)
    if x != x:
        return "nan"
    if x in (float("inf"), float("-inf")):
        return repr(x)
    return x.hex()


def _j2f(x):
    if isinstance(x, str):
        if x in ("nan", "inf", "-inf"):
            return float(x)
        return float.fromhex(x)
    return float(x)


PLACEMENTS = ("scale_1e6", "scale_1e12", "scale_1e15", "offset_1e12", "offset_1e15",
              # finite coordinates on both sides (>= 10x gap) of the point where |x| * 10**8 is no
              # longer a finite double (1.8e300); every product the meshes need stays finite
              "scale_1e298", "scale_1e302")
SOUP_TAGS = ("fan", "bowtie", "moebius", "open_grid", "soup")
FEATURES = ("dup_exact", "dup_within", "dup_outside", "unref", "repeat", "degenerate", "nonfinite_unref", "nonfinite_ref")


def decorate(rng, V, F, feats, tag=""):
    """Add the requested hostile features to an integer mesh (V, F)."""
    V = np.array(V, dtype=np.float64)
    F = np.array(F, dtype=np.int64)
    if "far" in feats:
        # magnitude class: the same integer mesh in large units or far from the origin (every
        # value stays exactly representable).  Around |x| * 10**digits = 2**63 the integer grid
        # merge_vertices rounds to runs out; the placements keep a 10x gap on either side of
        # that for the default 8 digits (scale_1e6 is the "still fine" control).
        kind = PLACEMENTS[int(rng.integers(len(PLACEMENTS)))]
        how, _, mag = kind.partition("_")
        if how == "scale":
            V = V * float(mag)
        else:
            V[:, int(rng.integers(3))] += float(mag)
        feats = tuple(f for f in feats if f != "far") + ("far:" + kind,)
    nv0 = len(V)
    uvg = list(range(nv0))
    ng = [int(x) for x in rng.integers(0, len(_DIRS), size=nv0)]
    Vl = [v for v in V]

    def add_vertex(p, g_uv, g_n):
        Vl.append(np.asarray(p, dtype=np.float64))
        uvg.append(int(g_uv))
        ng.append(int(g_n))
        return len(Vl) - 1

    next_group = [nv0 + 1000]

    def fresh_group():
        next_group[0] += 1
        return next_group[0]

    dup_kinds = [k for k in ("dup_exact", "dup_within", "dup_outside") if k in feats]
    if dup_kinds and len(F):
        used = np.unique(F)
        k = int(rng.integers(1, max(2, min(len(used), 8)) + 1))
        for b in rng.choice(used, size=min(k, len(used)), replace=False):
            kind = dup_kinds[int(rng.integers(len(dup_kinds)))]
            off = np.zeros(3)
            if kind != "dup_exact":
                mag = 1e-9 if kind == "dup_within" else 1e-6
                while not off.any():
                    off = rng.integers(-1, 2, size=3) * mag
            # same or different uv / normal group than the vertex it duplicates
            g_uv = uvg[b] if rng.random() < 0.5 else fresh_group()
            g_n = ng[b] if rng.random() < 0.5 else (ng[b] + 1 + int(rng.integers(len(_DIRS) - 1))) % len(_DIRS)
            idx = add_vertex(Vl[b] + off, g_uv, g_n)
            corners = np.argwhere(F == b)
            take = rng.random(len(corners)) < 0.5
            if not take.any():
                take[int(rng.integers(len(corners)))] = True
            for r, c in corners[take]:
                F[r, c] = idx
    if "degenerate" in feats and len(F):
        extra = []
        for _ in range(int(rng.integers(1, 4))):
            f = F[int(rng.integers(len(F)))]
            a, b, c = int(f[0]), int(f[1]), int(f[2])
            kind = int(rng.integers(4))
            if kind == 0:
                extra.append([a, a, b])
            elif kind == 1:
                extra.append([c, c, c])
            elif kind == 2:  # collinear with three distinct indices
                mid = add_vertex((Vl[a] + Vl[b]) / 2.0, fresh_group(), ng[a])
                extra.append([a, mid, b])
            else:  # zero-length edge between a vertex and its exact copy
                twin = add_vertex(Vl[a].copy(), uvg[a], ng[a])
                extra.append([a, twin, b])
        F = np.vstack([F, np.array(extra, dtype=np.int64)])
    if "repeat" in feats and len(F):
        extra = []
        for _ in range(int(rng.integers(1, 4))):
            f = F[int(rng.integers(len(F)))]
            kind = int(rng.integers(3))
            extra.append(f if kind == 0 else (np.roll(f, 1) if kind == 1 else f[::-1]))
        F = np.vstack([F, np.array(extra, dtype=np.int64)])
    if "unref" in feats:
        for _ in range(int(rng.integers(1, 4))):
            if rng.random() < 0.4 and len(Vl):
                b = int(rng.integers(len(Vl)))
                add_vertex(Vl[b].copy(), uvg[b], ng[b])
            else:
                add_vertex(rng.integers(-9, 10, size=3).astype(np.float64), fresh_group(), int(rng.integers(len(_DIRS))))
    bad = (np.nan, np.inf, -np.inf)
    if "nonfinite_unref" in feats:
        for _ in range(int(rng.integers(1, 3))):
            p = rng.integers(-9, 10, size=3).astype(np.float64)
            p[int(rng.integers(3))] = bad[int(rng.integers(3))]
            add_vertex(p, fresh_group(), int(rng.integers(len(_DIRS))))
    if "nonfinite_ref" in feats and len(F):
        used = np.unique(F)
        for b in rng.choice(used, size=min(len(used), int(rng.integers(1, 3))), replace=False):
            Vl[b] = Vl[b].copy()
            axis = int(rng.integers(3))
            Vl[b][axis] = bad[int(rng.integers(3))]
            if rng.random() < 0.6:
                # the finite "shadow" of the broken vertex - equal in the other coordinates, a plain
                # number where the other one is NaN/inf - is a referenced vertex too: a merge that
                # loses the non-finite entry on the way to its row hash welds the two
                shadow = Vl[b].copy()
                shadow[axis] = (0.0, 0.0, -0.0, 1.0, -1.0)[int(rng.integers(5))]
                idx = add_vertex(shadow, fresh_group(), ng[b])
                f = F[int(rng.integers(len(F)))].copy()
                f[int(rng.integers(3))] = idx
                F = np.vstack([F, f[None, :]])
    V = np.array(Vl, dtype=np.float64).reshape(-1, 3)
    uvg = np.array(uvg, dtype=np.int64)
    ng = np.array(ng, dtype=np.int64)
    # relabel vertices and reorder faces so that nothing depends on "extras come last"
    if rng.random() < 0.6 and len(V):
        p = rng.permutation(len(V))  # new index i holds old vertex p[i]
        inv = np.empty(len(V), dtype=np.int64)
        inv[p] = np.arange(len(V))
        V, uvg, ng = V[p], uvg[p], ng[p]
        F = inv[F]
    if rng.random() < 0.6 and len(F):
        F = F[rng.permutation(len(F))]
    return Tagged(V, F, uvg, ng, tag=tag, feats=feats)


def base_meshes(rng, count):
    """(tag, V, F) integer meshes: closed surfaces and soups."""
    from vmon.gen import mesh as G

    for item in G.closed_meshes(rng, count=count):
        yield item
    F, n = G.fan(4)
    yield ("fan", rng.integers(-6, 7, size=(n, 3)), F)
    F, n = G.bowtie()
    yield ("bowtie", rng.integers(-6, 7, size=(n, 3)), F)
    F, n = G.moebius(6)
    yield ("moebius", rng.integers(-8, 9, size=(n, 3)), F)
    V, F = G.open_grid(3, 2)
    yield ("open_grid", V, F)
    for _ in range(max(2, count // 3)):
        F, n = G.random_soup(rng, nverts=int(rng.integers(3, 16)), nfaces=int(rng.integers(1, 30)))
        yield ("soup", rng.integers(-9, 10, size=(n, 3)), F)


# ----------------------------------------------------------------------------
# the oracle


def grid_class(T, digits):
    """
    Input class of a merge: '' or ' input=coords_overflow_int64_grid' when some finite coordinate
    times 10**digits does not fit the int64 the positions are rounded to.
    """
    V = T.V[np.isfinite(T.V)]
    if len(V):
        with np.errstate(over="ignore"):
            top = float(np.abs(V).max()) * 10.0 ** digits
        if not np.isfinite(top):
            # the scaling itself overflows: finite coordinates times 10**digits are +-inf
            return " input=coords_overflow_float64_scaling"
        if top >= 2.0 ** 63:
            return " input=coords_overflow_int64_grid"
    return ""


def _same(a, b):
    """bitwise-equal floats, NaN == NaN."""
    a = np.asarray(a, dtype=np.float64)
    b = np.asarray(b, dtype=np.float64)
    if a.shape != b.shape:
        return np.zeros(max(len(a), len(b)), dtype=bool) if a.ndim else False
    return (a == b) | (np.isnan(a) & np.isnan(b))


def _close(P, Q, tol, lenient_nonfinite=False):
    P = np.asarray(P, dtype=np.float64)
    Q = np.asarray(Q, dtype=np.float64)
    with np.errstate(invalid="ignore"):
        ok = (P == Q) | (np.isnan(P) & np.isnan(Q)) | (np.abs(P - Q) <= tol)
    if lenient_nonfinite:
        ok |= ~np.isfinite(P) & ~np.isfinite(Q)
    return ok


_PERMS = list(itertools.permutations(range(3)))


def true_normals(T):
    """(normals, valid) by plain cross products; valid = finite and clearly non-degenerate."""
    T = np.asarray(T, dtype=np.float64)
    with np.errstate(invalid="ignore", over="ignore"):
        n = np.cross(T[:, 1] - T[:, 0], T[:, 2] - T[:, 0])
        L = np.linalg.norm(n, axis=1)
        valid = np.isfinite(T).all(axis=(1, 2)) & np.isfinite(L) & (L > 1e-3)
        out = np.zeros_like(n)
        out[valid] = n[valid] / L[valid][:, None]
    return out, valid


def canon_triangles(T):
    """multiset key: each triangle rotated so its smallest corner (bytes order) is first."""
    out = []
    for t in np.asarray(T, dtype=np.float64):
        rows = [t[i].tobytes() for i in range(3)]
        k = min(range(3), key=lambda i: rows[i])
        out.append(rows[k] + rows[(k + 1) % 3] + rows[(k + 2) % 3])
    return sorted(out)


class Ctx:
    """One observed execution: where to report."""

    def __init__(self, run, T, visual, normals, op, params):
        self.run, self.T, self.normals, self.op, self.params = run, T, normals, op, params
        # "face:default_edited" -> kind "face" reached through the state "default_edited"
        self.visual_full = visual
        self.visual, _, self.vstate = visual.partition(":")
        # texture visuals: are there UV rows to follow / one material index per face to follow
        self.has_uv = self.visual == "texture" and not self.vstate.endswith("nouv")
        self.has_fm = self.visual == "texture" and self.vstate.startswith("face_materials")
        self.failed = []

    def case_dict(self, extra=None):
        d = {"mesh": self.T.to_case(), "visual": self.visual_full, "normals": self.normals,
             "op": self.op, "params": self.params}
        if extra:
            d["observed"] = extra
        return d

    def fail(self, sym, what, detail=None, opt=""):
        if sym in OPTION_FREE_SYMS:
            # symptoms of data that the operation does not carry at all: masks, merge options,
            # histories play no part, one key per operation
            opt = ""
        if sym == "merged_across_normal":
            # which normals keep vertices apart has nothing to do with the magnitude class
            opt = " ".join(w for w in opt.split() if not w.startswith("input=coords_overflow"))
        key = "op=%s%s sym=%s" % (self.op, (" " + opt) if opt else "", sym)
        if sym == "face_materials_misaligned":
            key += " visual=texture:face_materials"  # with or without UV rows
        elif sym in VISUAL_SYMS or sym.startswith("visual_kind_"):
            key += " visual=%s" % self.visual_full
        self.failed.append(sym)
        self.run.violation(key, what, self.case_dict(detail))

    def blocking(self):
        """symptoms that make a follow-up history pointless (the known 'not carried' ones do not)"""
        return [s for s in self.failed if s not in OPTION_FREE_SYMS]


VISUAL_SYMS = {
    "face_colour_misaligned", "vertex_colour_misaligned", "uv_misaligned", "visual_kind_changed",
    "visual_length", "texture_colour_changed",
}
OPTION_FREE_SYMS = {
    "stored_vertex_normals_dropped",  # assigned vertex normals gone after a vertex re-indexing
    "attributes_dropped",             # face_attributes / vertex_attributes absent from a new mesh
    "face_materials_misaligned",      # TextureVisuals.face_materials not following the faces
}


def check_faces(cx, Vn, Fn, src_face, tol, rewind_ok=False, lenient_nonfinite=False, opt="",
                dropped_vertices=None):
    """
    Positions, corner by corner.  Returns the per-face corner permutation applied to the new
    faces (identity unless rewind_ok) or None when the check could not continue.
    """
    T = cx.T
    Fn = np.asarray(Fn).reshape(-1, 3)
    if len(Fn) == 0:
        return np.zeros((0, 3), dtype=np.int64)
    if Fn.min() < 0 or Fn.max() >= len(Vn):
        cx.fail("index_range", "faces index vertices that do not exist",
                {"faces_min": int(Fn.min()), "faces_max": int(Fn.max()), "len_vertices": int(len(Vn))}, opt)
        return None
    src_face = np.asarray(src_face, dtype=np.int64)
    if len(src_face) != len(Fn) or (len(src_face) and (src_face.min() < 0 or src_face.max() >= T.nf)):
        cx.fail("face_id_invalid", "face ids after the operation are not ids of original faces",
                {"ids": src_face[:20], "n_faces_after": int(len(Fn))}, opt)
        return None
    Q = T.V[T.F[src_face]]  # old corners
    P = np.asarray(Vn, dtype=np.float64)[Fn]
    perm = np.tile(np.arange(3), (len(Fn), 1))
    ok = _close(P, Q, tol, lenient_nonfinite).all(axis=(1, 2))
    if rewind_ok and not ok.all():
        for k in np.nonzero(~ok)[0]:
            for p in _PERMS:
                if _close(P[k][list(p)], Q[k], tol, lenient_nonfinite).all():
                    perm[k] = p
                    ok[k] = True
                    break
    if not ok.all():
        bad = np.nonzero(~ok)[0]
        k = int(bad[0])
        oldv = T.F[src_face[k]]
        sym = "corner_moved"
        if not T.finite_v[oldv].all():
            sym = "corner_of_nonfinite_vertex_repointed"
        elif dropped_vertices is not None and dropped_vertices[oldv].any():
            sym = "corner_of_masked_vertex_repointed"
        cx.fail(sym, "a surviving face no longer has its three original corner positions",
                {"new_face": k, "old_face": int(src_face[k]), "new_corners": P[k], "old_corners": Q[k],
                 "n_bad": int(len(bad))}, opt)
        return None
    return perm


def check_face_normals(cx, m, opt=""):
    """Whatever face_normals the mesh reports must be the normals of its current triangles."""
    V = np.asarray(m.vertices)
    F = np.asarray(m.faces)
    if len(F) == 0:
        return
    try:
        fn = np.asarray(m.face_normals)
    except BaseException as e:  # noqa
        cx.fail("exception:face_normals:%s" % type(e).__name__, "reading face_normals after the operation raised", {"error": repr(e)[:200]}, opt)
        return
    N, valid = true_normals(V[F])
    if fn.shape != N.shape:
        cx.fail("face_normal_shape", "face_normals has the wrong shape after the operation", {"shape": list(fn.shape)}, opt)
        return
    bad = valid & (np.abs(fn - N).max(axis=1) > 1e-5)
    if bad.any():
        k = int(np.nonzero(bad)[0][0])
        flipped = np.abs(fn[bad] + N[bad]).max() <= 1e-5
        cx.fail("face_normal_sign_stale" if flipped else "face_normal_wrong",
                "face normal reported for a face is not the normal of its triangle",
                {"face": k, "reported": fn[k], "true": N[k], "n_bad": int(bad.sum())}, opt)


def check_vertex_normals(cx, m, src_vertex, opt="", rewind_ok=False, must_carry=False, tol=1e-9):
    """
    Rows are either the old normal of the same vertex (carried) or the recomputed normal.
    must_carry: the operation only re-indexes VERTICES (every face keeps its triangle) and the
    normals were ASSIGNED by the caller (data, like a colour): they stay attached, i.e. every
    row is the old row of that vertex.  Where faces are removed or re-wound the library cannot
    tell stored normals from computed ones (one cache slot) and computed ones would be stale, so
    dropping them there is accepted as before.
    """
    import trimesh

    if cx.normals == "cold" or len(m.vertices) == 0 or len(m.faces) == 0:
        return
    T = cx.T
    old = T.vn if cx.normals == "assigned" else cx.vn_before
    if old is None:
        return
    try:
        vn = np.asarray(m.vertex_normals)
    except BaseException as e:  # noqa
        cx.fail("exception:vertex_normals:%s" % type(e).__name__, "reading vertex_normals after the operation raised", {"error": repr(e)[:200]}, opt)
        return
    if vn.shape != np.asarray(m.vertices).shape:
        cx.fail("vertex_normal_shape", "vertex_normals has the wrong shape", {"shape": list(vn.shape)}, opt)
        return
    carried = _same(vn, old[src_vertex]).all(axis=1)
    if rewind_ok:
        # an inversion (fix_normals -> invert) negates stored vertex normals together with the winding
        carried |= _same(vn, -old[src_vertex]).all(axis=1)
    if carried.all():
        cx.run.count("vertex_normals_carried")
        return
    if must_carry and cx.normals == "assigned":
        w = int(np.nonzero(~carried)[0][0])
        cx.fail("stored_vertex_normals_dropped",
                "vertex normals assigned by the caller are gone after an operation that only re-indexes vertices",
                {"vertex": w, "reported": vn[w], "assigned_to_same_vertex": old[src_vertex[w]],
                 "n_rows_not_carried": int((~carried).sum()), "n_rows": int(len(vn))}, opt)
        return
    try:
        fresh = trimesh.Trimesh(np.array(m.vertices), np.array(m.faces), process=False).vertex_normals
    except BaseException:
        cx.run.count("vertex_normal_reference_failed")
        return
    ok = carried | _close(vn, fresh, tol).all(axis=1)
    # the recomputed reference is only meaningful where every face around the vertex is clearly
    # non-degenerate NOW: a merge within tolerance turns slivers (edge 1e-9) into degenerate
    # faces, and the library may still average the face normals it kept from before the merge
    # (below its documented resolution, not judged)
    Fm = np.asarray(m.faces, dtype=np.int64).reshape(-1, 3)
    _, valid = true_normals(np.asarray(m.vertices, dtype=np.float64)[Fm])
    # ... and where the face normals around the vertex do not cancel (two copies of a triangle
    # with opposite winding: the direction of a sum that is zero up to rounding is undefined)
    with np.errstate(invalid="ignore"):
        cancels = ~(np.linalg.norm(np.asarray(fresh, dtype=np.float64), axis=1) > 0.5)
    used = np.zeros(len(vn), dtype=bool)
    used[Fm.reshape(-1)] = True
    cancels &= used  # an unreferenced vertex has the zero normal, that IS defined
    if not valid.all() or cancels.any():
        unsure = cancels
        unsure[Fm[~valid].reshape(-1)] = True
        if (unsure & ~ok).any():
            cx.run.count("vertex_normals_next_to_degenerate_face_not_judged", int((unsure & ~ok).sum()))
        ok |= unsure
    cx.run.count("vertex_normals_recomputed")
    if not ok.all():
        w = int(np.nonzero(~ok)[0][0])
        cx.fail("vertex_normal_misaligned", "a vertex normal is neither the old normal of that vertex nor the recomputed one",
                {"vertex": w, "reported": vn[w], "old_of_same_vertex": old[src_vertex[w]], "recomputed": fresh[w]}, opt)


# derived values a caller may have looked at BEFORE the operation (state carried in the cache);
# none of them computes normals, so a mesh with normals="cold" stays cold
DERIVED = ("triangles", "edges", "edges_sorted", "edges_unique", "face_adjacency", "face_adjacency_edges",
           "vertex_faces", "faces_sparse", "referenced_vertices", "area_faces", "bounds", "triangles_center",
           "edges_face", "faces_unique_edges")


def read_derived(m, names=DERIVED):
    """The caller's reads; one that fails on a hostile mesh is the caller's problem."""
    n = 0
    for name in names:
        try:
            getattr(m, name)
            n += 1
        except BaseException as e:  # noqa
            if isinstance(e, KeyboardInterrupt):
                raise
    return n


def check_derived(cx, m, opt=""):
    """
    What the mesh REPORTS about its triangles after the operation - triangles, edges, adjacency,
    vertex -> face tables, bounds - must describe the vertex and face arrays it holds now (plain
    numpy on m.vertices / m.faces is the reference).  With reads="derived" the same values were
    read before the operation, so a value the operation did not forget is served again.
    """
    V = np.asarray(m.vertices, dtype=np.float64)
    F = np.asarray(m.faces, dtype=np.int64).reshape(-1, 3)
    nv, nf = len(V), len(F)
    if nf == 0 or nv == 0 or F.min() < 0 or F.max() >= nv:
        return
    if cx.params.get("reads"):
        opt = (opt + " " if opt else "") + "reads=before"

    def get(name):
        try:
            return True, getattr(m, name)
        except BaseException as e:  # noqa
            if isinstance(e, KeyboardInterrupt):
                raise
            cx.fail("exception:%s:%s" % (name, type(e).__name__), "reading mesh.%s after the operation raised" % name,
                    {"error": repr(e)[:200]}, opt)
            return False, None

    def bad(name, what, detail=None):
        d = {"attribute": name, "len_vertices": nv, "len_faces": nf}
        d.update(detail or {})
        cx.fail("reported_%s_wrong" % name, "mesh.%s after the operation %s" % (name, what), d, opt)

    ok, tri = get("triangles")
    if ok:
        tri = np.asarray(tri)
        if tri.shape != (nf, 3, 3):
            bad("triangles", "does not have one row per face", {"shape": list(tri.shape)})
        elif not _same(tri, V[F]).all():
            k = int(np.nonzero(~_same(tri, V[F]).all(axis=(1, 2)))[0][0])
            bad("triangles", "is not vertices[faces]: a triangle is reported somewhere else than its face is",
                {"face": k, "reported": tri[k], "vertices_of_face": V[F[k]]})
    E = F[:, [0, 1, 1, 2, 2, 0]].reshape(-1, 2)
    ok, e = get("edges")
    if ok and (np.shape(e) != E.shape or not np.array_equal(np.asarray(e), E)):
        bad("edges", "are not the edges of its faces", {"shape": list(np.shape(e))})
    if not cx.params.get("reads"):
        # nothing was cached before the operation: the rest is computed from scratch now, which
        # is other properties' business
        cx.run.count("derived_values_compared")
        return
    ok, e = get("edges_sorted")
    if ok and (np.shape(e) != E.shape or not np.array_equal(np.asarray(e), np.sort(E, axis=1))):
        bad("edges_sorted", "are not the sorted edges of its faces", {"shape": list(np.shape(e))})
    ok, e = get("edges_unique")
    if ok:
        e = np.asarray(e).reshape(-1, 2)
        want = np.unique(np.sort(E, axis=1), axis=0)
        if len(e) != len(want) or not np.array_equal(np.unique(np.sort(e, axis=1), axis=0), want):
            bad("edges_unique", "are not the unique edges of its faces", {"n": int(len(e)), "expected": int(len(want))})
    ok, adj = get("face_adjacency")
    if ok:
        adj = np.asarray(adj, dtype=np.int64).reshape(-1, 2)
        if len(adj) and (adj.min() < 0 or adj.max() >= nf):
            bad("face_adjacency", "names faces that do not exist", {"max": int(adj.max())})
        elif len(adj):
            Es = np.sort(F[:, [0, 1, 1, 2, 2, 0]].reshape(-1, 3, 2), axis=2)
            share = (Es[adj[:, 0]][:, :, None, :] == Es[adj[:, 1]][:, None, :, :]).all(axis=3).any(axis=(1, 2))
            if not share.all():
                k = int(np.nonzero(~share)[0][0])
                bad("face_adjacency", "pairs faces that share no edge", {"pair": adj[k], "faces": F[adj[k]]})
    ok, vf = get("vertex_faces")
    if ok:
        vf = np.asarray(vf, dtype=np.int64)
        if vf.ndim != 2 or len(vf) != nv or (vf.size and vf.max() >= nf):
            bad("vertex_faces", "is not a table of existing faces per vertex", {"shape": list(vf.shape)})
        elif vf.size:
            r, c = np.nonzero(vf >= 0)
            if not (F[vf[r, c]] == r[:, None]).any(axis=1).all():
                bad("vertex_faces", "lists a face for a vertex that is not a corner of it")
    ok, ref = get("referenced_vertices")
    if ok:
        mine = np.zeros(nv, dtype=bool)
        mine[F.reshape(-1)] = True
        if np.shape(ref) != (nv,) or not np.array_equal(np.asarray(ref, dtype=bool), mine):
            bad("referenced_vertices", "does not mark the vertices its faces use", {"shape": list(np.shape(ref))})
        elif np.isfinite(V[mine]).all():
            ok, b = get("bounds")
            if ok and (b is None or np.shape(b) != (2, 3)
                       or not np.array_equal(np.asarray(b), np.array([V[mine].min(axis=0), V[mine].max(axis=0)]))):
                bad("bounds", "are not the bounds of the vertices its faces use", {"reported": b})
    ok, sp = get("faces_sparse")
    if ok and tuple(getattr(sp, "shape", ())) != (nv, nf):
        bad("faces_sparse", "is not (vertices x faces)", {"shape": list(getattr(sp, "shape", ()))})
    ok, ar = get("area_faces")
    if ok and np.shape(ar) != (nf,):
        bad("area_faces", "does not have one entry per face", {"shape": list(np.shape(ar))})
    cx.run.count("derived_values_compared_after_reading_them_before")


def check_inplace(cx, m, exp_src_face=None, exp_src_vertex=None, merging=None, rewind_ok=False,
                  opt="", dropped_vertices=None, lenient_nonfinite=False, allow_face_subset=False,
                  carry_normals=False):
    """
    Judge an in-place operation on a mesh built by Tagged.build().
      exp_src_face   exact list of surviving old face ids when the operation defines it
      exp_src_vertex exact list of surviving old vertex ids when the operation defines it
      merging        None or dict(unit_v, unit_uv or None, unit_n or None)
    """
    T = cx.T
    Vn = np.asarray(m.vertices, dtype=np.float64)
    Fn = np.asarray(m.faces, dtype=np.int64).reshape(-1, 3)
    # ---- attributes still one row per element
    fid = m.face_attributes.get("id")
    vid = m.vertex_attributes.get("id")
    if fid is None or len(fid) != len(Fn):
        cx.fail("face_attr_len", "face_attributes no longer have one row per face",
                {"faces": int(len(Fn)), "attr": None if fid is None else int(len(fid))}, opt)
        return
    if vid is None or len(vid) != len(Vn):
        cx.fail("vertex_attr_len", "vertex_attributes no longer have one row per vertex",
                {"vertices": int(len(Vn)), "attr": None if vid is None else int(len(vid))}, opt)
        return
    fid = np.asarray(fid, dtype=np.int64)
    vid = np.asarray(vid, dtype=np.int64)
    # ---- which faces survive, in which order
    if exp_src_face is not None:
        exp = np.asarray(exp_src_face, dtype=np.int64)
        if not np.array_equal(fid, exp):
            if allow_face_subset and (len(fid) < 2 or np.all(np.diff(fid) > 0)) and np.isin(fid, exp).all():
                pass
            else:
                same_set = len(fid) == len(exp) and np.array_equal(np.sort(fid), np.sort(exp))
                cx.fail("face_order" if same_set else "face_set",
                        "surviving faces are not the selected faces in their original relative order",
                        {"ids_after": fid[:40], "expected": exp[:40]}, opt)
                return
    elif len(fid) > 1 and not np.all(np.diff(fid) > 0):
        cx.fail("face_order", "surviving faces are not in their original relative order", {"ids_after": fid[:40]}, opt)
        return
    # ---- positions
    tol = merging["unit_v"] * (1 + 1e-3) if merging else 0.0
    perm = check_faces(cx, Vn, Fn, fid, tol, rewind_ok, lenient_nonfinite, opt, dropped_vertices)
    if perm is None:
        return
    # ---- what the mesh reports about its triangles (triangles, edges, adjacency ...)
    check_derived(cx, m, opt)
    # ---- vertex rows
    if len(vid) and (vid.min() < 0 or vid.max() >= T.nv):
        cx.fail("vertex_id_invalid", "vertex ids after the operation are not ids of original vertices", {"ids": vid[:20]}, opt)
        return
    if exp_src_vertex is not None and not np.array_equal(vid, np.asarray(exp_src_vertex, dtype=np.int64)):
        cx.fail("vertex_set", "surviving vertices are not the vertices the operation selects",
                {"ids_after": vid[:40], "expected": np.asarray(exp_src_vertex)[:40]}, opt)
        return
    if not _same(Vn, T.V[vid]).all():
        w = int(np.nonzero(~_same(Vn, T.V[vid]).all(axis=1))[0][0])
        cx.fail("vertex_attr_misaligned", "vertex_attributes['id'] no longer sits on the vertex it was attached to",
                {"vertex": w, "position": Vn[w], "position_of_id": T.V[vid[w]]}, opt)
        return
    pos = m.vertex_attributes.get("pos")
    if pos is None or np.shape(pos) != Vn.shape or not _same(pos, Vn).all():
        cx.fail("vertex_attr2_misaligned", "2-D vertex attribute is out of step with the vertices", None, opt)
        return
    tag2 = m.face_attributes.get("tag2")
    if tag2 is None or np.shape(tag2) != (len(fid), 2) or not np.array_equal(np.asarray(tag2), np.column_stack([fid, -fid])):
        cx.fail("face_attr2_misaligned", "2-D face attribute is out of step with face_attributes['id']", None, opt)
        return
    # ---- corner identity
    if len(Fn):
        newc = np.take_along_axis(Fn, perm, axis=1)
        a = T.F[fid]  # old vertex under each corner
        b = vid[newc]  # old vertex now under each corner
        if merging is None:
            if not np.array_equal(a, b):
                k = int(np.nonzero((a != b).any(axis=1))[0][0])
                cx.fail("corner_vertex_changed", "a face corner now references a different original vertex (non-merging operation)",
                        {"new_face": k, "old_vertices": a[k], "now": b[k]}, opt)
                return
        else:
            moved = a != b
            cx.run.count("corners_merged", int(moved.sum()))
            with np.errstate(invalid="ignore"):
                d = np.abs(T.V[a] - T.V[b])
                d = np.where(np.isfinite(d), d, 0.0 if lenient_nonfinite else np.inf)
                d = np.where(_same(T.V[a], T.V[b]), 0.0, d)
            if (d.max(axis=2) >= merging["unit_v"] * (1 + 1e-3))[moved].any():
                cx.fail("merged_beyond_tolerance", "vertices further apart than the merge tolerance were merged", None, opt)
                return
            if merging.get("unit_uv") and cx.has_uv:
                du = np.abs(T.uv[a] - T.uv[b]).max(axis=2)
                if (du >= merging["unit_uv"] * (1 + 1e-3))[moved].any():
                    k = int(np.nonzero(((du >= merging["unit_uv"]) & moved).any(axis=1))[0][0])
                    cx.fail("merged_across_uv", "merge_tex=False merged vertices whose UVs differ: a face corner changed its UV",
                            {"new_face": k, "old_vertices": a[k], "now": b[k], "uv_old": T.uv[a[k]], "uv_now": T.uv[b[k]]}, opt)
                    return
            if merging.get("unit_n") and cx.normals != "cold" and cx.vn_before is not None:
                vn = cx.vn_before
                with np.errstate(invalid="ignore"):
                    dn = np.abs(vn[a] - vn[b]).max(axis=2)
                dn = np.where(np.isfinite(dn), dn, 0.0)
                if (dn >= merging["unit_n"] * (1 + 1e-3))[moved].any():
                    k = int(np.nonzero(((dn >= merging["unit_n"]) & moved).any(axis=1))[0][0])
                    cx.fail("merged_across_normal", "merge_norm=False merged vertices whose stored normals differ",
                            {"new_face": k, "old_vertices": a[k], "now": b[k], "n_old": vn[a[k]], "n_now": vn[b[k]]}, opt)
                    return
    # ---- visuals
    check_visual_inplace(cx, m, fid, vid, opt)
    # ---- normals
    check_face_normals(cx, m, opt)
    # stored normals must survive when only vertices were re-indexed (no face removed / re-wound)
    # (a face whose corners the merge has put on one vertex is a face that went: it has no normal
    # any more and the library drops what it stored, as it does when faces are removed - the
    # other side of that coin is C01's near_duplicate_vertex+normals+process)
    def _collapsed(F):
        F = np.asarray(F).reshape(-1, 3)
        return int(((F[:, 0] == F[:, 1]) | (F[:, 1] == F[:, 2]) | (F[:, 2] == F[:, 0])).sum()) if len(F) else 0
    newly_collapsed = _collapsed(Fn) > _collapsed(T.F[fid]) if len(Fn) else False
    if newly_collapsed:
        cx.run.count("merge_collapsed_a_face")
    check_vertex_normals(cx, m, vid, opt, rewind_ok=rewind_ok,
                         must_carry=carry_normals and len(fid) == T.nf and not rewind_ok and not newly_collapsed,
                         # a merge moves corners by up to the merge tolerance (1e-8 on edges >= 1) and
                         # process() documents that it keeps the face normals across it: recomputed
                         # vertex normals may differ from a fresh mesh by that much (100x margin,
                         # still 10x below the 1e-5 the face normals are judged with)
                         tol=1e-6 if merging else 1e-9)


def check_visual_inplace(cx, m, fid, vid, opt=""):
    T = cx.T
    kind = m.visual.kind
    want = {"none": None, "face": "face", "vertex": "vertex", "texture": "texture"}[cx.visual]
    if kind != want:
        if want is None or (want == "face" and len(fid) == 0) or (want == "vertex" and len(vid) == 0):
            return
        cx.fail("visual_kind_%s_to_%s" % (want, kind), "the visual changed kind (%s -> %s)" % (want, kind), None, opt)
        return
    if cx.visual == "face":
        col = np.asarray(m.visual.face_colors)
        got = dec(col)
        if got is None or len(got) != len(fid):
            cx.fail("visual_length", "face colours no longer have one row per face", {"shape": list(np.shape(col))}, opt)
        elif not np.array_equal(got, fid):
            k = int(np.nonzero(got != fid)[0][0])
            cx.fail("face_colour_misaligned", "a face colour now sits on a different face than it was attached to",
                    {"new_face": k, "colour_id": int(got[k]), "attribute_id": int(fid[k])}, opt)
    elif cx.visual == "vertex":
        col = np.asarray(m.visual.vertex_colors)
        got = dec(col)
        if got is None or len(got) != len(vid):
            cx.fail("visual_length", "vertex colours no longer have one row per vertex", {"shape": list(np.shape(col))}, opt)
        elif not np.array_equal(got, vid):
            k = int(np.nonzero(got != vid)[0][0])
            cx.fail("vertex_colour_misaligned", "a vertex colour now sits on a different vertex than it was attached to",
                    {"new_vertex": k, "colour_id": int(got[k]), "attribute_id": int(vid[k])}, opt)
        if cx.vstate == "face_read" and len(fid) and "vertex_colour_misaligned" not in cx.failed and "visual_length" not in cx.failed:
            # the face colours derived from the vertex colours were read before the operation:
            # asked again they must describe the faces there are now
            try:
                fc = np.asarray(m.visual.face_colors)
                if fc.shape != (len(fid), 4):
                    cx.fail("visual_length", "derived face colours no longer have one row per face", {"shape": list(fc.shape)}, opt)
            except BaseException as e:  # noqa
                cx.fail("visual_length", "derived face colours cannot be read any more: %s" % type(e).__name__, {"error": repr(e)[:200]}, opt)
    elif cx.visual == "texture":
        uv = m.visual.uv
        if not cx.has_uv:
            pass
        elif uv is None or np.shape(uv) != (len(vid), 2):
            cx.fail("visual_length", "uv no longer has one row per vertex", {"shape": list(np.shape(uv))}, opt)
        elif not _same(uv, T.uv[vid]).all():
            k = int(np.nonzero(~_same(uv, T.uv[vid]).all(axis=1))[0][0])
            cx.fail("uv_misaligned", "a UV row now sits on a different vertex than it was attached to",
                    {"new_vertex": k, "uv": np.asarray(uv)[k], "uv_of_id": T.uv[vid[k]]}, opt)
        if cx.has_fm:
            check_face_materials(cx, m.visual, fid, opt)


def _copies(T):
    """face id -> ids of all faces with the same corner positions in the same corner order."""
    table = T.__dict__.get("_copies")
    if table is None:
        groups = {}
        for j in range(T.nf):
            groups.setdefault(T.V[T.F[j]].tobytes(), []).append(j)
        table = T.__dict__["_copies"] = {j: g for g in groups.values() for j in g}
    return table


def check_face_materials(cx, visual, src_face, opt="", prefix=False, inferred=False):
    """
    TextureVisuals.face_materials: entry k is the material index of old face src_face[k].
    prefix: faces appended by hole filling have no entry of their own (and when they coincide
    with source faces they cannot be told from survivors): the entries there are describe the
    leading faces.  inferred: src_face was inferred from positions, so any copy of the same
    triangle may be the face that is meant.
    """
    fm = getattr(visual, "face_materials", None)
    src_face = np.asarray(src_face, dtype=np.int64)
    n = None if fm is None else len(fm)
    ok = fm is not None
    if ok:
        got = np.asarray(fm).reshape(-1)
        m = len(src_face)
        if prefix:
            m = min(m, len(got))
            ok = m > 0 or len(src_face) == 0
        else:
            ok = len(got) == m
    if ok:
        got, src = got[:m], src_face[:m]
        if inferred:
            copies = _copies(cx.T)
            ok = all(int(g) in {j % NMAT for j in copies[int(j0)]} for g, j0 in zip(got, src))
        else:
            ok = bool(np.array_equal(got, src % NMAT))
    if not ok:
        cx.fail("face_materials_misaligned",
                "the material index per face (TextureVisuals.face_materials) no longer describes the faces there are",
                {"faces": int(len(src_face)), "len_face_materials": n,
                 "face_materials": None if fm is None else np.asarray(fm)[:20], "expected": (src_face % NMAT)[:20]}, opt)


def _uv_lookup(T):
    return {T.uv[i].tobytes(): i for i in range(T.nv)}


def check_piece(cx, piece, src_face, opt="", prefix_only=False, inferred=False, rows_prefix=False):
    """
    Judge one mesh returned by submesh / split / concatenate against the source arrays held by
    cx.T.  src_face: old face id of each face of the piece (request order).  inferred: the
    ids were inferred from positions / colours (split), so a face stands for any copy of its
    triangle when per-face data that is not the provenance is compared.  rows_prefix: holes may
    have been filled with faces that coincide with source faces (so all of them were
    "identified"): per-face rows may end before the faces do.
    """
    T = cx.T
    Vn = np.asarray(piece.vertices, dtype=np.float64)
    Fn = np.asarray(piece.faces, dtype=np.int64).reshape(-1, 3)
    src_face = np.asarray(src_face, dtype=np.int64)
    if prefix_only:
        if len(Fn) < len(src_face):
            cx.fail("face_count", "a returned mesh has fewer faces than were requested", {"got": int(len(Fn)), "want": int(len(src_face))}, opt)
            return
        full_Fn = Fn
        Fn = Fn[: len(src_face)]
    elif len(Fn) != len(src_face):
        cx.fail("face_count", "a returned mesh does not have one face per requested face",
                {"got": int(len(Fn)), "want": int(len(src_face))}, opt)
        return
    if prefix_only and len(full_Fn) and (full_Fn.min() < 0 or full_Fn.max() >= len(Vn)):
        cx.fail("index_range", "faces index vertices that do not exist", None, opt)
        return
    perm = check_faces(cx, Vn, Fn, src_face, 0.0, opt=opt)
    if perm is None:
        return
    a = T.F[src_face]  # old vertex under each corner
    kind = piece.visual.kind
    if cx.visual == "face":
        if kind != "face":
            cx.fail("visual_kind_face_to_%s" % kind, "face colours were not carried as face colours (kind %s)" % kind, None, opt)
        else:
            got = dec(np.asarray(piece.visual.face_colors))
            if got is None or len(got) < len(src_face):
                cx.fail("visual_length", "face colours do not have one row per face", None, opt)
            elif not np.array_equal(got[: len(src_face)], src_face):
                k = int(np.nonzero(got[: len(src_face)] != src_face)[0][0])
                cx.fail("face_colour_misaligned", "a face colour moved to a different face",
                        {"new_face": k, "colour_id": int(got[k]), "face_id": int(src_face[k])}, opt)
    elif cx.visual == "vertex":
        if kind != "vertex":
            cx.fail("visual_kind_vertex_to_%s" % kind, "vertex colours were not carried as vertex colours (kind %s)" % kind, None, opt)
        else:
            got = dec(np.asarray(piece.visual.vertex_colors))
            if got is None or len(got) != len(Vn):
                cx.fail("visual_length", "vertex colours do not have one row per vertex", None, opt)
            elif len(Fn) and not np.array_equal(got[Fn], a):
                k = int(np.nonzero((got[Fn] != a).any(axis=1))[0][0])
                cx.fail("vertex_colour_misaligned", "a vertex colour moved to a different vertex",
                        {"new_face": k, "colour_ids": got[Fn[k]], "vertex_ids": a[k]}, opt)
    elif cx.visual == "texture":
        if kind != "texture":
            cx.fail("visual_kind_texture_to_%s" % kind, "texture visuals were not carried (kind %s)" % kind, None, opt)
        else:
            uv = piece.visual.uv
            if not cx.has_uv:
                pass
            elif uv is None or np.shape(uv) != (len(Vn), 2):
                cx.fail("visual_length", "uv does not have one row per vertex", {"shape": list(np.shape(uv))}, opt)
            elif len(Fn) and not _same(np.asarray(uv)[Fn], T.uv[a]).all():
                cx.fail("uv_misaligned", "a UV row moved to a different vertex", None, opt)
            if cx.has_fm:
                check_face_materials(cx, piece.visual, src_face, opt, prefix=prefix_only or rows_prefix, inferred=inferred)
    check_piece_attributes(cx, piece, Vn, Fn, src_face, opt, prefix_only or rows_prefix, inferred)
    if not prefix_only:
        check_face_normals(cx, piece, opt)


def check_piece_attributes(cx, piece, Vn, Fn, src_face, opt="", prefix_only=False, inferred=False):
    """
    face_attributes / vertex_attributes of a NEW mesh (submesh, split): the rows of the source
    that belong to the faces / vertices of the piece.  Fn: the leading faces of the piece that
    are faces src_face of the source.  Faces appended by hole filling (prefix_only) have no rows
    of their own.  inferred: see check_piece - the id a face carries must be the id of a copy
    of its triangle, each id once, and the vertex rows must then be those of THAT face.
    """
    T = cx.T
    fa = getattr(piece, "face_attributes", None) or {}
    va = getattr(piece, "vertex_attributes", None) or {}
    missing = [n for n, d, k in (("face_attributes", fa, "id"), ("face_attributes", fa, "tag2"),
                                 ("vertex_attributes", va, "id"), ("vertex_attributes", va, "pos")) if k not in d]
    if missing:
        cx.fail("attributes_dropped", "the returned mesh has lost the %s of the source" % " and ".join(sorted(set(missing))),
                {"face_attributes": sorted(fa.keys()), "vertex_attributes": sorted(va.keys())}, opt)
        return
    fid = np.asarray(fa["id"]).reshape(-1)
    tag2 = np.asarray(fa["tag2"])
    m = len(src_face)
    if prefix_only:
        m = min(m, len(fid))
        fid = fid[:m]
        tag2 = tag2[:m]
    src, Fm = src_face[:m], Fn[:m]
    ok = len(fid) == m and (m > 0 or len(src_face) == 0)
    if ok and inferred:
        copies = _copies(T)
        ok = len(set(fid.tolist())) == m and all(int(i) in copies[int(j0)] for i, j0 in zip(fid, src))
    elif ok:
        ok = bool(np.array_equal(fid, src))
    if not ok:
        cx.fail("face_attr_misaligned", "face_attributes['id'] of a returned mesh are not the ids of its faces",
                {"ids": fid[:20], "expected": src_face[:20]}, opt)
        return
    if tag2.shape != (m, 2) or not np.array_equal(tag2, np.column_stack([fid, -fid])):
        cx.fail("face_attr2_misaligned", "2-D face attribute of a returned mesh is out of step with its faces", None, opt)
    a = T.F[fid.astype(np.int64)]  # old vertex under each corner of the face that is meant
    vid = np.asarray(va["id"])
    pos = np.asarray(va["pos"])
    if vid.shape != (len(Vn),) or pos.shape != Vn.shape:
        cx.fail("vertex_attr_len", "vertex_attributes of a returned mesh do not have one row per vertex",
                {"vertices": int(len(Vn)), "id": list(vid.shape), "pos": list(pos.shape)}, opt)
    elif m and not np.array_equal(vid[Fm], a):
        k = int(np.nonzero((vid[Fm] != a).any(axis=1))[0][0])
        cx.fail("vertex_attr_misaligned", "vertex_attributes['id'] of a returned mesh sit on other vertices than in the source",
                {"new_face": k, "ids": vid[Fm[k]], "expected": a[k]}, opt)
    elif m and not _same(pos[Fm], T.V[a]).all():
        cx.fail("vertex_attr2_misaligned", "2-D vertex attribute of a returned mesh is out of step with its vertices", None, opt)


# ----------------------------------------------------------------------------
# operations


def _mask_from_params(p):
    m = np.asarray(p["mask"])
    if p.get("mask_kind") == "bool":
        return m.astype(bool)
    dt = p.get("mask_dtype", "int64")
    if dt == "list":
        return [int(x) for x in m.reshape(-1)]
    return m.astype(dt).reshape(-1)


def _mask_opt(p):
    """mask class for keys: bool / int / uint / list"""
    if p.get("mask_kind") == "bool":
        return "bool"
    dt = p.get("mask_dtype", "int64")
    return "list" if dt == "list" else ("uint" if dt.startswith("u") else "int")


def _finish(cx, nontrivial, *digest):
    cx.run.case("%s:%s:%s" % (cx.op, cx.visual_full, cx.normals), cx.op, repr(sorted(cx.params.items())), cx.visual_full,
                cx.normals, *cx.T.digest(), nontrivial=bool(nontrivial))
    cx.run.count("op_" + cx.op)
    for f in cx.T.feats:
        cx.run.state("op_x_feature", (cx.op, f))
    cx.run.state("op_x_visual_x_normals", (cx.op, cx.visual_full, cx.normals))


def _guard(cx, fn, opt="", refusable=False):
    try:
        return True, fn()
    except BaseException as e:  # noqa
        if isinstance(e, KeyboardInterrupt):
            raise
        cx.fail("exception:%s" % type(e).__name__, "the operation raised %s" % type(e).__name__,
                {"error": repr(e)[:300]}, opt)
        return False, None


def _prepare(cx):
    m = cx.T.build(cx.visual_full, cx.normals)
    cx.vn_before = None
    if cx.normals != "cold" and cx.T.nf and cx.T.nv:
        try:
            cx.vn_before = np.array(m.vertex_normals)
        except BaseException:
            cx.vn_before = None
    if cx.params.get("reads") == "derived":
        # the caller looked at the mesh before the operation: derived values are in the cache
        cx.run.count("derived_values_read_before", read_derived(m))
    return m


def op_merge_vertices(cx):
    p = cx.params
    m = _prepare(cx)
    kw = {k: p[k] for k in ("merge_tex", "merge_norm", "digits_vertex", "digits_norm", "digits_uv") if p.get(k) is not None}
    if p.get("digits_as"):
        # the digits are annotated `Integer` (int or numpy integer): the same numbers as numpy scalars
        # (a reviewer's report: 10 ** np.int8(8) wraps to 0 and every vertex is merged into one)
        ntype = getattr(np, p["digits_as"])
        kw = {k: (ntype(v) if k.startswith("digits_") else v) for k, v in kw.items()}
    ok, _ = _guard(cx, lambda: m.merge_vertices(**kw))
    if not ok:
        return _finish(cx, True)
    dv = p.get("digits_vertex")
    merging = {
        "unit_v": 10.0 ** -(8 if dv is None else dv),
        "unit_uv": None if p.get("merge_tex") else 10.0 ** -(4 if p.get("digits_uv") is None else p["digits_uv"]),
        "unit_n": None if p.get("merge_norm") else 10.0 ** -(2 if p.get("digits_norm") is None else p["digits_norm"]),
    }
    opt = "merge_tex=%s merge_norm=%s" % (bool(p.get("merge_tex")), bool(p.get("merge_norm")))
    if p.get("digits_as"):
        opt += " digits_as=numpy_integer"
    over = grid_class(cx.T, 8 if dv is None else dv)
    if over:
        # the merge options play no part in this input class: one key per symptom
        opt = over.strip()
        cx.run.count("merge_on_coords_beyond_int64_grid")
    cx.run.state("merge_outcome", (len(m.vertices) < cx.T.nv, cx.visual, cx.normals, opt))
    # merge_norm=True: the caller declared the normals irrelevant for what is one vertex; none of
    # the members' normals is "the" normal of the merged vertex, so nothing has to be carried
    check_inplace(cx, m, exp_src_face=np.arange(cx.T.nf), merging=merging, opt=opt, lenient_nonfinite=True,
                  carry_normals=not p.get("merge_norm"))
    _finish(cx, len(m.vertices) != cx.T.nv)


def op_unmerge_vertices(cx):
    m = _prepare(cx)
    ok, _ = _guard(cx, m.unmerge_vertices)
    if ok:
        T = cx.T
        if T.nf and not np.array_equal(np.asarray(m.faces), np.arange(T.nf * 3).reshape(-1, 3)):
            cx.fail("not_unmerged", "faces after unmerge_vertices are not 0..3n-1", {"faces": np.asarray(m.faces)[:6]})
        check_inplace(cx, m, exp_src_face=np.arange(T.nf), exp_src_vertex=T.F.reshape(-1) if T.nf else None)
    _finish(cx, cx.T.nf > 0)


def op_remove_unreferenced(cx):
    m = _prepare(cx)
    ok, _ = _guard(cx, m.remove_unreferenced_vertices)
    if ok:
        T = cx.T
        check_inplace(cx, m, exp_src_face=np.arange(T.nf), exp_src_vertex=np.nonzero(T.referenced)[0],
                      carry_normals=True)
    _finish(cx, not cx.T.referenced.all())


def op_remove_infinite(cx):
    m = _prepare(cx)
    ok, _ = _guard(cx, m.remove_infinite_values)
    if ok:
        T = cx.T
        if not np.isfinite(np.asarray(m.vertices)).all():
            cx.fail("nonfinite_left", "non-finite vertices remain after remove_infinite_values", None)
        # a face that referenced a removed vertex cannot survive unchanged: it may be dropped
        check_inplace(cx, m, exp_src_face=np.arange(T.nf), allow_face_subset=True,
                      exp_src_vertex=np.nonzero(T.finite_v)[0], carry_normals=True)
    _finish(cx, not cx.T.finite_v.all())


def op_update_faces(cx):
    p = cx.params
    mask = _mask_from_params(p)
    m = _prepare(cx)
    ok, _ = _guard(cx, lambda: m.update_faces(mask))
    T = cx.T
    exp = np.arange(T.nf)[mask]
    if ok:
        check_inplace(cx, m, exp_src_face=exp, exp_src_vertex=np.arange(T.nv), opt="mask=%s" % _mask_opt(p))
    _finish(cx, not np.array_equal(exp, np.arange(T.nf)))


def op_update_vertices(cx):
    p = cx.params
    mask = _mask_from_params(p)
    m = _prepare(cx)
    T = cx.T
    keep = np.zeros(T.nv, dtype=bool)
    keep[mask] = True
    drops_ref = bool((T.referenced & ~keep).any()) and len(mask) > 0
    opt = "mask=%s input=%s" % (_mask_opt(p), "drops_referenced_vertices" if drops_ref else "keeps_referenced_vertices")
    ok, _ = _guard(cx, lambda: m.update_vertices(mask), opt)
    if ok:
        exp_v = np.arange(T.nv)[mask]
        if len(mask) == 0 and len(m.vertices) == T.nv:
            exp_v = np.arange(T.nv)  # documented early exit: an empty mask is a no-op
        if not drops_ref:
            check_inplace(cx, m, exp_src_face=np.arange(T.nf), exp_src_vertex=exp_v, opt=opt, carry_normals=True)
        else:
            # faces that lost a vertex cannot keep their corners; they must not stay in the
            # mesh pointing somewhere else.  Everything else is judged as usual.
            Fn = np.asarray(m.faces).reshape(-1, 3)
            fid = m.face_attributes.get("id")
            lost = ~keep[T.F].all(axis=1)
            if fid is not None and len(fid) == len(Fn) and len(Fn) and lost[np.asarray(fid, dtype=np.int64)].any():
                cx.fail("dangling_faces_repointed", "faces that referenced a removed vertex stay in the mesh and now index another vertex",
                        {"n_faces_affected": int(lost.sum()), "faces_after": Fn[:6], "len_vertices": int(len(m.vertices))}, opt)
            else:
                check_inplace(cx, m, exp_src_face=np.arange(T.nf), allow_face_subset=True, exp_src_vertex=exp_v, opt=opt)
    _finish(cx, True)


def _ref_unique_faces(F):
    seen, out = set(), np.zeros(len(F), dtype=bool)
    for i, f in enumerate(np.sort(F, axis=1).tolist()):
        t = tuple(f)
        if t not in seen:
            seen.add(t)
            out[i] = True
    return out


def op_unique_faces(cx):
    m = _prepare(cx)
    T = cx.T
    ok, mask = _guard(cx, m.unique_faces)
    if ok:
        mask = np.asarray(mask)
        if mask.dtype != bool or mask.shape != (T.nf,):
            cx.fail("mask_shape", "unique_faces did not return one boolean per face", {"shape": list(mask.shape)})
        else:
            if not np.array_equal(mask, _ref_unique_faces(T.F)):
                cx.run.count("evidence_unique_faces_differs_from_first_occurrence")
            ok, _ = _guard(cx, lambda: m.update_faces(mask))
            if ok:
                check_inplace(cx, m, exp_src_face=np.nonzero(mask)[0], exp_src_vertex=np.arange(T.nv))
            _finish(cx, not mask.all())
            return
    _finish(cx, True)


def op_nondegenerate_faces(cx):
    m = _prepare(cx)
    T = cx.T
    kw = {} if cx.params.get("height") is None else {"height": cx.params["height"]}
    ok, mask = _guard(cx, lambda: m.nondegenerate_faces(**kw))
    if ok:
        mask = np.asarray(mask)
        if mask.dtype != bool or mask.shape != (T.nf,):
            cx.fail("mask_shape", "nondegenerate_faces did not return one boolean per face", {"shape": list(mask.shape)})
        else:
            rep = (T.F[:, 0] == T.F[:, 1]) | (T.F[:, 1] == T.F[:, 2]) | (T.F[:, 0] == T.F[:, 2])
            if (mask & rep).any():
                cx.run.count("evidence_nondegenerate_keeps_repeated_index_face")
            ok, _ = _guard(cx, lambda: m.update_faces(mask))
            if ok:
                check_inplace(cx, m, exp_src_face=np.nonzero(mask)[0], exp_src_vertex=np.arange(T.nv))
            _finish(cx, not mask.all())
            return
    _finish(cx, True)


def op_process(cx):
    p = cx.params
    m = _prepare(cx)
    validate = bool(p.get("validate"))
    kw = {k: p[k] for k in ("merge_tex", "merge_norm") if p.get(k) is not None}
    opt = "validate=%s" % validate + grid_class(cx.T, 8)
    ok, _ = _guard(cx, lambda: m.process(validate=validate, **kw), opt)
    if ok:
        T = cx.T
        merging = {
            "unit_v": 1e-8,
            "unit_uv": None if p.get("merge_tex") else 1e-4,
            "unit_n": None if p.get("merge_norm") else 1e-2,
        }
        if validate and cx.normals != "assigned":
            # fix_normals re-winds faces and duplicate / degenerate faces go: vertex normals that
            # were merely COMPUTED (cached) before describe other faces and are not judged.
            # Normals ASSIGNED by the caller keep deciding which vertices may be merged
            # (merge_norm=False): removing or re-winding some face does not change them
            merging["unit_n"] = None
        check_inplace(cx, m, exp_src_face=None if validate else np.arange(T.nf), allow_face_subset=True,
                      merging=merging, rewind_ok=validate, opt=opt,
                      carry_normals=not validate and not p.get("merge_norm"))
    _finish(cx, True)


def _index_lists(p):
    out = []
    for kind, idx in p["sequence"]:
        a = np.asarray(idx)
        out.append(a.astype(bool) if kind == "bool" else a.astype(np.int64).reshape(-1))
    return out


def _trial(cx, fn):
    """True when fn() reports nothing; whatever it reports is discarded."""
    seen = []
    real_fail, real_failed = cx.fail, cx.failed
    cx.failed = list(real_failed)
    cx.fail = lambda sym, *a, **k: (seen.append(sym), cx.failed.append(sym))[0]
    try:
        fn()
    finally:
        del cx.fail
        cx.failed = real_failed
    return not [x for x in seen if x not in OPTION_FREE_SYMS]


def judge_submesh(cx, res, want, append, only_wt, opt, repair=False):
    """
    One result of submesh against the requested (non-empty) face lists.  repair=False: every
    face of every returned mesh is a requested face; repair=True: holes may have been filled
    with new faces appended after the requested ones.
    """
    T = cx.T
    if append:
        if not hasattr(res, "faces"):
            cx.fail("result_type", "submesh(append=True) did not return a mesh", {"type": type(res).__name__}, opt)
            return
        check_piece(cx, res, np.concatenate(want), opt)
        return
    if only_wt:
        # survivors must each be one of the requested pieces, in request order
        j = 0
        for piece in res:
            nfp = len(piece.faces)
            cands = [jj for jj in range(j, len(want)) if _piece_matches(T, piece, want[jj])]
            if not cands:
                cx.fail("piece_unknown", "a returned submesh is not one of the requested face sets (in order)", {"faces": int(nfp)}, opt)
                break
            # (a request with as many faces as the piece has comes first: a piece that IS a later,
            # longer request also starts with the faces of a shorter one - thorough tier, false alarm)
            cands.sort(key=lambda jj: (len(want[jj]) != nfp, jj))
            j = cands[0]
            if len(cands) > 1:
                # repeated faces: several requests start with the same triangles and the dropped
                # ones cannot be told from the survivor by position.  The piece is judged as the
                # first request it is consistent with (as the first one when consistent with none)
                for jj in cands:
                    if _trial(cx, lambda: check_piece(cx, piece, want[jj], opt, prefix_only=True)):
                        j = jj
                        break
                cx.run.count("submesh_piece_ambiguous")
            check_piece(cx, piece, want[j], opt, prefix_only=True)
            if nfp != len(want[j]):
                cx.run.count("submesh_holes_filled")
                if not repair:
                    cx.fail("faces_not_in_source", "repair=False, yet a returned mesh has faces that are not faces of the source (its holes were filled)",
                            {"requested_faces": int(len(want[j])), "faces_of_the_piece": int(nfp)}, opt)
            j += 1
    else:
        if len(res) != len(want):
            cx.fail("piece_count", "submesh did not return one mesh per non-empty index list",
                    {"got": len(res), "want": len(want)}, opt)
        else:
            for piece, w in zip(res, want):
                if repair and len(piece.faces) > len(w):
                    cx.run.count("submesh_holes_filled")
                    check_piece(cx, piece, w, opt, prefix_only=True)
                else:
                    check_piece(cx, piece, w, opt)


def op_submesh(cx):
    """params: sequence, append, only_watertight; history 'again_after_editing_result' (see op_split)."""
    p = cx.params
    T = cx.T
    m = _prepare(cx)
    seq = _index_lists(p)
    append = bool(p.get("append"))
    only_wt = bool(p.get("only_watertight"))
    repair = bool(p.get("repair")) and not append
    hist = p.get("history")
    opt = "append=%s" % append + (" only_watertight=True" if only_wt and not append else "") + (" repair=True" if repair else "")
    before = (T.V.tobytes(), T.F.tobytes())
    ok, res = _guard(cx, lambda: m.submesh(seq, append=append, only_watertight=only_wt, repair=repair), opt)
    if not ok:
        return _finish(cx, True)
    if (np.asarray(m.vertices).tobytes(), np.asarray(m.faces).tobytes()) != before:
        cx.fail("source_modified", "submesh changed the source mesh", None, opt)
    want = [np.arange(T.nf)[s] for s in seq]
    want = [w for w in want if len(w)]
    if append and not want:
        cx.run.count("submesh_empty_request")
        return _finish(cx, False)
    if not append:
        res = list(res) if res is not None else []
    judge_submesh(cx, res, want, append, only_wt, opt, repair)
    if hist and not cx.blocking():
        opt2 = opt + " history=" + hist
        edit_results(cx, [res] if append else res, p.get("edits") or ["translate"])
        if source_untouched(cx, m, opt2):
            ok, again = _guard(cx, lambda: m.submesh(seq, repair=repair, only_watertight=only_wt, append=append), opt2)
            if ok:
                if not append:
                    again = list(again) if again is not None else []
                    if only_wt and len(again) != len(res):
                        cx.fail("piece_count", "the same submesh of the unmodified mesh returns a different number of meshes the second time",
                                {"first": len(res), "second": len(again)}, opt2)
                judge_submesh(cx, again, want, append, only_wt, opt2, repair)
                cx.run.count("submesh_histories_judged")
    _finish(cx, True)


def _piece_matches(T, piece, w, whole=False):
    Fn = np.asarray(piece.faces).reshape(-1, 3)
    if len(Fn) < len(w) or len(w) == 0 or (whole and len(Fn) != len(w)):
        return False
    try:
        P = np.asarray(piece.vertices)[Fn[: len(w)]]
    except BaseException:
        return False
    return bool(_same(P, T.V[T.F[w]]).all())


def infer_src_faces(cx, piece, partial=False):
    """
    Old face id of each face of a piece of unknown provenance (split).  Face colours are the
    provenance when present, exact corner positions otherwise (repeated faces are
    indistinguishable by position: the candidate that keeps the order is preferred).
    partial=True: holes may have been filled with new faces appended at the end; return the
    ids of the leading faces that are identifiably faces of the source.
    """
    T = cx.T
    Fn = np.asarray(piece.faces).reshape(-1, 3)
    P = np.asarray(piece.vertices, dtype=np.float64)
    if len(Fn) and (Fn.min() < 0 or Fn.max() >= len(P)):
        return None, "index_range"
    col = None
    if cx.visual == "face" and piece.visual.kind == "face":
        col = dec(np.asarray(piece.visual.face_colors))
        if col is None or len(col) != len(Fn):
            col = None
    if col is not None and not partial and len(col) and col.min() >= 0 and col.max() < T.nf:
        return col, "colour"
    # per-vertex provenance (vertex colours / unique UVs) separates exact duplicate vertices
    vsrc = None
    if cx.visual == "vertex" and piece.visual.kind == "vertex":
        vsrc = dec(np.asarray(piece.visual.vertex_colors))
    elif cx.visual == "texture" and piece.visual.kind == "texture" and piece.visual.uv is not None:
        look = _uv_lookup(T)
        vsrc = np.array([look.get(np.asarray(r, dtype=np.float64).tobytes(), -1) for r in np.asarray(piece.visual.uv)], dtype=np.int64)
    if vsrc is not None and (len(vsrc) != len(P) or (len(vsrc) and (vsrc.min() < 0 or vsrc.max() >= T.nv))):
        vsrc = None
    table = {}
    for j in range(T.nf):
        key = T.F[j].tobytes() if vsrc is not None else T.V[T.F[j]].tobytes()
        table.setdefault(key, []).append(j)
    # a filled hole can only coincide with a source face when the source has repeated or
    # non-manifold faces: only then is "not in order" indistinguishable from "appended"
    ambiguous = any(len(v) > 1 for v in table.values()) or T.tag in SOUP_TAGS
    used = cx.__dict__.setdefault("_used_faces", set())
    out, prev = [], -1
    for k in range(len(Fn)):
        key = vsrc[Fn[k]].astype(np.int64).tobytes() if vsrc is not None else P[Fn[k]].tobytes()
        cands = [j for j in table.get(key, []) if j not in used]
        if col is not None:
            cands = [j for j in cands if j == int(col[k])]
        later = [j for j in cands if j > prev]
        if later:
            j = later[0]
        elif partial and (not cands or ambiguous):
            # a face appended by hole filling (or one that cannot be told from it)
            if out:
                break
            return None, "position"
        elif cands:
            j = cands[0]
        else:
            return None, "position"
        out.append(j)
        used.add(j)
        prev = j
    return np.array(out, dtype=np.int64), "position"


EDITS = ("translate", "vertices_assign", "vertices_inplace", "thin", "invert", "faces_reversed", "recolour")
HISTORIES = {
    "split": ("again_after_editing_result", "copy_with_cache_after_editing_result", "again_after_assigning_visual"),
    "submesh": ("again_after_editing_result",),
    "concatenate": ("again_after_editing_result",),
}


def edit_results(cx, meshes, edits):
    """
    The caller does something IN PLACE with the meshes an operation handed out (they belong to
    the caller): an exploded view, thinning, re-colouring ...  One edit per mesh, cycling through
    `edits`; a failing edit is the caller's problem, not judged.
    """
    for i, part in enumerate(meshes):
        kind = edits[i % len(edits)]
        try:
            if kind == "recolour":
                vk = part.visual.kind
                if vk == "face":
                    part.visual.face_colors = np.full((len(part.faces), 4), 7, dtype=np.uint8)
                elif vk == "vertex":
                    part.visual.vertex_colors = np.full((len(part.vertices), 4), 7, dtype=np.uint8)
                elif vk == "texture" and part.visual.uv is not None:
                    part.visual.uv = np.asarray(part.visual.uv)[::-1] * 0.5
                else:
                    kind = "translate"
            if kind == "translate":
                part.apply_translation([0.0, 0.0, 16.0 * (i + 1)])
            elif kind == "vertices_assign":
                part.vertices = np.asarray(part.vertices) * 2.0 + 1.0
            elif kind == "vertices_inplace":
                v = part.vertices
                v += 3.0
            elif kind == "thin":
                part.update_faces(np.arange(len(part.faces)) % 2 == 1)
                part.remove_unreferenced_vertices()
            elif kind == "invert":
                part.invert()
            elif kind == "faces_reversed":
                part.faces = np.asarray(part.faces)[::-1].copy()
            cx.run.count("result_edit_" + kind)
        except BaseException as e:  # noqa
            if isinstance(e, KeyboardInterrupt):
                raise
            cx.run.count("result_edit_failed")


def source_untouched(cx, m, opt):
    """Editing what an operation returned must not reach back into the mesh it came from."""
    T = cx.T
    if not (_same(np.asarray(m.vertices), T.V).all() and np.array_equal(np.asarray(m.faces).reshape(-1, 3), T.F)):
        cx.fail("source_shares_result", "editing the returned mesh(es) in place changed the source mesh", None, opt)
        return False
    return True


def judge_split(cx, parts, only_wt, opt, repair=False):
    """
    One list returned by split, against the source arrays held by cx.T.  Faces that are not
    faces of the source (filled holes, appended) are expected with repair=True only.
    """
    import trimesh

    T = cx.T
    cx._used_faces = set()
    seen = []
    partial = only_wt or repair
    unidentified = False
    for piece in parts:
        if only_wt and not repair:
            # repair is off: every face of a part is a face of the source
            backup = set(cx._used_faces)
            src, how = infer_src_faces(cx, piece, partial=False)
            if src is not None and how == "colour" and not _piece_matches(T, piece, src, whole=True):
                # a filled face comes with some colour: its id says nothing about where it is
                src = None
            if src is None:
                cx.fail("faces_not_in_source", "repair=False, yet a part has faces that are not faces of the source (its holes were filled)",
                        {"faces_of_the_part": int(len(piece.faces)), "how": how}, opt)
                cx._used_faces = backup
                src, how = infer_src_faces(cx, piece, partial=True)  # judge the survivors as before
        else:
            src, how = infer_src_faces(cx, piece, partial=partial)
        if src is None:
            if partial:
                cx.run.count("split_piece_unidentified")
                unidentified = True
                continue
            cx.fail("face_not_original", "a face of a split component is not a face of the source (%s)" % how, None, opt)
            return
        order_src = np.asarray(src)
        # repeated faces (same three vertices, any corner order) cannot be told apart when no
        # colour / uv carries their id: a piece face stands for ANY copy of its triangle.  The
        # order claim holds iff the copies can be chosen so that the ids increase; greedily take,
        # for each face in turn, the smallest copy above the previous choice (the first version
        # gave every copy the id of the first one, which turned [copy of 2, copy of 0 = 8] into a
        # false alarm - thorough tier, seed 0)
        # (copies are faces with the same three corner POSITIONS: duplicated vertices make copies
        # of faces that use different indices - thorough tier, false alarm of the index-keyed version)
        def _cls(fi):
            return tuple(sorted(np.asarray(T.V)[v].tobytes() for v in np.asarray(T.F)[int(fi)].tolist()))
        classes = {}
        for fi in range(len(T.F)):
            classes.setdefault(_cls(fi), []).append(fi)
        if len(order_src) and any(len(v) > 1 for v in classes.values()):
            chosen, prev = [], -1
            for i in order_src.tolist():
                copies = classes[_cls(i)]
                nxt = [c for c in copies if c > prev and c not in chosen]
                pick = nxt[0] if nxt else int(i)
                chosen.append(pick)
                prev = max(prev, pick) if nxt else prev
            if chosen != order_src.tolist():
                cx.run.count("split_order_duplicate_faces_reassigned")
            order_src = np.asarray(chosen, dtype=np.int64)
        if partial and len(order_src) > 1:
            # hole filling (repair=True; on the unrepaired library also only_watertight=True)
            # APPENDS new faces; their inferred ids are not survivors' ids, so the order claim
            # is judged on the strictly increasing prefix followed by an appended tail only
            d = np.nonzero(np.diff(order_src) <= 0)[0]
            if len(d):
                tail = order_src[d[0] + 1:]
                # a genuine mis-ordering of survivors shows up as a second descent inside the
                # tail-free part; an appended block is at the very end and short
                if len(tail) <= max(2, len(order_src) // 4):
                    cx.run.count("split_order_appended_tail_ignored")
                    order_src = order_src[: d[0] + 1]
        if len(order_src) > 1 and not np.all(np.diff(order_src) > 0):
            cx.fail("face_order",
                    "faces inside a split component are not in their original relative order",
                    {"ids": src[:40]}, opt)
        if partial and len(src) != len(piece.faces):
            # holes were filled: provenance of the appended faces is undefined
            cx.run.count("split_piece_with_filled_holes")
            check_piece(cx, piece, src, opt, prefix_only=True, inferred=True)
        else:
            check_piece(cx, piece, src, opt, inferred=True, rows_prefix=partial)
        seen.append(src)
    if not only_wt and not unidentified:
        allids = np.sort(np.concatenate(seen)) if seen else np.zeros(0, dtype=np.int64)
        if not np.array_equal(allids, np.arange(T.nf)):
            cx.fail("partition", "split(only_watertight=False) does not return every face exactly once",
                    {"n_faces": T.nf, "returned": int(len(allids))}, opt)
        elif parts and not repair:
            ok, whole = _guard(cx, lambda: trimesh.util.concatenate(parts), opt + " then=concatenate")
            if ok:
                if canon_triangles(np.asarray(whole.vertices)[np.asarray(whole.faces)]) != canon_triangles(T.V[T.F]):
                    cx.fail("multiset", "split then concatenate does not reproduce the triangle multiset", None, opt)
                cx.run.count("split_concat_multisets_compared")


def op_split(cx):
    """
    params: only_watertight; history (optional) - the split is one step of a caller's history:
      again_after_editing_result            split, edit the returned meshes in place, split again
                                            (same options, keywords in the other order)
      copy_with_cache_after_editing_result  the same, the second split on mesh.copy(include_cache=True)
      again_after_assigning_visual          split a bare mesh, attach the colours / texture to the
                                            source, split again: the parts carry the new visual
    Every split of the (unmodified) source is judged by the same oracle.
    """
    p = cx.params
    T = cx.T
    hist = p.get("history")
    only_wt = bool(p.get("only_watertight"))
    repair = bool(p.get("repair"))
    opt = "only_watertight=%s" % only_wt + (" repair=True" if repair else "")
    late_visual = hist == "again_after_assigning_visual"
    if late_visual:
        full = cx.visual_full
        cx.visual_full = "none"
        m = _prepare(cx)
        cx.visual_full = full
    else:
        m = _prepare(cx)
    ok, parts = _guard(cx, lambda: m.split(only_watertight=only_wt, repair=repair), opt)
    if not ok:
        return _finish(cx, True)
    parts = list(parts) if parts is not None else []
    cx.run.state("split_parts", min(len(parts), 6))
    if not late_visual:
        judge_split(cx, parts, only_wt, opt, repair)
    if hist and parts and not cx.blocking():
        opt2 = opt + " history=" + hist
        if late_visual:
            T.apply_visual(m, cx.visual_full)
        else:
            edit_results(cx, parts, p.get("edits") or ["translate"])
            if not source_untouched(cx, m, opt2):
                return _finish(cx, True)
        src = m
        if hist == "copy_with_cache_after_editing_result":
            ok, src = _guard(cx, lambda: m.copy(include_cache=True), opt2)
            if not ok:
                return _finish(cx, True)
            if "id" not in src.face_attributes:
                # Trimesh.copy is not a re-indexing operation: what it leaves behind is not
                # judged here, the second split is
                cx.run.count("copy_without_attributes")
                src.face_attributes.update({k: np.array(v) for k, v in m.face_attributes.items()})
                src.vertex_attributes.update({k: np.array(v) for k, v in m.vertex_attributes.items()})
        ok, again = _guard(cx, lambda: src.split(repair=repair, only_watertight=only_wt), opt2)
        if ok:
            again = list(again) if again is not None else []
            if len(again) != len(parts):
                cx.fail("piece_count", "the same split of the unmodified mesh returns a different number of parts the second time",
                        {"first": len(parts), "second": len(again)}, opt2)
            else:
                judge_split(cx, again, only_wt, opt2, repair)
            cx.run.count("split_histories_judged")
    _finish(cx, len(parts) > 0)


FACELESS_OK = ("none", "vertex")


def _material_class(mats):
    """recurring: some material comes back after another one (A B A); grouped: equal ones are neighbours"""
    seen, prev = set(), None
    for x in mats:
        if x != prev and x in seen:
            return "recurring"
        seen.add(x)
        prev = x
    return "grouped" if len(seen) < len(mats) else "distinct"


def material_pattern(rng, n):
    """n >= 3 material numbers (0..3) in which at least one material recurs after another one."""
    while True:
        k = int(rng.integers(2, min(4, n - 1) + 1))
        mats = [int(x) for x in rng.integers(0, k, size=n)]
        if _material_class(mats) == "recurring":
            off = int(rng.integers(4))
            return [(x + off) % 4 for x in mats]


def op_concatenate(cx):
    """params: others = list of mesh cases; route = 'concatenate' | 'add'."""
    import trimesh

    p = cx.params
    tagged = [cx.T] + [Tagged.from_case(c) for c in p["others"]]
    kinds = p.get("normal_modes") or [cx.normals] * len(tagged)
    # materials: which texture image every input uses (recurring ones, e.g. A B A, are equal
    # materials that are NOT next to each other in the input); default one image for all /
    # all different (mixed_images)
    mats = p.get("materials") or [i % 3 if p.get("mixed_images") else 0 for i in range(len(tagged))]
    meshes = [t.build(cx.visual_full, k, image_variant=mats[i]) for i, (t, k) in enumerate(zip(tagged, kinds))]
    route = p.get("route", "concatenate")
    opt = "route=%s" % route
    if p.get("materials"):
        opt += " materials=" + _material_class(mats)
    if route == "add":
        fn = lambda: meshes[0] + meshes[1]  # noqa
        tagged, meshes, kinds = tagged[:2], meshes[:2], kinds[:2]
    elif route == "scene_to_mesh":
        fn = lambda: trimesh.Scene(meshes).to_mesh()  # noqa
    elif route == "scene_dump":
        fn = lambda: trimesh.Scene(meshes).dump(concatenate=True)  # noqa
    else:
        fn = lambda: trimesh.util.concatenate(meshes)  # noqa
    if cx.visual == "texture":
        try:
            before_col = [np.asarray(mm.visual.to_color().vertex_colors) for mm in meshes]
        except BaseException:
            before_col = None
    ok, res = _guard(cx, fn, opt)
    if not ok:
        return _finish(cx, True)
    hist = p.get("history")
    if hist:
        # the caller edits the mesh it was handed, then concatenates the same (untouched) inputs
        # again: the inputs must not have moved and the second result is judged like any other
        opt += " history=" + hist
        edit_results(cx, [res], p.get("edits") or ["translate"])
        for t, mm in zip(tagged, meshes):
            if not (_same(np.asarray(mm.vertices), t.V).all() and np.array_equal(np.asarray(mm.faces).reshape(-1, 3), t.F)):
                cx.fail("source_shares_result", "editing the concatenated mesh in place changed an input mesh", None, opt)
                return _finish(cx, True)
        ok, res = _guard(cx, fn, opt)
        if not ok:
            return _finish(cx, True)
        cx.run.count("concatenate_histories_judged")
    # the virtual source: stacked arrays with offsets
    off = np.cumsum([0] + [t.nv for t in tagged])
    V = np.vstack([t.V for t in tagged])
    F = np.vstack([t.F + o for t, o in zip(tagged, off)]) if sum(t.nf for t in tagged) else np.zeros((0, 3), dtype=np.int64)
    virt = Tagged(V, F)
    virt.vcol = np.vstack([t.vcol for t in tagged])
    virt.fcol = np.vstack([t.fcol for t in tagged])
    sub = Ctx(cx.run, virt, cx.visual_full, cx.normals, cx.op, cx.params)
    sub.case_dict = cx.case_dict
    Vn = np.asarray(res.vertices)
    if Vn.shape != V.shape or not _same(Vn, V).all():
        cx.fail("vertices_changed", "concatenate does not stack the vertex arrays unchanged", {"shape": list(Vn.shape)}, opt)
        return _finish(cx, True)
    if not np.array_equal(np.asarray(res.faces).reshape(-1, 3), F):
        cx.fail("faces_not_offset_stack", "concatenated faces are not the inputs' faces shifted by the vertex offsets",
                {"faces": np.asarray(res.faces)[:8], "expected": F[:8]}, opt)
        return _finish(cx, True)
    # attributes: the inputs' rows stacked in input order
    fa = getattr(res, "face_attributes", None) or {}
    va = getattr(res, "vertex_attributes", None) or {}
    missing = [n for n, d, k in (("face_attributes", fa, "id"), ("face_attributes", fa, "tag2"),
                                 ("vertex_attributes", va, "id"), ("vertex_attributes", va, "pos")) if k not in d]
    if missing:
        cx.fail("attributes_dropped", "the concatenated mesh has lost the %s every input has" % " and ".join(sorted(set(missing))),
                {"face_attributes": sorted(fa.keys()), "vertex_attributes": sorted(va.keys()), "inputs": len(tagged)}, opt)
    else:
        want_f = np.concatenate([np.arange(t.nf) for t in tagged])
        want_v = np.concatenate([np.arange(t.nv) for t in tagged])
        if not np.array_equal(np.asarray(fa["id"]), want_f) or not np.array_equal(
                np.asarray(fa["tag2"]).reshape(-1, 2), np.column_stack([want_f, -want_f])):
            cx.fail("face_attr_misaligned", "face_attributes of the inputs are not stacked in face order",
                    {"ids": np.asarray(fa["id"])[:20], "expected": want_f[:20]}, opt)
        if not np.array_equal(np.asarray(va["id"]), want_v) or np.shape(va["pos"]) != V.shape or not _same(va["pos"], V).all():
            cx.fail("vertex_attr_misaligned", "vertex_attributes of the inputs are not stacked in vertex order",
                    {"ids": np.asarray(va["id"])[:20], "expected": want_v[:20]}, opt)
    # colours: per-piece ids
    kind = res.visual.kind
    if cx.visual == "face":
        got = np.asarray(res.visual.face_colors)
        if kind != "face" or got.shape != virt.fcol.shape or not np.array_equal(got, virt.fcol):
            cx.fail("face_colour_misaligned", "face colours of the inputs are not stacked in face order (kind %s)" % kind, None, opt)
    elif cx.visual == "vertex":
        got = np.asarray(res.visual.vertex_colors)
        if kind != "vertex" or got.shape != virt.vcol.shape or not np.array_equal(got, virt.vcol):
            cx.fail("vertex_colour_misaligned", "vertex colours of the inputs are not stacked in vertex order (kind %s)" % kind, None, opt)
    elif cx.visual == "texture":
        uv = getattr(res.visual, "uv", None)
        if kind != "texture" or uv is None or np.shape(uv) != (len(V), 2):
            cx.fail("visual_length", "concatenated texture visual has no uv row per vertex (kind %s)" % kind, None, opt)
        elif before_col is not None:
            try:
                after = np.asarray(res.visual.to_color().vertex_colors)
            except BaseException as e:  # noqa
                after = None
                cx.run.count("texture_to_color_failed")
            if after is not None:
                want = np.vstack(before_col)
                if after.shape != want.shape or np.abs(after.astype(int) - want.astype(int)).max() > 0:
                    k = int(np.nonzero((after != want).any(axis=1))[0][0]) if after.shape == want.shape else -1
                    cx.fail("texture_colour_changed", "after concatenation a vertex samples a different texel than before",
                            {"vertex": k, "before": want[k] if k >= 0 else None, "after": after[k] if k >= 0 else None}, opt)
                cx.run.count("texture_samples_compared", int(len(want)))
    # normals
    check_face_normals(sub, res, opt)
    cx.failed += sub.failed
    if all(k == "assigned" for k in kinds) and len(V) and len(F):
        vn = np.asarray(res.vertex_normals)
        want = np.vstack([t.vn for t in tagged])
        carried = vn.shape == want.shape and bool(_same(vn, want).all())
        if not carried and vn.shape == want.shape:
            # stored normals that are DROPPED (a single input comes back as mesh.copy(), which
            # does not keep the cache) and recomputed are not attached to a wrong vertex: same
            # rule as check_vertex_normals - every row is the old row or the recomputed one
            try:
                fresh = np.asarray(trimesh.Trimesh(V.copy(), F.copy(), process=False).vertex_normals)
                carried = bool((_same(vn, want).all(axis=1) | _close(vn, fresh, 1e-9).all(axis=1)).all())
                if carried:
                    cx.run.count("concatenate_vertex_normals_recomputed")
            except BaseException:
                cx.run.count("vertex_normal_reference_failed")
        if not carried:
            cx.fail("vertex_normal_misaligned", "stored vertex normals of the inputs are not stacked in vertex order", None, opt)
    _finish(cx, len(tagged) > 1)


def op_subdivide(cx):
    """Attribute carry through Trimesh.subdivide: old vertices keep index, position and rows."""
    p = cx.params
    T = cx.T
    m = cx.T.build(cx.visual_full, "cold")
    # documented attribute shape is (n, d)
    m.vertex_attributes = {"id2": np.column_stack([np.arange(T.nv), np.arange(T.nv)]).astype(np.float64),
                           "pos": T.V.copy()}
    fi = None if p.get("face_index") is None else np.asarray(p["face_index"], dtype=np.int64)
    ok, res = _guard(cx, lambda: m.subdivide(face_index=fi))
    if not ok:
        return _finish(cx, True)
    Vn = np.asarray(res.vertices)
    if len(Vn) < T.nv or not _same(Vn[: T.nv], T.V).all():
        cx.fail("old_vertices_moved", "subdivide does not keep the original vertices at their indices", None)
        return _finish(cx, True)
    a = res.vertex_attributes.get("id2")
    pos = res.vertex_attributes.get("pos")
    if a is None or pos is None or len(a) != len(Vn) or len(pos) != len(Vn):
        cx.fail("vertex_attr_len", "vertex attributes after subdivide do not have one row per vertex", None)
        return _finish(cx, True)
    if not np.array_equal(np.asarray(a)[: T.nv, 0], np.arange(T.nv)):
        cx.fail("vertex_attr_misaligned", "original vertices lost their attribute rows in subdivide", None)
    finite = np.isfinite(Vn).all(axis=1) & np.isfinite(np.asarray(pos)).all(axis=1)
    if not _close(np.asarray(pos)[finite], Vn[finite], 1e-9).all():
        cx.fail("vertex_attr2_misaligned", "interpolated position attribute differs from the new vertex position", None)
    if fi is not None:
        keep = np.ones(T.nf, dtype=bool)
        keep[fi] = False
        nk = int(keep.sum())
        Fn = np.asarray(res.faces).reshape(-1, 3)
        if len(Fn) < nk or not np.array_equal(Fn[:nk], T.F[keep]):
            cx.fail("untouched_faces_changed", "faces not selected for subdivision changed or moved", None)
    if cx.visual == "texture":
        uv = getattr(res.visual, "uv", None)
        if uv is None or len(uv) != len(Vn) or not _same(np.asarray(uv)[: T.nv], T.uv).all():
            cx.fail("uv_misaligned", "original vertices lost their UV rows in subdivide", None)
    _finish(cx, T.nf > 0)


OPS = {
    "merge_vertices": op_merge_vertices,
    "unmerge_vertices": op_unmerge_vertices,
    "remove_unreferenced_vertices": op_remove_unreferenced,
    "remove_infinite_values": op_remove_infinite,
    "update_faces": op_update_faces,
    "update_vertices": op_update_vertices,
    "unique_faces": op_unique_faces,
    "nondegenerate_faces": op_nondegenerate_faces,
    "process": op_process,
    "submesh": op_submesh,
    "split": op_split,
    "concatenate": op_concatenate,
    "subdivide": op_subdivide,
}


INPLACE_OPS = ("merge_vertices", "unmerge_vertices", "remove_unreferenced_vertices", "remove_infinite_values",
               "update_faces", "update_vertices", "unique_faces", "nondegenerate_faces", "process")


def execute(run, T, visual, normals, op, params):
    cx = Ctx(run, T, visual, normals, op, params)
    OPS[op](cx)
    return cx


# ----------------------------------------------------------------------------
# workload


_INT_DTYPES = ("int64", "int64", "int32", "uint32", "uint64", "uint8", "list")


def _mask_params(tag, mask, rng=None):
    mask = np.asarray(mask)
    kind = "bool" if mask.dtype == bool else "int"
    p = {"mask_tag": tag, "mask_kind": kind, "mask": mask.astype(int).tolist()}
    if kind == "int" and rng is not None:
        # index masks come in every integer dtype (and as plain lists)
        dt = _INT_DTYPES[int(rng.integers(len(_INT_DTYPES)))]
        if dt == "uint8" and len(mask) and int(mask.max()) > 255:
            dt = "uint32"
        if dt == "list" and len(mask) == 0:
            dt = "int64"  # an empty list has no integer type: not an integer mask
        p["mask_dtype"] = dt
    return p


def _sequences(rng, nf):
    """faces_sequence variants for submesh."""
    out = []
    if nf == 0:
        return out
    k = int(rng.integers(1, 4))
    seq = []
    for _ in range(k):
        r = int(rng.integers(5))
        if r == 0:
            seq.append(("bool", (rng.random(nf) < 0.5).astype(int).tolist()))
        elif r == 1:
            seq.append(("int", np.sort(rng.choice(nf, size=int(rng.integers(1, nf + 1)), replace=False)).tolist()))
        elif r == 2:
            seq.append(("int", rng.permutation(nf)[: int(rng.integers(1, nf + 1))].tolist()))
        elif r == 3:
            seq.append(("int", rng.integers(0, nf, size=int(rng.integers(1, nf + 2))).tolist()))
        else:
            seq.append(("int", []) if rng.random() < 0.5 else ("bool", [0] * nf))
    out.append(seq)
    return out


def ops_for(run, rng, T, full):
    """Yield (op, params) for one tagged mesh."""
    from vmon.gen.matrix import masks

    nf, nv = T.nf, T.nv
    # merge grid
    grid = list(itertools.product((None, True), (None, True)))
    digit_sets = [(None, None, None), (10, 1, 2), (5, None, None)] if full else [(None, None, None), [(10, 1, 2), (5, None, None)][int(rng.integers(2))]]
    for (mt, mn) in grid:
        for (dv, dn, du) in digit_sets:
            yield "merge_vertices", {"merge_tex": mt, "merge_norm": mn, "digits_vertex": dv, "digits_norm": dn, "digits_uv": du}
    yield "merge_vertices", {"merge_tex": False, "merge_norm": False, "digits_vertex": None, "digits_norm": None, "digits_uv": None}
    yield "merge_vertices", {"merge_tex": None, "merge_norm": None, "digits_vertex": 8, "digits_norm": 2, "digits_uv": 4,
                             "digits_as": ("int8", "uint8", "int16", "int64")[int(rng.integers(4))]}
    yield "unmerge_vertices", {}
    yield "remove_unreferenced_vertices", {}
    yield "remove_infinite_values", {}
    for tag, mk in masks(rng, nf):
        yield "update_faces", _mask_params(tag, mk, rng)
    for tag, mk in masks(rng, nv):
        yield "update_vertices", _mask_params(tag, mk, rng)
    if nv:
        # masks that never drop a referenced vertex
        yield "update_vertices", _mask_params("referenced_bool", T.referenced | (rng.random(nv) < 0.3))
        cover = np.concatenate([np.arange(nv), rng.integers(0, nv, size=int(rng.integers(1, nv + 1)))])
        yield "update_vertices", _mask_params("cover_repeat_int", rng.permutation(cover), rng)
        yield "update_vertices", _mask_params("referenced_int", rng.permutation(np.nonzero(T.referenced)[0]), rng)
    yield "unique_faces", {}
    yield "nondegenerate_faces", {"height": None}
    if full:
        yield "nondegenerate_faces", {"height": 1e-3}
    for validate in (False, True):
        for (mt, mn) in (grid if full else [grid[int(rng.integers(4))]]):
            yield "process", {"validate": validate, "merge_tex": mt, "merge_norm": mn}
    for seq in _sequences(rng, nf):
        for append in (False, True):
            yield "submesh", {"sequence": seq, "append": append, "only_watertight": False}
        yield "submesh", {"sequence": seq, "append": False, "only_watertight": True}
        # hole repair switched ON: new faces may be appended, the requested ones stay what they were
        yield "submesh", {"sequence": seq, "append": False, "only_watertight": bool(rng.integers(2)), "repair": True}
    yield "split", {"only_watertight": False}
    yield "split", {"only_watertight": True}
    yield "split", {"only_watertight": bool(rng.integers(2)), "repair": True}
    # an operation that hands out new meshes as one step of a caller's history: the result is
    # edited in place (or the source gets its visual) and the same call is made again
    if nf:
        def edits():
            return [EDITS[int(j)] for j in rng.choice(len(EDITS), size=3, replace=False)]

        hs = HISTORIES["split"]
        for h in (hs if full else [hs[int(rng.integers(len(hs)))]]):
            yield "split", {"only_watertight": False, "history": h, "edits": edits()}
        yield "split", {"only_watertight": True, "history": hs[int(rng.integers(len(hs)))], "edits": edits()}
        for seq in _sequences(rng, nf):
            append = bool(rng.integers(2))
            yield "submesh", {"sequence": seq, "append": append, "only_watertight": False,
                              "history": "again_after_editing_result", "edits": edits()}
    if nf:
        yield "subdivide", {"face_index": None}
        yield "subdivide", {"face_index": np.unique(rng.integers(0, nf, size=max(1, nf // 3))).tolist()}


def feature_sets(rng, full):
    yield ()
    for f in FEATURES:
        yield (f,)
    yield ("dup_exact", "dup_within", "dup_outside")
    yield ("dup_exact", "unref", "repeat", "degenerate")
    yield ("dup_exact", "dup_within", "dup_outside", "unref", "repeat", "degenerate", "nonfinite_unref")
    yield ("far",)
    yield ("dup_exact", "far")
    yield ("dup_exact", "far", "repeat", "unref")
    yield ("degenerate", "dup_exact", "far", "nonfinite_unref")
    n = 6 if full else 2
    for _ in range(n):
        k = int(rng.integers(2, 6))
        yield tuple(sorted(set(rng.choice(FEATURES[:-1], size=k, replace=False).tolist())))


def workload(run):
    rng = run.rng
    full = run.tier == "thorough"
    pool = [(tag, V, F) for tag, V, F in base_meshes(rng, count=10 if not full else 24) if len(F) <= 140]
    feats_all = list(feature_sets(rng, True))
    combos = [(v, n) for v in VISUALS for n in NORMALS]
    prev = []  # earlier tagged meshes, partners for concatenation
    i = 0
    while not run.out_of_time(0.9):
        feats = feats_all[i % len(feats_all)]
        tag, V, F = pool[int(rng.integers(len(pool)))]
        i += 1
        T = decorate(rng, V, F, feats, tag=tag)
        run.state("mesh_class", (tag, feats))
        # every (visual, normals) combination is visited in turn; two per mesh
        pick = [combos[(2 * i) % len(combos)], combos[(2 * i + 1 + i // len(combos)) % len(combos)]]
        oplist = list(ops_for(run, rng, T, full))
        others = [t.to_case() for t in prev[-2:]]
        for j, (visual, normals) in enumerate(pick):
            for k, (op, params) in enumerate(oplist):
                if op == "subdivide" and (normals != "cold" or "face_materials" in visual):
                    continue
                if op in INPLACE_OPS and (j + k) % 2 == 0:
                    # in one of the two passes the caller has LOOKED at the mesh before the
                    # operation (triangles, edges, adjacency ... are cached)
                    params = dict(params, reads="derived")
                if op == "submesh" and params.get("append") and visual == "texture:face_materials":
                    # MultiMaterial WITH uv rows is built by no loader and stacking it goes
                    # through material.pack (single materials): not judged
                    continue
                execute(run, T, visual, normals, op, params)
            # (stacking MultiMaterials is not implemented in the library - material.pack takes
            # single materials - so the face_materials visuals are not concatenated)
            if others and "face_materials" not in visual:
                for route in ("concatenate", "add"):
                    execute(run, T, visual, normals, "concatenate",
                            {"others": others, "route": route, "mixed_images": bool(i % 2)})
                execute(run, T, visual, normals, "concatenate",
                        {"others": [] if i % 5 == 0 else (others[:1] if i % 3 == 0 else others),
                         "route": "concatenate" if i % 5 == 0 else ("concatenate", "add")[i % 2],
                         "mixed_images": False, "history": "again_after_editing_result",
                         "edits": [EDITS[int(rng.integers(len(EDITS)))]]})
                if normals != "cold":
                    execute(run, T, visual, normals, "concatenate",
                            {"others": others, "route": "concatenate", "mixed_images": False,
                             "normal_modes": [normals] + ["cold"] * len(others)})
                # other ways to the same stacking: a Scene flattened into one mesh
                faces_everywhere = T.nf > 0 and all(t.nf > 0 for t in prev[-4:])
                if faces_everywhere:
                    execute(run, T, visual, normals, "concatenate",
                            {"others": others, "route": ("scene_to_mesh", "scene_dump")[i % 2], "mixed_images": bool(i % 4 < 2)})
                if visual == "texture" and len(prev) >= 2:
                    # three to five textured inputs whose materials RECUR (A B A, A B A B, A B C A ...):
                    # equal materials are packed once, the UV rows still belong to the inputs in input order
                    routes = ["concatenate"] + (["scene_to_mesh", "scene_dump"] if faces_everywhere else [])
                    for route in routes:
                        oth = [t.to_case() for t in prev[-int(rng.integers(2, min(4, len(prev)) + 1)):]]
                        execute(run, T, visual, normals, "concatenate",
                                {"others": oth, "route": route, "materials": material_pattern(rng, len(oth) + 1)})
                if visual in FACELESS_OK and normals == "cold":
                    # an entry that has vertices but NO faces (a bare point set, a mesh whose faces
                    # were all masked away) in front of / between entries with faces: its vertices
                    # still count for the offsets of everything after it
                    pts = Tagged(np.asarray(T.V)[: max(1, min(3, T.nv))] + 100.0, np.zeros((0, 3), dtype=np.int64)).to_case()
                    for where in ("middle", "first_other"):
                        oth = [others[0], pts] + others[1:] if where == "middle" else [pts] + others
                        execute(run, T, visual, normals, "concatenate",
                                {"others": oth, "route": "concatenate", "mixed_images": False})
            if run.out_of_time(0.9):
                break
        prev.append(T)
        prev = prev[-4:]
        if i % 40 == 0 and full:
            pool = [(tag, V, F) for tag, V, F in base_meshes(rng, count=24) if len(F) <= 140]
    run.note("meshes", i)


def replay(run, case):
    T = Tagged.from_case(case["mesh"])
    cx = execute(run, T, case["visual"], case["normals"], case["op"], case["params"])
    run.note("replay_symptoms", cx.failed)
