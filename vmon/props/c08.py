"""
C08 - export then load round-trips geometry in every supported format.

Monitor shape: every case is ONE observed execution  geometry -> export(format, options) ->
bytes -> load(route, options) -> geometry'.  The oracle never looks at the exporter: it keeps the
plain numpy arrays the geometry was built from (the *spec*) and compares the reloaded object
element by element through a PER-FORMAT QUANTISER derived from the exporter's storage type /
format string (see QUANTISERS below).  Faces are compared in order as position triples (vertex
indices may be renumbered), colours exactly where the format carries them, scene instances by
world-space placement computed from the spec's own matrices and from an own walk over the
reloaded scene graph.  After each export the exported object is compared with its spec and
with a snapshot ("export never modifies").

Violation keys are structural:  fmt=<f> kind=<k> <features> [opt=<non-default options that
are needed>] [route=<route if needed>] sym=<symptom>.  When a violation shows under non-default
options / routes the same geometry is re-judged with defaults and single options, and the
smallest configuration that reproduces the symptom is the one keyed.
"""

from __future__ import annotations

import io
import os
import shutil
import tempfile
import zipfile
import zlib

import numpy as np

PROP = "C08"
LEVEL = "exploration"
RULE = (
    "one case = one export->load round trip of a generated geometry (mesh classes: single face, "
    "integer / unit / 1e-9..1e6 magnitudes of both signs, special values, seams with coincident "
    "and near-coincident vertices, degenerate and unreferenced, attributes, >65535 indices, "
    "empty and vertices-only x every export option, x {no, face, vertex} colours; point clouds; "
    "instanced / nested / renamed scene graphs with rigid, similarity, mirror and affine edges, "
    "specially treated node names (world, camera*, xml characters, digits, non-ascii), a renamed "
    "base frame, edges within 1e-8 of the identity (several parts; ONE part, shifted / turned / "
    "scaled / placed by a group; every instance of one part), scenes holding Path2D / Path3D (dict, glb, "
    "gltf) and scenes of planar-placed drawings (svg); Path2D/3D with lines, arcs, circles and "
    "(dict) Bezier / B-spline entities; cubic voxel grids and boxes with uniform / non-uniform "
    "extents) through every exporter that has a loader (enumerated from the registries) x "
    "its options x load / load_mesh / load_scene / load_path / file-name routes. Enumerated "
    "first (seed independent), then sampled. distinct = distinct (kind:format tag, options, "
    "route, geometry class, colours, generator seed); non-trivial = geometry not empty and at "
    "least one element was compared after a successful reload (or the library raised)."
)
ANCHORS = [
    "trimesh/exchange/export.py:export_mesh",
    "trimesh/exchange/export.py:export_scene",
    "trimesh/exchange/export.py:export_dict",
    "trimesh/exchange/export.py:scene_to_dict",
    "trimesh/exchange/load.py:load_scene",
    "trimesh/exchange/load.py:_load_kwargs",
    "trimesh/exchange/stl.py:export_stl",
    "trimesh/exchange/stl.py:export_stl_ascii",
    "trimesh/exchange/stl.py:load_stl_binary",
    "trimesh/exchange/stl.py:load_stl_ascii",
    "trimesh/exchange/ply.py:export_ply",
    "trimesh/exchange/ply.py:_elements_to_kwargs",
    "trimesh/exchange/ply.py:_ply_ascii",
    "trimesh/exchange/ply.py:_ply_binary",
    "trimesh/exchange/off.py:export_off",
    "trimesh/exchange/off.py:load_off",
    "trimesh/exchange/obj.py:export_obj",
    "trimesh/exchange/obj.py:load_obj",
    "trimesh/exchange/gltf.py:_append_mesh",
    "trimesh/exchange/gltf.py:_append_point",
    "trimesh/exchange/gltf.py:_append_path",
    "trimesh/exchange/gltf.py:_build_accessor",
    "trimesh/exchange/gltf.py:_read_buffers",
    "trimesh/exchange/gltf.py:export_glb",
    "trimesh/exchange/gltf.py:export_gltf",
    "trimesh/scene/transforms.py:SceneGraph.to_gltf",
    "trimesh/exchange/threemf.py:export_3MF",
    "trimesh/exchange/threemf.py:load_3MF",
    "trimesh/exchange/dae.py:export_collada",
    "trimesh/exchange/dae.py:load_collada",
    "trimesh/exchange/misc.py:load_dict",
    "trimesh/exchange/xyz.py:export_xyz",
    "trimesh/exchange/xyz.py:load_xyz",
    "trimesh/exchange/binvox.py:export_binvox",
    "trimesh/exchange/binvox.py:load_binvox",
    "trimesh/path/exchange/dxf.py:export_dxf",
    "trimesh/path/exchange/dxf.py:load_dxf",
    "trimesh/path/exchange/svg_io.py:export_svg",
    "trimesh/path/exchange/svg_io.py:svg_to_path",
    "trimesh/path/exchange/export.py:export_path",
    "trimesh/path/exchange/export.py:export_dict",
    "trimesh/path/exchange/misc.py:dict_to_path",
    "trimesh/util.py:array_to_string",
    "trimesh/util.py:structured_array_to_string",
    "trimesh/util.py:array_to_encoded",
    "trimesh/util.py:encoded_to_array",
]
SHARDS = {"quick": 1, "thorough": 8}
BUDGET = {"quick": 50, "thorough": 420}
MIN_EVENTS = {"quick": 400, "thorough": 3000}
ASSUMPTIONS = [
    "the Trimesh / PointCloud / Path / VoxelGrid constructors with process=False store the given "
    "arrays unchanged (checked before every export; a difference is a skipped case, not a verdict)",
    "numpy float32 casts and Python float formatting / parsing are correctly rounded",
    "plain `dict` exports are reloaded with a `process: False` entry added by the harness; "
    "`dict64` cannot switch processing off through trimesh.load, so vertex colours of exactly "
    "coincident vertices are judged on the Trimesh(**load_dict(d), process=False) route only",
    "world placement of reloaded scenes is read from graph.transforms.edge_data / node_data by "
    "an own traversal (self loops ignored)",
    "load_collada does not forward process=False: DAE vertices that have another vertex within "
    "2e-8 (tol.merge territory) are compared with that tolerance and their colours are not judged",
    "a binvox file stores one scale: a grid whose extents pitch*(shape-1) differ between axes may "
    "be refused with the exporter's documented ValueError (counted), never written displaced",
]
EXHAUSTIVE = {"quick": False, "thorough": False}

I4 = np.eye(4)

# ----------------------------------------------------------------------------
# QUANTISERS: allowed absolute error as a function of the original float64 value, justified
# from the exporter code:
#   stl (binary)   _stl_dtype '<f4'                         |d| <= ulp32(x)
#   ply binary     dtype_vertex ('vertex','<f4',3)          |d| <= ulp32(x)
#   ply ascii      header `property float x` (float32)      |d| <= ulp32(x)   (round 4; the
#                  writer's own '{:.8f}' grid, 1e-8 + ulp32(x), only NAMES the symptom)
#   glb / gltf     mesh.vertices.astype(float32)            |d| <= ulp32(x)
#   off            array_to_string(digits=D) '{:.Df}' D=10  |d| <= .5e-D + ulp64(x)
#   obj            array_to_string(digits=D) D=8            |d| <= .5e-D + ulp64(x)
#   xyz            array_to_string() D=8                    |d| <= .5e-8 + ulp64(x)
#   dae            pycollada '%.7g', parsed as float32      |d| <= .5*10^(e-6) + ulp32(x)
#   stl_ascii      '{}'.format(float64) (shortest repr)     exact
#   3mf            '{}'.format(np.float64) (shortest repr)  exact (matrices: str(float) exact)
#   dict           ndarray.tolist()                         exact
#   dict64         base64 of the raw bytes                  exact
#   binvox         run length bytes; '{}' of translate/scale exact cells, pitch to 4 ulp
#   dxf            '{:.12g}'                                |d| <= .5*10^(e-11) + ulp64(x)
#   svg            '{:0.Df}' D=13                            |d| <= .5e-D + 4 ulp64 (lines)


def ulp32(x):
    x = np.abs(np.asarray(x, dtype=np.float64))
    with np.errstate(over="ignore"):
        return np.spacing(x.astype(np.float32)).astype(np.float64)


def ulp64(x):
    return np.spacing(np.abs(np.asarray(x, dtype=np.float64)))


def pow10_floor(x):
    """10**floor(log10|x|) elementwise, 0 where x == 0 (corrected for log10 rounding)."""
    ax = np.abs(np.asarray(x, dtype=np.float64))
    out = np.zeros_like(ax)
    nz = ax > 0
    if nz.any():
        e = np.floor(np.log10(ax[nz]))
        e = np.where(10.0 ** (e + 1) <= ax[nz], e + 1, e)
        e = np.where(10.0**e > ax[nz], e - 1, e)
        out[nz] = 10.0**e
    return out


def q_exact(x):
    return np.zeros(np.shape(x), dtype=np.float64)


def q_f32(x):
    return ulp32(x)


def q_ply_ascii(x):
    return 1e-8 * (1 + 1e-9) + ulp32(x)


def q_dec(D):
    D = int(D)

    def tol(x):
        return 0.5 * 10.0 ** (-D) * (1 + 1e-9) + ulp64(x)

    return tol


def q_sig(n, f32=False):
    def tol(x):
        base = 0.5 * pow10_floor(x) * 10.0 ** (1 - n) * (1 + 1e-9)
        return base + (ulp32(x) if f32 else ulp64(x))

    return tol


def q_generic(x):
    # exporter without a hand-derived quantiser (format added after this monitor was written)
    return 1e-5 * np.abs(np.asarray(x, dtype=np.float64)) + 1e-5


def world_tol(M, tol_local, X):
    """Tolerance of M @ x given the local tolerance: |M| tol + 1e-12 (|M||x| + |t|)."""
    A = np.abs(M[:3, :3])
    return tol_local @ A.T + 1e-12 * (np.abs(X) @ A.T + np.abs(M[:3, 3])) + 1e-300


def apply(M, X):
    X = np.asarray(X, dtype=np.float64)
    if X.shape[-1] == 2:
        X = np.concatenate([X, np.zeros(X.shape[:-1] + (1,))], axis=-1)
    return X @ M[:3, :3].T + M[:3, 3]


# ----------------------------------------------------------------------------
# specs: the ground truth of a generated geometry as plain numpy arrays


def stable_seed(*parts):
    return zlib.crc32(repr(parts).encode()) & 0x7FFFFFFF


class MeshSpec:
    kind = "mesh"

    def __init__(self, cls, colors, gseed, V, F, fc=None, vc=None, vattr=None, fattr=None):
        self.cls, self.colors, self.gseed = cls, colors, int(gseed)
        self.V = np.asarray(V, dtype=np.float64).reshape((-1, 3))
        self.F = np.asarray(F, dtype=np.int64).reshape((-1, 3))
        self.fc, self.vc = fc, vc
        self.vattr, self.fattr = vattr or {}, fattr or {}

    @property
    def empty(self):
        return len(self.F) == 0 or len(self.V) == 0

    @property
    def big(self):
        return len(self.V) > 65536

    @property
    def coincident(self):
        if len(self.V) > 5000 or len(self.V) == 0:
            return False
        return len(np.unique(self.V, axis=0)) < len(self.V)

    def features(self):
        f = "colors=%s" % self.colors
        if self.big:
            f += " index=gt65535"
        if self.empty:
            f += " empty=yes"
        if self.vattr or self.fattr:
            f += " attrs=yes"
        return f

    def gen(self):
        return {"kind": "mesh", "cls": self.cls, "colors": self.colors, "gseed": self.gseed}

    def build(self):
        import trimesh

        if len(self.V) == 0:
            return trimesh.Trimesh()
        kw = {}
        if self.fc is not None:
            kw["face_colors"] = self.fc.copy()
        if self.vc is not None:
            kw["vertex_colors"] = self.vc.copy()
        if self.vattr:
            kw["vertex_attributes"] = {k: v.copy() for k, v in self.vattr.items()}
        if self.fattr:
            kw["face_attributes"] = {k: v.copy() for k, v in self.fattr.items()}
        return trimesh.Trimesh(vertices=self.V.copy(), faces=self.F.copy(), process=False, **kw)

    def intact(self, obj):
        """Does the built / exported object still hold exactly the spec's data?"""
        if len(self.V) == 0:
            return None
        if not np.array_equal(np.asarray(obj.vertices), self.V):
            return "vertices"
        if not np.array_equal(np.asarray(obj.faces), self.F):
            return "faces"
        kind = obj.visual.kind
        if self.fc is not None and (kind != "face" or not np.array_equal(np.asarray(obj.visual.face_colors), self.fc)):
            return "face_colors"
        if self.vc is not None and (kind != "vertex" or not np.array_equal(np.asarray(obj.visual.vertex_colors), self.vc)):
            return "vertex_colors"
        if self.fc is None and self.vc is None and kind is not None:
            return "visual_kind"
        return None


class CloudSpec:
    kind = "pointcloud"

    def __init__(self, cls, colors, gseed, P, C=None):
        self.cls, self.colors, self.gseed = cls, colors, int(gseed)
        self.P = np.asarray(P, dtype=np.float64).reshape((-1, 3))
        self.C = C

    empty = False

    def features(self):
        return "colors=%s" % self.colors

    def gen(self):
        return {"kind": "pointcloud", "cls": self.cls, "colors": self.colors, "gseed": self.gseed}

    def build(self):
        import trimesh

        return trimesh.PointCloud(self.P.copy(), colors=None if self.C is None else self.C.copy())

    def intact(self, obj):
        if not np.array_equal(np.asarray(obj.vertices), self.P):
            return "vertices"
        if self.C is not None and not np.array_equal(np.asarray(obj.colors), self.C):
            return "colors"
        if self.C is None and np.size(obj.colors) != 0:
            return "colors"
        return None


class PathSpec:
    """
    entities: ('line', [i...]) | ('arc', [i, j, k], closed) | ('bezier', [i...]) |
    ('bspline', [i...], [knots...]).
    """

    def __init__(self, cls, gseed, V, entities):
        self.cls, self.gseed = cls, int(gseed)
        self.V = np.asarray(V, dtype=np.float64)
        self.entities = entities
        self.kind = "path2d" if self.V.shape[1] == 2 else "path3d"
        self.colors = "none"

    empty = False

    def features(self):
        # the line / arc classes keep their historic (empty) feature string
        curves = sorted({e[0] for e in self.entities if e[0] in ("bezier", "bspline")})
        return "entities=" + "+".join(curves) if curves else ""

    def entity_feature(self):
        return "entities=%s" % ("single" if len(self.entities) == 1 else "multi")

    def gen(self):
        return {"kind": "path", "cls": self.cls, "gseed": self.gseed}

    def build(self):
        from trimesh.path import Path2D, Path3D
        from trimesh.path.entities import Arc, Bezier, BSpline, Line

        ents = []
        for e in self.entities:
            if e[0] == "line":
                ents.append(Line(np.array(e[1], dtype=np.int64)))
            elif e[0] == "bezier":
                ents.append(Bezier(np.array(e[1], dtype=np.int64)))
            elif e[0] == "bspline":
                ents.append(BSpline(np.array(e[1], dtype=np.int64), knots=np.array(e[2], dtype=np.float64)))
            else:
                ents.append(Arc(np.array(e[1], dtype=np.int64), closed=bool(e[2])))
        cls = Path2D if self.V.shape[1] == 2 else Path3D
        return cls(entities=ents, vertices=self.V.copy(), process=False)

    def intact(self, obj):
        if not np.array_equal(np.asarray(obj.vertices), self.V):
            return "vertices"
        if len(obj.entities) != len(self.entities):
            return "entity_count"
        for e, s in zip(obj.entities, self.entities):
            if type(e).__name__.lower() != s[0] or list(map(int, e.points)) != list(s[1]):
                return "entities"
            if s[0] == "arc" and bool(e.closed) != bool(s[2]):
                return "entity_closed"
            if s[0] == "bspline" and not np.array_equal(np.asarray(e.knots, dtype=np.float64), np.asarray(s[2], dtype=np.float64)):
                return "entity_knots"
        return None

    # ---- expected primitives, from the spec alone
    def segments(self):
        out = []
        for e in self.entities:
            if e[0] == "line":
                P = self.V[np.array(e[1], dtype=np.int64)]
                for a, b in zip(P[:-1], P[1:]):
                    if not np.array_equal(a, b):
                        out.append((a, b))
        return _segs_array(out, self.V.shape[1])

    def arcs(self):
        return [arc_descriptor(self.V[np.array(e[1])], bool(e[2])) for e in self.entities if e[0] == "arc"]


class VoxelSpec:
    kind = "voxel"
    colors = "none"

    def __init__(self, cls, gseed, mat, pitch, origin, mirror=(), enc="dense"):
        self.cls, self.gseed = cls, int(gseed)
        self.mat = np.asarray(mat, dtype=bool)
        # pitch: one number, or one (positive) number per axis
        self.pitchv = np.broadcast_to(np.asarray(pitch, dtype=np.float64), (3,)).copy()
        self.pitch, self.origin = float(self.pitchv.max()), np.asarray(origin, dtype=np.float64)
        self.mirror, self.enc = tuple(mirror), enc
        T = np.eye(4)
        s = self.pitchv.copy()
        for a in self.mirror:
            s[a] *= -1
        T[:3, :3] = np.diag(s)
        T[:3, 3] = self.origin
        self.T = T

    @property
    def empty(self):
        return False

    @property
    def extent_pattern(self):
        """
        None for a cubic grid with one pitch.  Otherwise the equality pattern of the three
        first-to-last-centre extents pitch * (shape - 1), the only thing a binvox file stores
        (ONE `scale`): 'uniform' (representable), or 'abb' / 'aab' / 'aba' / 'abc'.
        """
        shape = np.array(self.mat.shape)
        if len(set(self.mat.shape)) == 1 and len(set(self.pitchv.tolist())) == 1:
            return None
        e = self.pitchv * (shape - 1)

        def eq(i, j):
            return abs(e[i] - e[j]) <= 1e-9 * e.max()

        if eq(0, 1) and eq(1, 2):
            return "uniform"
        if eq(1, 2):
            return "abb"
        if eq(0, 1):
            return "aab"
        if eq(0, 2):
            return "aba"
        return "abc"

    def features(self):
        n = min(self.mat.shape)
        f = "enc=%s mirrored=%s n=%s" % (self.enc, "yes" if self.mirror else "no", "1" if n == 1 else "gt1")
        if self.extent_pattern is not None:
            f += " extent=%s" % self.extent_pattern
        return f

    def gen(self):
        return {"kind": "voxel", "cls": self.cls, "gseed": self.gseed}

    def build(self):
        from trimesh.voxel import VoxelGrid
        from trimesh.voxel import encoding as enc

        if self.enc == "sparse":
            e = enc.SparseBinaryEncoding(np.argwhere(self.mat), shape=self.mat.shape)
        elif self.enc == "reloaded":
            # the run length encoded grid the binvox loader itself produces (re-export case)
            import trimesh

            first = VoxelGrid(enc.DenseEncoding(self.mat.copy()), self.T.copy())
            return trimesh.load(io.BytesIO(first.export(file_type="binvox", axis_order="xyz")), file_type="binvox", axis_order="xyz")
        else:
            e = enc.DenseEncoding(self.mat.copy())
        return VoxelGrid(e, self.T.copy())

    def intact(self, obj):
        if not np.array_equal(np.asarray(obj.encoding.dense), self.mat):
            return "encoding"
        if not np.array_equal(np.asarray(obj.transform), self.T):
            return "transform"
        return None

    def points(self):
        return apply(self.T, np.argwhere(self.mat).astype(np.float64))


def name_class(name):
    """structural class of a node name that an exporter / loader may treat specially, or None."""
    if name == "world":
        return "world"  # the default base frame name (the glTF loader's own base frame)
    if name.startswith("camera"):
        return "camera_prefix"  # Scene.camera nodes are auto-named camera_XXXXXX
    if any(c in name for c in "<>&\"'"):
        return "xml_chars"
    if name.isdigit():
        return "numeric"
    if any(ord(c) > 127 for c in name):
        return "non_ascii"
    if " " in name:
        return "space"
    return None


def near_identity(M):
    """not the identity, but every entry within the library's 1e-8 of it."""
    d = np.abs(np.asarray(M, dtype=np.float64) - I4).max()
    return 0.0 < d < 1e-8


class SceneSpec:
    """
    geoms: {name: spec}; nodes: [(node, parent|None, M, geom|None)] parents first; base: name of
    the base frame (parent None).
    """

    kind = "scene"
    colors = "none"
    empty = False

    def __init__(self, cls, gseed, geoms, nodes, base="world"):
        self.cls, self.gseed = cls, int(gseed)
        self.geoms, self.nodes, self.base = geoms, nodes, base

    def features(self):
        return "class=%s" % self.cls

    def gen(self):
        return {"kind": "scene", "cls": self.cls, "gseed": self.gseed}

    def build(self):
        import trimesh

        s = trimesh.Scene() if self.base == "world" else trimesh.Scene(base_frame=self.base)
        for name, g in self.geoms.items():
            s.geometry[name] = g.build()
        for node, parent, M, geom in self.nodes:
            kw = {"geometry": geom} if geom is not None else {}
            s.graph.update(frame_to=node, frame_from=parent, matrix=M.copy(), **kw)
        return s

    def intact(self, obj):
        if obj.graph.base_frame != self.base:
            return "base_frame"
        if list(obj.geometry.keys()) != list(self.geoms.keys()):
            return "geometry_names"
        for name, g in self.geoms.items():
            r = g.intact(obj.geometry[name])
            if r:
                return "geometry:" + r
        ed = dict(obj.graph.transforms.edge_data)
        nd = dict(obj.graph.transforms.node_data)
        if len(ed) != len(self.nodes):
            return "edge_count"
        for node, parent, M, geom in self.nodes:
            e = ed.get((parent or self.base, node))
            if e is None or not np.array_equal(np.asarray(e.get("matrix")), M):
                return "edge_matrix"
            if nd.get(node, {}).get("geometry") != geom:
                return "node_geometry"
        return None

    def instances(self):
        """
        [(node, geom name, world M, feature)] from the spec's own matrices.  The feature is a
        structural class of the node's path from the base frame (first that applies):
          collides              some internal node of the scene is named like a geometry
          below_nested_geomnode a proper ancestor at depth >= 2 carries geometry itself
          internal_geomnode     the node carries geometry and has children
          base_leaf_renamed     leaf directly under the base frame, node name != geometry name
          base_leaf / nested_leaf
        followed by (classes added for round 4, absent for every older scene class)
          name=<name_class>     the node, else its nearest ancestor, has a specially treated name
          base=renamed          the base frame of the scene is not called "world"
        An instance whose path holds an edge within 1e-8 of the identity (but not the identity)
        is 'edge=near_identity' whatever its node class, followed by 'instances=one' (round 5)
        when it is the only geometry node of the scene.
        """
        world = {None: I4, self.base: I4}
        edge_of = {n: M for n, _, M, _ in self.nodes}
        parent_of = {n: p for n, p, _, _ in self.nodes}
        has_child = {p for _, p, _, _ in self.nodes if p is not None}
        geom_of = {n: g for n, _, _, g in self.nodes}
        # an internal node named like a geometry: both get the same object id in a 3MF file,
        # which poisons every reference to either of them (scene wide)
        collides = any(n in has_child and n in self.geoms for n in parent_of)
        out = []
        for node, parent, M, geom in self.nodes:
            W = world[parent] @ M
            world[node] = W
            if geom is None:
                continue
            path = [node]
            while parent_of.get(path[-1]) is not None:
                path.append(parent_of[path[-1]])
            path = path[::-1]  # base child first
            depth = len(path)
            if collides:
                cat = "collides"
            elif any(geom_of.get(n) is not None for n in path[1:-1]):
                cat = "below_nested_geomnode"
            elif node in has_child:
                cat = "internal_geomnode"
            elif depth == 1:
                cat = "base_leaf" if node == geom else "base_leaf_renamed"
            else:
                cat = "nested_leaf"
            feat = "node=" + cat
            if any(near_identity(edge_of[n]) for n in path):
                feat = "edge=near_identity"
                if sum(1 for x in self.nodes if x[3] is not None) == 1:
                    feat += " instances=one"  # (round 5) the only geometry node of the scene
            else:
                nc = next((name_class(n) for n in path[::-1] if name_class(n)), None)
                if nc:
                    feat += " name=" + nc
            if self.base != "world":
                feat += " base=renamed"
            out.append((node, geom, W, feat))
        return out


# ----------------------------------------------------------------------------
# arcs and segments (own geometry, no trimesh)


def _segs_array(pairs, dim):
    if not pairs:
        return np.zeros((0, 2, 3))
    A = np.array([[a, b] for a, b in pairs], dtype=np.float64)
    if A.shape[-1] == 2:
        A = np.concatenate([A, np.zeros(A.shape[:-1] + (1,))], axis=-1)
    return A


def arc_descriptor(P, closed):
    """
    Description of a three point arc from its points alone (own circumcircle, no trimesh):
    dict(closed, c, r, n, u, w, span) with the arc = { c + r (cos t u + sin t w) : t between 0
    and span } (span signed, the side that passes through the middle point); closed -> span 2 pi.
    """
    P = np.asarray(P, dtype=np.float64)
    if P.shape[1] == 2:
        P = np.concatenate([P, np.zeros((3, 1))], axis=1)
    A, B, C = P
    a, b = A - C, B - C
    axb = np.cross(a, b)
    den = 2.0 * np.dot(axb, axb)
    if den == 0:
        return {"closed": bool(closed), "degenerate": True, "c": A, "r": 0.0, "n": np.zeros(3), "u": np.zeros(3), "w": np.zeros(3), "span": 0.0}
    c = C + np.cross(np.dot(a, a) * b - np.dot(b, b) * a, axb) / den
    r = float(np.linalg.norm(A - c))
    n = axb / np.linalg.norm(axb)
    u = (A - c) / r
    w = np.cross(n, u)

    def ang(Q):
        return np.arctan2(np.dot(Q - c, w), np.dot(Q - c, u)) % (2 * np.pi)

    if closed:
        span = 2 * np.pi
    else:
        tb, tc = ang(B), ang(C)
        span = tc if tb < tc else tc - 2 * np.pi
    return {"closed": bool(closed), "c": c, "r": r, "n": n, "u": u, "w": w, "span": float(span)}


def arc_samples(d, k=9):
    t = np.linspace(0.0, d["span"], k, endpoint=not d["closed"])
    return d["c"] + d["r"] * (np.cos(t)[:, None] * d["u"] + np.sin(t)[:, None] * d["w"])


def on_arc(p, d, tol):
    q = p - d["c"]
    if d["r"] <= 0:
        return False
    if abs(np.dot(q, d["n"])) > tol or abs(np.linalg.norm(q) - d["r"]) > tol:
        return False
    if d["closed"]:
        return True
    t = np.arctan2(np.dot(q, d["w"]), np.dot(q, d["u"]))
    slack = tol / d["r"]
    lo, hi = (0.0, d["span"]) if d["span"] >= 0 else (d["span"], 0.0)
    for tt in (t, t + 2 * np.pi, t - 2 * np.pi):
        if lo - slack <= tt <= hi + slack:
            return True
    return False


def arcs_match(exp, got, tol, circle_tol=None):
    """
    Equality of two sets of arcs as curves (a circle reloaded as two half turns is the same
    curve): every sample of every expected arc lies on a reloaded arc and vice versa, and the
    total lengths agree.  Returns (expected arcs not covered, reloaded arcs not covered).
    """
    ct = tol if circle_tol is None else circle_tol
    tols = [ct if e["closed"] else tol for e in exp]
    tmax = max(tols) if tols else tol
    missing = 0
    for e, te in zip(exp, tols):
        if not all(any(on_arc(p, g, te) for g in got) for p in arc_samples(e)):
            missing += 1
    extra = 0
    for g in got:
        if not all(any(on_arc(p, e, te) for e, te in zip(exp, tols)) for p in arc_samples(g)):
            extra += 1
    if not missing and not extra:
        Le = sum(abs(e["span"]) * e["r"] for e in exp)
        Lg = sum(abs(g["span"]) * g["r"] for g in got)
        if abs(Le - Lg) > 8 * np.pi * tmax * (len(exp) + 1):
            extra += 1
    return missing, extra


def segs_match(exp, got, tol_fn):
    """
    Multiset equality of undirected segments (n,2,3) under elementwise tolerance tol_fn(x).
    Returns (missing, extra, max_err).
    """
    if len(exp) == 0 and len(got) == 0:
        return 0, 0, 0.0
    used = np.zeros(len(got), dtype=bool)
    missing, worst = 0, 0.0
    tol = tol_fn(exp)
    for k in range(len(exp)):
        if len(got) == 0:
            missing += 1
            continue
        d_f = np.abs(got - exp[k][None])
        d_r = np.abs(got[:, ::-1] - exp[k][None])
        ok_f = (d_f <= tol[k][None]).all(axis=(1, 2)) & ~used
        ok_r = (d_r <= tol[k][None]).all(axis=(1, 2)) & ~used
        j = np.flatnonzero(ok_f | ok_r)
        if len(j) == 0:
            missing += 1
            continue
        j = j[0]
        used[j] = True
        worst = max(worst, float(min(d_f[j].max(), d_r[j].max())))
    return missing, int((~used).sum()), worst


# ----------------------------------------------------------------------------
# generators (deterministic in (class, colours, gseed))

MESH_CLASSES = (
    "single_face", "soup_int", "soup_unit", "mag_1e-3", "mag_1e3", "mag_1e6", "mag_mixed",
    "special_values", "seam", "degenerate", "unreferenced", "attrs", "big_sparse", "big_grid", "empty",
    "mag_1e-9", "points_only",
)
_SPECIAL = np.array(
    [0.0, -0.0, 0.5, -0.5, 1.0, -1.0, 0.1, -0.1, 1.0 / 3.0, 1e-3, -1e-3, 2.0**-10, 1.0 - 2.0**-24,
     1.0 + 2.0**-23, 123456.789, -987654.321, 999999.9999999, 0.30000000000000004, 1e6, -1e6,
     0.000999999999, 65504.0, 3.0e-3, 7.0],
    dtype=np.float64,
)


def _faces_cover(rng, nv, extra):
    """(m,3) faces with distinct indices per row referencing every vertex."""
    perm = rng.permutation(nv)
    pad = (-nv) % 3
    if pad:
        perm = np.concatenate([perm, rng.choice(perm[: nv - (3 - pad)], size=pad, replace=False)])
    F = [perm.reshape((-1, 3))]
    if extra:
        F.append(np.array([rng.choice(nv, size=3, replace=False) for _ in range(extra)]))
    return np.vstack(F).astype(np.int64)


_BIG = {}


def gen_mesh(cls, colors, gseed):
    rng = np.random.default_rng([stable_seed("mesh", cls), int(gseed)])
    vattr = fattr = None
    if cls == "empty":
        return MeshSpec(cls, "none", gseed, np.zeros((0, 3)), np.zeros((0, 3), dtype=np.int64))
    if cls == "points_only":
        # vertices but not a single face: as empty as a mesh with vertices can be
        return MeshSpec(cls, "none", gseed, rng.uniform(-1, 1, size=(int(rng.integers(1, 6)), 3)), np.zeros((0, 3), dtype=np.int64))
    if cls == "single_face":
        V = rng.uniform(-10, 10, size=(3, 3))
        F = np.array([[0, 1, 2]])
    elif cls == "soup_int":
        nv = int(rng.integers(4, 25))
        V = rng.integers(-99, 100, size=(nv, 3)).astype(np.float64)
        F = _faces_cover(rng, nv, int(rng.integers(0, 20)))
    elif cls in ("soup_unit", "attrs", "mag_1e-3", "mag_1e3", "mag_1e6", "mag_1e-9"):
        nv = int(rng.integers(4, 30))
        scale = {"mag_1e-3": 1e-3, "mag_1e3": 1e3, "mag_1e6": 1e6, "mag_1e-9": 1e-9}.get(cls, 1.0)
        V = rng.uniform(-1, 1, size=(nv, 3)) * scale
        F = _faces_cover(rng, nv, int(rng.integers(0, 25)))
        if cls == "attrs":
            vattr = {
                "temperature": rng.uniform(0, 100, nv).astype(np.float32),
                "weight": rng.uniform(0, 1, nv).astype(np.float64),
                "label": rng.integers(0, 60000, nv).astype(np.uint16),
            }
            fattr = {"group": rng.integers(0, 255, len(F)).astype(np.uint8)}
    elif cls == "mag_mixed":
        nv = int(rng.integers(4, 30))
        V = 10.0 ** rng.uniform(-3, 6, size=(nv, 3)) * rng.choice([-1.0, 1.0], size=(nv, 3))
        F = _faces_cover(rng, nv, int(rng.integers(0, 25)))
    elif cls == "special_values":
        nv = int(rng.integers(4, 20))
        V = rng.choice(_SPECIAL, size=(nv, 3))
        F = _faces_cover(rng, nv, int(rng.integers(0, 10)))
    elif cls == "seam":
        nv = int(rng.integers(6, 16))
        V0 = rng.uniform(-1, 1, size=(nv, 3))
        k = int(rng.integers(2, 5))
        near = V0[:k] + rng.choice([-3e-5, 3e-5], size=(k, 3))
        V = np.vstack([V0, V0[:k], near])  # exact duplicates, then near duplicates
        F = _faces_cover(rng, len(V), int(rng.integers(2, 12)))
    elif cls == "degenerate":
        nv = int(rng.integers(5, 15))
        V = rng.uniform(-1, 1, size=(nv, 3))
        V[1] = V[0]  # coincident pair -> zero length edge
        V[4] = 0.5 * (V[2] + V[3])  # collinear triple
        F = _faces_cover(rng, nv, 3)
        F = np.vstack([F, [[0, 1, 2], [2, 4, 3], [3, 3, 2], [2, 2, 2], F[0], F[0][::-1]]]).astype(np.int64)
    elif cls == "unreferenced":
        nv = int(rng.integers(8, 25))
        V = rng.uniform(-1, 1, size=(nv, 3))
        used = np.sort(rng.choice(nv, size=nv - 3, replace=False))
        F = used[_faces_cover(rng, len(used), 4)]
    elif cls == "big_sparse":
        key = (cls, int(gseed))
        if key not in _BIG:
            nv = 70001
            V = rng.uniform(-50, 50, size=(nv, 3))
            F = np.array([rng.choice(nv, size=3, replace=False) for _ in range(300)])
            F = np.vstack([F, [[65535, 65536, 70000], [0, 65534, 65537], [32767, 32768, 65535], [70000, 1, 65536]]])
            _BIG[key] = (V, F.astype(np.int64))
        V, F = _BIG[key]
    elif cls == "big_grid":
        key = (cls, int(gseed))
        if key not in _BIG:
            k = 265
            gx, gy = np.meshgrid(np.arange(k, dtype=np.float64), np.arange(k, dtype=np.float64), indexing="ij")
            V = np.column_stack([gx.ravel() * 0.37, gy.ravel() * 0.41, rng.uniform(-1, 1, k * k)])
            i, j = np.meshgrid(np.arange(k - 1), np.arange(k - 1), indexing="ij")
            a = (i * k + j).ravel()
            F = np.vstack([np.column_stack([a, a + k, a + k + 1]), np.column_stack([a, a + k + 1, a + 1])])
            _BIG[key] = (V, F.astype(np.int64))
        V, F = _BIG[key]
    else:
        raise ValueError(cls)
    fc = vc = None
    if colors == "face":
        fc = rng.integers(0, 256, size=(len(F), 4)).astype(np.uint8)
        fc[0] = [0, 0, 0, 0]
        fc[-1] = [255, 255, 255, 255]
    elif colors == "vertex":
        vc = rng.integers(0, 256, size=(len(V), 4)).astype(np.uint8)
        vc[0] = [255, 0, 1, 254]
        vc[-1] = [0, 0, 0, 0]
    return MeshSpec(cls, colors, gseed, V, F, fc=fc, vc=vc, vattr=vattr, fattr=fattr)


CLOUD_CLASSES = ("one", "few", "medium", "mag_mixed", "ints", "large")


def gen_cloud(cls, colors, gseed):
    rng = np.random.default_rng([stable_seed("cloud", cls), int(gseed)])
    n = {"one": 1, "few": int(rng.integers(2, 6)), "medium": 60, "mag_mixed": 30, "ints": 12, "large": 3000}[cls]
    if cls == "mag_mixed":
        P = 10.0 ** rng.uniform(-3, 6, size=(n, 3)) * rng.choice([-1.0, 1.0], size=(n, 3))
    elif cls == "ints":
        P = rng.integers(-1000, 1000, size=(n, 3)).astype(np.float64)
    else:
        P = rng.uniform(-10, 10, size=(n, 3))
    C = None
    if colors == "rgba":
        C = rng.integers(0, 256, size=(n, 4)).astype(np.uint8)
        C[0] = [255, 0, 1, 254]
    return CloudSpec(cls, colors, gseed, P, C)


PATH2D_CLASSES = ("polygon", "polyline", "arc", "circle", "mixed", "mixed_small", "mixed_large", "shared")
PATH3D_CLASSES = ("lines3d_one", "lines3d_multi", "arcs3d", "lines3d_small")
# Bezier / B-spline entities: only for formats that store entities as such (PATH_FORMATS "curves")
PATH2D_CURVE_CLASSES = ("bezier", "bspline", "curves_mixed")
PATH3D_CURVE_CLASSES = ("curves3d",)
_ARC_SPANS = [(60, 150), (210, 300)]


def _arc_points(rng, c, r, closed=False):
    a0 = rng.uniform(0, 2 * np.pi)
    if closed:
        ang = a0 + np.array([0, 2 * np.pi / 3, 4 * np.pi / 3])
    else:
        lo, hi = _ARC_SPANS[int(rng.integers(2))]
        sp = np.radians(rng.uniform(lo, hi)) * rng.choice([-1.0, 1.0])
        ang = a0 + np.array([0, sp / 2, sp])
    return np.column_stack([c[0] + r * np.cos(ang), c[1] + r * np.sin(ang)])


def gen_path(cls, gseed):
    rng = np.random.default_rng([stable_seed("path", cls), int(gseed)])
    V, E = [], []

    def add(points, kind, closed=False, close_line=False):
        start = sum(len(v) for v in V)
        V.append(np.asarray(points, dtype=np.float64))
        idx = list(range(start, start + len(points)))
        if kind == "line":
            if close_line:
                idx.append(idx[0])
            E.append(("line", idx))
        else:
            E.append(("arc", idx, closed))

    if cls in PATH2D_CURVE_CLASSES or cls in PATH3D_CURVE_CLASSES:
        dim = 3 if cls in PATH3D_CURVE_CLASSES else 2
        kinds = {"bezier": ["bezier"], "bspline": ["bspline"]}.get(cls) or ["line", "bezier", "bspline", "arc"][: int(rng.integers(3, 5))]
        n = 0
        for k, kd in enumerate(kinds):
            off = np.zeros(dim)
            off[0] = 20.0 * k
            if kd == "arc":
                p2 = _arc_points(rng, (0.0, 0.0), rng.uniform(0.5, 4.0))
                P = np.column_stack([p2, np.zeros((3, dim - 2))]) + off
                E.append(("arc", list(range(n, n + 3)), False))
            else:
                m = 4 if kd == "bezier" else int(rng.integers(2 if kd == "line" else 4, 8))
                P = rng.uniform(-5, 5, size=(m, dim)) + off
                idx = list(range(n, n + m))
                if kd == "bspline":
                    # clamped cubic knot vector: m + 4 knots
                    inner = np.sort(rng.uniform(0.1, 0.9, size=m - 4)).tolist()
                    E.append(("bspline", idx, [0.0] * 4 + inner + [1.0] * 4))
                else:
                    E.append((kd, idx))
            V.append(P)
            n += len(P)
        return PathSpec(cls, gseed, np.vstack(V), E)

    if cls in PATH3D_CLASSES:
        n_ent = 1 if cls == "lines3d_one" else int(rng.integers(2, 5))
        if cls == "lines3d_small":
            # a polyline of a drawing in small units (all coordinates of order 1e-3)
            for k in range(n_ent):
                add(rng.uniform(-3e-3, 3e-3, size=(int(rng.integers(2, 7)), 3)), "line")
            return PathSpec(cls, gseed, np.vstack(V), E)
        for k in range(n_ent):
            off = rng.uniform(-20, 20, size=3)
            if cls == "arcs3d" and k % 2 == 0:
                # arc in a random plane
                p2 = _arc_points(rng, (0.0, 0.0), rng.uniform(0.5, 4.0))
                q = rng.normal(size=(3, 3))
                Q, _ = np.linalg.qr(q)
                add(np.column_stack([p2, np.zeros(3)]) @ Q.T + off, "arc", False)
            else:
                m = int(rng.integers(2, 7))
                add(rng.uniform(-3, 3, size=(m, 3)) + off, "line", close_line=bool(rng.integers(2)) and m > 2)
        return PathSpec(cls, gseed, np.vstack(V), E)

    scale = {"mixed_small": 1e-2, "mixed_large": 1e3}.get(cls, 1.0)
    kinds = {
        "polygon": ["polygon"], "polyline": ["polyline"], "arc": ["arc"], "circle": ["circle"],
        "shared": ["shared"],
    }.get(cls) or [rng.choice(["polygon", "polyline", "arc", "circle"]) for _ in range(int(rng.integers(2, 7)))]
    if cls.startswith("mixed"):
        kinds = list(kinds) + ["polygon", "arc"]
    for k, kd in enumerate(kinds):
        off = np.array([k * 25.0, rng.uniform(-10, 10)])
        if kd == "polygon":
            m = int(rng.integers(3, 8))
            ang = np.sort(rng.uniform(0, 2 * np.pi, m))
            rad = rng.uniform(1, 5, m)
            add(np.column_stack([rad * np.cos(ang), rad * np.sin(ang)]) + off, "line", close_line=True)
        elif kd == "polyline":
            m = int(rng.integers(2, 7))
            add(rng.uniform(-5, 5, size=(m, 2)) + off, "line")
        elif kd == "arc":
            add(_arc_points(rng, off, rng.uniform(0.5, 6.0)), "arc", False)
        elif kd == "circle":
            add(_arc_points(rng, off, rng.uniform(0.5, 6.0), closed=True), "arc", True)
        elif kd == "shared":
            # polyline whose end point index is the arc's start index
            pts = rng.uniform(-5, 5, size=(3, 2)) + off
            arc = _arc_points(rng, off + 9.0, 3.0)
            start = sum(len(v) for v in V)
            V.append(np.vstack([pts, arc]))
            E.append(("line", [start, start + 1, start + 2, start + 3]))
            E.append(("arc", [start + 3, start + 4, start + 5], False))
    return PathSpec(cls, gseed, np.vstack(V) * scale, E)


VOXEL_CLASSES = ("n1", "n2", "n3", "n5", "n8", "n16_sparse", "n32_sparse", "full", "empty_cells", "mirror_x", "mirror_yz", "sparse_enc", "reloaded",
                 "box_abb", "box_aab", "box_aba", "box_abc", "box_uniform_extent", "box_uniform_extent_mirror")
# shape -> pitch factors that make pitch * (shape - 1) the same on the three axes
_BOX_UNIFORM = [((3, 5, 5), (2.0, 1.0, 1.0)), ((5, 3, 3), (1.0, 2.0, 2.0)), ((2, 4, 7), (6.0, 2.0, 1.0)), ((3, 3, 5), (2.0, 2.0, 1.0)), ((4, 2, 4), (1.0, 3.0, 1.0))]


def gen_voxel(cls, gseed):
    rng = np.random.default_rng([stable_seed("voxel", cls), int(gseed)])
    if cls.startswith("box_"):
        # non-cubic grids.  One `scale` is all a binvox file stores, so only grids whose first-to-
        # last-centre extents agree on the three axes are representable ("uniform"); the exporter
        # documents a ValueError for the others.  Extents of the other classes differ by >= 20 %.
        pitch = float(rng.choice([0.5, 1.0, 0.25, 2.0, 0.37]))
        if cls.startswith("box_uniform_extent"):
            shape, fac = _BOX_UNIFORM[int(rng.integers(len(_BOX_UNIFORM)))]
            pitch = pitch * np.array(fac)
        else:
            a, b, c = (int(x) for x in rng.choice(np.arange(2, 8), size=3, replace=False))
            shape = {"box_abb": (a, b, b), "box_aab": (a, a, b), "box_aba": (a, b, a), "box_abc": (a, b, c)}[cls]
        mat = rng.random(shape) < 0.5
        mat[0, 0, 0] = mat[-1, -1, -1] = True
        mirror = (int(rng.integers(3)),) if cls.endswith("_mirror") else ()
        return VoxelSpec(cls, gseed, mat, pitch, rng.uniform(-10, 10, size=3), mirror=mirror)
    n = {"n1": 1, "n2": 2, "n3": 3, "n5": 5, "n8": 8, "n16_sparse": 16, "n32_sparse": 32}.get(cls, int(rng.integers(2, 9)))
    dens = {"n16_sparse": 0.01, "n32_sparse": 0.003, "full": 1.0, "empty_cells": 0.0}.get(cls, float(rng.choice([0.1, 0.3, 0.6])))
    mat = rng.random((n, n, n)) < dens
    if cls == "full":
        mat[:] = True
    if cls == "n1":
        mat[:] = True
    pitch = float(rng.choice([0.5, 1.0, 0.1, 3.0, 0.37]))
    origin = rng.uniform(-10, 10, size=3)
    mirror = {"mirror_x": (0,), "mirror_yz": (1, 2)}.get(cls, ())
    enc = {"sparse_enc": "sparse", "reloaded": "reloaded"}.get(cls, "dense")
    if enc == "reloaded":
        pitch = float(rng.choice([0.5, 1.0, 0.25, 2.0]))  # pitch (n-1) / (n-1) is exact
    return VoxelSpec(cls, gseed, mat, pitch, origin, mirror=mirror, enc=enc)


SCENE_CLASSES = (
    "flat_same", "flat_renamed", "instanced", "nested", "nested_similarity", "nested_mirror",
    "nested_affine", "internal_geom", "internal_geom_same", "random", "with_cloud", "with_path",
    "with_empty_geometry",
    # round 4: node names an exporter / loader may treat specially; a base frame that is not
    # called "world"; edges within 1e-8 of the identity (small units); drawings in a scene
    "names_special", "base_renamed", "tiny_offsets", "with_path2d",
    # round 5: scenes modelled in small units whose ONLY instance (or every instance) is placed
    # by a transform within 1e-8 of the identity: the scenes a "one mesh at the identity needs
    # no baking" shortcut of a flattening exporter (stl, ply, obj) takes for unplaced ones
    "tiny_single", "tiny_single_turned", "tiny_single_nested", "tiny_single_scaled", "tiny_instanced",
)
TINY_CLASSES = ("tiny_offsets", "tiny_single", "tiny_single_turned", "tiny_single_nested", "tiny_single_scaled", "tiny_instanced")
# scenes of Path2D drawings placed by planar transforms: for the formats that export them (svg)
SVG_SCENE_CLASSES = ("drawings_flat", "drawings_instanced", "drawings_nested")
_SPECIAL_NAMES = ("cameraman", "a<b&c\"d", "sp ace", "\u00fcn\u00ef", "0", "material_0")


def gen_planar(rng, mode):
    """4x4 matrix acting in the XY plane: translation | rigid | similarity"""
    M = np.eye(4)
    if mode != "translation":
        t = rng.uniform(0.2, 2 * np.pi - 0.2)
        M[:2, :2] = [[np.cos(t), -np.sin(t)], [np.sin(t), np.cos(t)]]
    if mode == "similarity":
        M[:2, :2] *= float(rng.choice([0.5, 2.0, 3.7]))
    M[:2, 3] = rng.uniform(-30, 30, size=2)
    return M


def _rand_rot(rng):
    q = rng.normal(size=4)
    q /= np.linalg.norm(q)
    w, x, y, z = q
    R = np.array(
        [
            [1 - 2 * (y * y + z * z), 2 * (x * y - z * w), 2 * (x * z + y * w)],
            [2 * (x * y + z * w), 1 - 2 * (x * x + z * z), 2 * (y * z - x * w)],
            [2 * (x * z - y * w), 2 * (y * z + x * w), 1 - 2 * (x * x + y * y)],
        ]
    )
    M = np.eye(4)
    M[:3, :3] = R
    return M


def gen_matrix(rng, mode):
    """mode: identity | translation | rigid | similarity | mirror | affine"""
    M = np.eye(4)
    if mode == "identity":
        return M
    if mode != "translation":
        M = _rand_rot(rng)
    if mode == "similarity":
        M[:3, :3] *= float(rng.choice([1e-3, 0.5, 2.0, 1e3, 3.7]))
    elif mode == "mirror":
        D = np.eye(4)
        a = int(rng.integers(3))
        D[a, a] = -1
        M = M @ D
    elif mode == "affine":
        while True:
            L = rng.normal(size=(3, 3))
            if np.linalg.cond(L) < 50 and np.linalg.det(L) > 0.05:
                break
        M[:3, :3] = L
    M[:3, 3] = rng.uniform(-8, 8, size=3)
    return M


def gen_scene(cls, gseed):
    rng = np.random.default_rng([stable_seed("scene", cls), int(gseed)])
    geoms = {}
    if cls in SVG_SCENE_CLASSES:
        pc = ["polygon", "arc", "mixed", "circle", "polyline"]
        for i in range(2):
            geoms["drawing%c" % (65 + i)] = gen_path(pc[int(rng.integers(len(pc)))], int(rng.integers(2**31)))
        names, nodes = list(geoms), []
        modes = ["translation", "rigid"] if cls != "drawings_nested" else ["translation", "rigid", "similarity"]

        def pmat():
            return gen_planar(rng, modes[int(rng.integers(len(modes)))])

        if cls == "drawings_flat":
            for n in names:
                nodes.append((n, None, pmat(), n))
        elif cls == "drawings_instanced":
            nodes.append((names[0], None, np.eye(4), names[0]))
            for i in range(int(rng.integers(1, 3))):
                nodes.append(("copy%d" % i, None, pmat(), names[0]))
            nodes.append((names[1], None, pmat(), names[1]))
        else:
            nodes.append(("sheet", None, pmat(), None))
            nodes.append((names[0], "sheet", pmat(), names[0]))
            nodes.append(("detail", "sheet", pmat(), None))
            nodes.append((names[1], "detail", pmat(), names[1]))
        return SceneSpec(cls, gseed, geoms, nodes)
    if cls == "names_special":
        # leaves under the base frame, node name == geometry name (the layout every format gets
        # right with ordinary names), plus one group node with a special name above a leaf
        pick = ["camera_housing"] + [str(x) for x in rng.choice(_SPECIAL_NAMES, size=3, replace=False)]
        nodes = []
        for n in pick + ["plain", "below"]:
            geoms[n] = gen_mesh(["soup_unit", "soup_int", "single_face"][int(rng.integers(3))], "none", int(rng.integers(2**31)))
        for n in pick + ["plain"]:
            nodes.append((n, None, gen_matrix(rng, ["rigid", "translation"][int(rng.integers(2))]), n))
        nodes.append(("camera_rig", None, gen_matrix(rng, "rigid"), None))
        nodes.append(("below", "camera_rig", gen_matrix(rng, "translation"), "below"))
        return SceneSpec(cls, gseed, geoms, nodes)
    if cls == "base_renamed":
        # the base frame is called "base"; one of the nodes is called like the default base frame
        nodes = []
        for n in ("world", "arm"):
            geoms[n] = gen_mesh(["soup_unit", "soup_int"][int(rng.integers(2))], "none", int(rng.integers(2**31)))
            nodes.append((n, None, gen_matrix(rng, ["rigid", "translation"][int(rng.integers(2))]), n))
        return SceneSpec(cls, gseed, geoms, nodes, base="base")
    if cls == "tiny_offsets":
        # (a) a scene modelled in small units: parts of size 1e-9 placed 1e-9 .. 9e-9 apart;
        # (b) a group turned by a few 1e-9 rad whose child is 1e6 away (moves by ~ 4e-3).
        # Both edges are within 1e-8 of the identity in every entry without being the identity.
        for n in ("left", "right"):
            geoms[n] = gen_mesh("mag_1e-9", "none", int(rng.integers(2**31)))
        geoms["far"] = gen_mesh("mag_1e3", "none", int(rng.integers(2**31)))
        T = np.eye(4)
        T[:3, 3] = rng.uniform(2e-9, 9e-9, size=3) * rng.choice([-1.0, 1.0], size=3)
        a = float(rng.uniform(3e-9, 6e-9)) * float(rng.choice([-1.0, 1.0]))
        R = np.eye(4)
        R[:2, :2] = [[np.cos(a), -np.sin(a)], [np.sin(a), np.cos(a)]]
        F = np.eye(4)
        F[:3, 3] = [float(rng.uniform(1e6, 2e6)), 0.0, 0.0]
        nodes = [("left", None, np.eye(4), "left"), ("right", None, T, "right"), ("rig", None, R, None), ("far", "rig", F, "far")]
        return SceneSpec(cls, gseed, geoms, nodes)
    if cls in TINY_CLASSES:
        # one part of size 1e-9 (node name == geometry name, the layout every format gets right)
        # whose world transform differs from the identity by less than 1e-8 in every entry and
        # still moves it by about its own size
        geoms["part"] = gen_mesh("mag_1e-9", "none", int(rng.integers(2**31)))

        # Every entry of (world matrix - identity) stays within +-4e-9, so the matrix passes
        # `util.allclose(M, eye)` (peak-to-peak of the difference < 1e-8) as well as a plain
        # max-abs < 1e-8 test: whichever way "is the identity" is decided, the case reaches it.
        def shift(f=1.0):
            T = np.eye(4)
            T[:3, 3] = f * rng.uniform(5e-10, 4e-9, size=3) * rng.choice([-1.0, 1.0], size=3)
            return T

        if cls == "tiny_single":
            nodes = [("part", None, shift(), "part")]
        elif cls == "tiny_single_turned":
            a = float(rng.uniform(1e-9, 3e-9)) * float(rng.choice([-1.0, 1.0]))
            M = shift()
            i, j = [(0, 1), (1, 2), (0, 2)][int(rng.integers(3))]
            M[i, i] = M[j, j] = np.cos(a)
            M[i, j], M[j, i] = -np.sin(a), np.sin(a)
            nodes = [("part", None, M, "part")]
        elif cls == "tiny_single_scaled":
            # a scale of 1 + few 1e-9 is below anything a format resolves; the shift is not
            M = shift()
            M[:3, :3] *= 1.0 + float(rng.uniform(1e-9, 3e-9))
            nodes = [("part", None, M, "part")]
        elif cls == "tiny_single_nested":
            # the placement sits on a group node, the leaf itself is at the identity (or shifted
            # once more): one geometry node whose WORLD transform is near the identity
            leaf = np.eye(4) if rng.random() < 0.5 else shift(0.5)
            nodes = [("rig", None, shift(0.5), None), ("part", "rig", leaf, "part")]
        else:  # tiny_instanced: every instance near the identity, none at it
            # (the copies hang below a group: a leaf of the base frame named unlike its geometry
            # is lost by the 3MF exporter whatever its transform, finding T1)
            nodes = [("part", None, shift(), "part"), ("rig", None, shift(0.5), None)]
            for i in range(int(rng.integers(1, 3))):
                nodes.append(("copy%d" % i, "rig", shift(0.5), "part"))
        return SceneSpec(cls, gseed, geoms, nodes)
    ng = 2 if cls != "random" else int(rng.integers(1, 4))
    mesh_cls = ["soup_unit", "soup_int", "seam", "single_face"]
    for i in range(ng):
        colors = ["none", "vertex", "face"][int(rng.integers(3))] if cls == "random" else "none"
        geoms["geom%c" % (65 + i)] = gen_mesh(mesh_cls[int(rng.integers(len(mesh_cls)))], colors, int(rng.integers(2**31)))
    names = list(geoms)
    nodes = []
    modes = {
        "nested_similarity": ["rigid", "similarity"], "nested_mirror": ["rigid", "mirror"],
        "nested_affine": ["rigid", "affine", "similarity"],
        "random": ["rigid", "similarity", "translation", "identity", "mirror", "affine"],
    }.get(cls, ["rigid", "translation"])

    def mat():
        return gen_matrix(rng, modes[int(rng.integers(len(modes)))])

    if cls == "flat_same":
        for n in names:
            nodes.append((n, None, mat(), n))
    elif cls == "flat_renamed":
        for i, n in enumerate(names):
            nodes.append(("node%d" % i, None, mat(), n))
    elif cls == "instanced":
        for i in range(int(rng.integers(2, 5))):
            nodes.append(("inst%d" % i, None, mat(), names[0]))
        nodes.append((names[1], None, mat(), names[1]))
    elif cls.startswith("nested"):
        nodes.append(("grp1", None, mat(), None))
        nodes.append(("grp2", "grp1", mat(), None))
        nodes.append(("grp3", "grp2", mat(), None))
        nodes.append(("leafA", "grp2", mat(), names[0]))
        nodes.append((names[1], "grp1", mat(), names[1]))
        nodes.append(("leafC", "grp3", mat(), names[0]))
        nodes.append(("leafD", "grp3", gen_matrix(rng, "identity"), names[1]))
    elif cls in ("internal_geom", "internal_geom_same"):
        top = names[0] if cls.endswith("same") else "top"
        nodes.append((top, None, mat(), names[0]))
        nodes.append(("mid", top, mat(), names[1]))
        nodes.append(("low", "mid", mat(), names[0]))
    elif cls == "random":
        nn = int(rng.integers(1, 9))
        made = []
        for i in range(nn):
            parent = None if not made or rng.random() < 0.35 else made[int(rng.integers(len(made)))]
            depth = 0
            p = parent
            while p is not None:
                depth += 1
                p = next(x[1] for x in nodes if x[0] == p)
            if depth >= 4:
                parent = None
            geom = names[int(rng.integers(len(names)))] if rng.random() < 0.7 else None
            node = geom if (geom is not None and geom not in made and rng.random() < 0.4) else "n%d" % i
            M = mat()
            if geom is not None and np.array_equal(M, I4):
                # two instances of one geometry must never coincide (they could not be told apart)
                M = gen_matrix(rng, "translation")
            nodes.append((node, parent, M, geom))
            made.append(node)
        if not any(g is not None for _, _, _, g in nodes):
            nodes.append(("only", None, mat(), names[0]))
    elif cls == "with_cloud":
        geoms["cloud"] = gen_cloud("few", ["none", "rgba"][int(rng.integers(2))], int(rng.integers(2**31)))
        nodes.append((names[0], None, mat(), names[0]))
        nodes.append(("cloudnode", None, mat(), "cloud"))
        nodes.append(("cloud2", "cloudnode", mat(), "cloud"))
    elif cls == "with_empty_geometry":
        # a geometry that exports nothing (vertices but no faces) AFTER one that does and
        # before another one: nothing of it may come back, and nothing else may take its node
        V = rng.uniform(-1, 1, size=(5, 3))
        third = geoms.pop(names[1])
        geoms["hollow"] = MeshSpec("points_only", "none", int(rng.integers(2**31)), V, np.zeros((0, 3), dtype=np.int64))
        geoms[names[1]] = third
        nodes.append((names[0], None, mat(), names[0]))
        nodes.append(("hollownode", None, gen_matrix(rng, "translation"), "hollow"))
        nodes.append((names[1], None, mat(), names[1]))
        nodes.append(("second_hollow", names[0], gen_matrix(rng, "translation"), "hollow"))
    elif cls in ("with_path", "with_path2d"):
        pcls = ["lines3d_one", "lines3d_multi"] if cls == "with_path" else ["polygon", "polyline"]
        geoms["path"] = gen_path(pcls[int(rng.integers(2))], int(rng.integers(2**31)))
        nodes.append((names[0], None, mat(), names[0]))
        nodes.append(("pathnode", None, mat(), "path"))
    else:
        raise ValueError(cls)
    used = {g for _, _, _, g in nodes if g is not None}
    geoms = {k: v for k, v in geoms.items() if k in used}
    return SceneSpec(cls, gseed, geoms, nodes)


def make_spec(gen):
    k = gen["kind"]
    if k == "mesh":
        return gen_mesh(gen["cls"], gen["colors"], gen["gseed"])
    if k == "pointcloud":
        return gen_cloud(gen["cls"], gen["colors"], gen["gseed"])
    if k == "path":
        return gen_path(gen["cls"], gen["gseed"])
    if k == "voxel":
        return gen_voxel(gen["cls"], gen["gseed"])
    if k == "scene":
        return gen_scene(gen["cls"], gen["gseed"])
    raise ValueError(k)


# ----------------------------------------------------------------------------
# format tables (hand derived from the exporter code; formats found in the registries that
# are not listed here run with FMT_GENERIC)


def _ply_q(eo):
    # both encodings declare `property float x`: what the format stores is a float32.  (Until
    # round 4 the ascii encoding was allowed the exporter's own '{:.8f}' grid, see _ply_loose.)
    return q_f32


def _ply_loose(eo):
    """
    Second, wider quantiser used ONLY to name a symptom: a primitive that is not found within the
    format's precision but is found within this one is 'coords_beyond_precision' rather than
    'missing' (the absolute 1e-8 grid the ascii PLY writer prints on).
    """
    return q_ply_ascii if eo.get("encoding") == "ascii" else None


def _ply_colors(eo, lo):
    # PLY carries per-face `red green blue alpha` in either encoding (the ascii reader loads
    # them); until round 4 the ascii writer's silent omission was taken for the format's limit
    return {"vertex_rgba", "face_rgba"}


def _obj_colors(eo, lo):
    if eo.get("include_color", True) and eo.get("digits", 8) >= 3:
        return {"vertex_rgb"}
    return set()


MESH_FORMATS = {
    "stl": {"q": lambda eo: q_f32, "colors": lambda eo, lo: set(), "eopts": [{}], "lopts": [{}], "indexed": False},
    "stl_ascii": {"q": lambda eo: q_exact, "colors": lambda eo, lo: set(), "eopts": [{}], "lopts": [{}], "indexed": False},
    "ply": {
        "q": _ply_q, "colors": _ply_colors, "indexed": True,
        "eopts": [{}, {"encoding": "ascii"}, {"vertex_normal": True}, {"encoding": "ascii", "vertex_normal": True},
                  {"vertex_normal": False}, {"include_attributes": False}, {"encoding": "ascii", "include_attributes": False},
                  {"_prep": "vertex_normals"}, {"encoding": "binary_little_endian"}],
        "lopts": [{}, {"fix_texture": False}, {"prefer_color": "face"}],
    },
    "off": {
        "q": lambda eo: q_dec(eo.get("digits", 10)), "colors": lambda eo, lo: set(), "indexed": True,
        "eopts": [{}, {"digits": 3}, {"digits": 6}, {"digits": 14}, {"digits": 0}], "lopts": [{}],
    },
    "obj": {
        "q": lambda eo: q_dec(eo.get("digits", 8)), "colors": _obj_colors, "indexed": False,
        "eopts": [{}, {"digits": 3}, {"digits": 5}, {"digits": 12}, {"include_normals": True}, {"include_normals": False},
                  {"include_color": False}, {"header": None}, {"_prep": "vertex_normals"}, {"include_texture": False},
                  {"digits": 2}],
        "lopts": [{}, {"maintain_order": True}, {"group_material": False}, {"skip_materials": True}],
    },
    "glb": {
        "q": lambda eo: q_f32, "colors": lambda eo, lo: {"vertex_rgba"}, "indexed": True,
        "eopts": [{}, {"include_normals": True}, {"include_normals": True, "unitize_normals": False},
                  {"include_normals": False}, {"_prep": "vertex_normals"}],
        "lopts": [{}, {"merge_primitives": True}, {"skip_materials": True}, {"ignore_broken": True}],
    },
    "gltf": {
        "q": lambda eo: q_f32, "colors": lambda eo, lo: {"vertex_rgba"}, "indexed": True,
        "eopts": [{}, {"merge_buffers": True}, {"embed_buffers": True}, {"merge_buffers": True, "embed_buffers": True},
                  {"include_normals": True}, {"include_normals": True, "merge_buffers": True}],
        "lopts": [{}, {"merge_primitives": True}, {"skip_materials": True}],
    },
    "3mf": {
        "q": lambda eo: q_exact, "colors": lambda eo, lo: set(), "indexed": True,
        "eopts": [{}, {"batch_size": 1}, {"batch_size": 7}, {"compression": zipfile.ZIP_STORED}, {"compresslevel": 9}],
        "lopts": [{}, {"postprocess": False}],
    },
    # dae: export_collada writes a COLOR source with one RGB triple per vertex and load_collada parses it
    "dae": {"q": lambda eo: q_sig(7, f32=True), "colors": lambda eo, lo: {"vertex_rgb"}, "eopts": [{}], "lopts": [{}], "indexed": False},
    "dict": {"q": lambda eo: q_exact, "colors": lambda eo, lo: {"vertex_rgba", "face_rgba"}, "eopts": [{}], "lopts": [{}], "indexed": True},
    "dict64": {"q": lambda eo: q_exact, "colors": lambda eo, lo: {"vertex_rgba", "face_rgba"}, "eopts": [{}], "lopts": [{}], "indexed": True},
}
FMT_GENERIC = {"q": lambda eo: q_generic, "colors": lambda eo, lo: set(), "eopts": [{}], "lopts": [{}], "indexed": False}

# exporters that accept a PointCloud (from the code: xyz is cloud only; ply / gltf have a
# vertices-only branch; export_obj accepts `PointCloud` by name).  Everything else is a mesh
# only exporter: its outcome on a cloud is counted, never judged.
CLOUD_FORMATS = {
    "xyz": {
        "q": lambda eo: q_dec(8),
        "colors": lambda eo, lo: {"rgba"} if eo.get("write_colors", True) else set(),
        "eopts": [{}, {"write_colors": False}, {"delimiter": ","}, {"delimiter": ";"}, {"write_colors": False, "delimiter": ","},
                  {"write_colors": False, "delimiter": ";"}],
        "lopts_for": lambda eo: {"delimiter": ";"} if eo.get("delimiter") == ";" else {},
    },
    "ply": {"q": _ply_q, "colors": lambda eo, lo: {"rgba"}, "eopts": [{}, {"encoding": "ascii"}]},
    "glb": {"q": lambda eo: q_f32, "colors": lambda eo, lo: {"rgba"}, "eopts": [{}]},
    "gltf": {"q": lambda eo: q_f32, "colors": lambda eo, lo: {"rgba"}, "eopts": [{}, {"merge_buffers": True}, {"embed_buffers": True}]},
    "obj": {"q": lambda eo: q_dec(eo.get("digits", 8)), "colors": lambda eo, lo: {"rgb"} if eo.get("include_color", True) else set(),
            "eopts": [{}, {"digits": 5}, {"include_color": False}]},
}

# scene exports (export_scene): graph carrying formats keep local vertices + node matrices,
# the others bake world coordinates with Scene.to_mesh()/dump()
SCENE_FORMATS = {
    "glb": {"graph": True, "q": lambda eo: q_f32, "eopts": [{}, {"include_normals": True}], "paths": True, "clouds": True},
    "gltf": {"graph": True, "q": lambda eo: q_f32, "eopts": [{}, {"merge_buffers": True}, {"embed_buffers": True}], "paths": True, "clouds": True},
    "3mf": {"graph": True, "q": lambda eo: q_exact, "eopts": [{}, {"batch_size": 5}]},
    # dict: scene_to_dict stores every geometry as geometry.export('dict'): paths have one
    # (path.exchange.export.export_dict); there is no 'dict64' exporter for paths.
    "dict": {"graph": True, "q": lambda eo: q_exact, "eopts": [{}], "paths": True},
    "dict64": {"graph": True, "q": lambda eo: q_exact, "eopts": [{}]},
    "obj": {"graph": False, "q": lambda eo: q_dec(eo.get("digits", 8)), "eopts": [{}, {"digits": 11}]},
    "ply": {"graph": False, "q": _ply_q, "q_loose": _ply_loose, "eopts": [{}, {"encoding": "ascii"}]},
    "stl": {"graph": False, "q": lambda eo: q_f32, "eopts": [{}]},
    # svg: export_scene hands the scene to svg_io.export_svg, which has a Scene branch: Path2D
    # geometries only (judge_scene_svg; scene classes SVG_SCENE_CLASSES)
    "svg": {"graph": False, "svg": True, "q": None, "eopts": [{}, {"digits": 8}]},
}

PATH_FORMATS = {
    "dxf": {"dims": (2,), "eopts": [{}], "arcs": True},
    "svg": {"dims": (2,), "eopts": [{}, {"digits": 8}, {"digits": 5}], "arcs": True},
    "dict": {"dims": (2, 3), "eopts": [{}], "arcs": True, "curves": True},
    "ply": {"dims": (3,), "eopts": [{}, {"encoding": "ascii"}], "arcs": False},
}


def opt_str(eo, lo):
    def one(d, pre):
        out = []
        for k in sorted(d):
            v = d[k]
            if isinstance(v, (bool, str)) or v is None:
                out.append("%s%s=%s" % (pre, k, v))
            else:
                out.append("%s%s" % (pre, k))
        return out

    parts = one(eo, "") + one(lo, "load.")
    return ",".join(parts) if parts else "default"


# ----------------------------------------------------------------------------
# reading reloaded objects


def walk_scene(scene):
    """[(node, geometry name, world matrix)] by an own traversal of the reloaded graph."""
    g = scene.graph
    ed = dict(g.transforms.edge_data)
    nd = dict(g.transforms.node_data)
    children, loops = {}, 0
    for a, b in ed:
        if a == b:
            loops += 1
            continue
        children.setdefault(a, []).append(b)
    out, seen, stack = [], set(), [(g.base_frame, I4)]
    while stack:
        n, M = stack.pop()
        if n in seen:
            continue
        seen.add(n)
        gname = nd.get(n, {}).get("geometry")
        if gname is not None and gname in scene.geometry:
            out.append((n, gname, M))
        for c in children.get(n, ()):
            mat = ed[(n, c)].get("matrix")
            mat = I4 if mat is None else np.asarray(mat, dtype=np.float64)
            stack.append((c, M @ mat))
    return out, loops


def instances_of(obj):
    """[(geometry object, world matrix)] of whatever a load route returned."""
    import trimesh

    if isinstance(obj, trimesh.Scene):
        inst, loops = walk_scene(obj)
        return [(obj.geometry[g], M) for _, g, M in inst], loops
    return [(obj, I4)], 0


class LibraryError(Exception):
    def __init__(self, stage, exc):
        Exception.__init__(self, "%s raised %s: %s" % (stage, type(exc).__name__, str(exc)[:200]))
        self.stage, self.exc = stage, exc

    @property
    def sym(self):
        return "%s_raised:%s" % (self.stage, type(self.exc).__name__)


def _to_bytes(data):
    return data.encode("utf-8") if isinstance(data, str) else data


def _inject_no_process(d):
    """copy of an exported plain dict with process=False added to every mesh entry."""
    if not isinstance(d, dict):
        return d
    out = dict(d)
    if "vertices" in out and "faces" in out and not isinstance(out["vertices"], dict):
        out["process"] = False
    if isinstance(out.get("data"), dict):
        out["data"] = _inject_no_process(out["data"])
    if isinstance(out.get("geometry"), dict):
        out["geometry"] = {k: _inject_no_process(v) for k, v in out["geometry"].items()}
    return out


def do_export(obj, fmt, eo, route, tmp):
    """-> payload understood by do_load.  Raises LibraryError('export')."""
    kw = {k: v for k, v in eo.items() if not k.startswith("_")}
    try:
        if route == "file":
            path = os.path.join(tmp, "model." + fmt)
            obj.export(path, **kw)
            return ("path", path)
        data = obj.export(file_type=fmt, **kw)
    except Exception as e:  # noqa
        raise LibraryError("export", e)
    return ("data", data)


def do_load(fmt, payload, route, lo, process_kw=True):
    """Raises LibraryError('load')."""
    import trimesh

    kind, data = payload
    kw = dict(lo)
    if process_kw:
        kw["process"] = False
    try:
        if kind == "path":
            fn = trimesh.load if route == "file" else getattr(trimesh, route)
            return fn(data, **kw)
        if route == "load_dict":
            from trimesh.exchange.misc import load_dict

            return trimesh.Trimesh(process=False, **load_dict(dict(data)))
        fn = getattr(trimesh, route)
        if isinstance(data, dict) and fmt in ("dict", "dict64"):
            return fn(_inject_no_process(data))
        if isinstance(data, dict):
            # multi-file export (gltf): hand the side files to a resolver
            res = trimesh.resolvers.ZipResolver({k: io.BytesIO(v) for k, v in data.items()})
            main = data.get("model.gltf")
            if main is None:
                main = next(v for k, v in data.items() if k.endswith("." + fmt))
            return fn(io.BytesIO(main), file_type=fmt, resolver=res, **kw)
        return fn(io.BytesIO(_to_bytes(data)), file_type=fmt, **kw)
    except Exception as e:  # noqa
        raise LibraryError("load", e)


def _prep(obj, eo):
    if eo.get("_prep") == "vertex_normals":
        obj.vertex_normals  # noqa: populate the cache so include_normals=None takes the other branch


class Result:
    def __init__(self):
        self.symptoms = []  # (sym, features override or None, detail dict)
        self.compared = 0
        self.err = 0.0  # max abs error
        self.ratio = 0.0  # max err / allowed
        self.allowed = 0.0
        self.info = {}
        self.refused = None

    def add(self, sym, detail=None, feat=None):
        self.symptoms.append((sym, feat, detail or {}))

    def coords(self, expected, got, tol):
        """elementwise |got-expected| <= tol; returns True when within."""
        d = np.abs(np.asarray(got, dtype=np.float64) - expected)
        self.compared += int(d.size)
        if d.size == 0:
            return True
        bad = ~(d <= tol)
        finite = np.where(np.isfinite(d), d, np.inf)
        k = int(np.argmax(finite))
        self.err = max(self.err, float(finite.flat[k]))
        with np.errstate(divide="ignore", invalid="ignore"):
            r = np.where(tol > 0, finite / np.where(tol > 0, tol, 1), np.where(finite > 0, np.inf, 0.0))
        self.ratio = max(self.ratio, float(r.max()))
        self.allowed = max(self.allowed, float(np.max(tol)))
        if bad.any():
            j = int(np.argmax(bad.reshape(-1)))
            self.info["worst"] = {
                "flat_index": j, "expected": float(np.asarray(expected).reshape(-1)[j]),
                "got": float(np.asarray(got, dtype=np.float64).reshape(-1)[j]),
                "allowed": float(np.broadcast_to(tol, d.shape).reshape(-1)[j]),
                "n_bad": int(bad.sum()), "n": int(d.size),
            }
            return False
        return True


def _classify_tri_mismatch(E, R, tol):
    """E, R (n,3,3) same shape but not equal in order: reordered faces / rotated corners / wrong."""
    n = len(E)
    if n == 0:
        return "coords_beyond_precision"
    for shift in (1, 2):
        if (np.abs(np.roll(R, shift, axis=1) - E) <= tol).all():
            return "corner_order_rotated"
    if (np.abs(R[:, ::-1] - E) <= tol).all():
        return "winding_reversed"
    if n <= 5000:
        from scipy.spatial import cKDTree

        tree = cKDTree(R.reshape(n, 9))
        _, idx = tree.query(E.reshape(n, 9))
        if (np.abs(R[idx] - E) <= tol).all() and len(np.unique(idx)) == n:
            return "faces_reordered"
    return "coords_beyond_precision"


# ----------------------------------------------------------------------------
# judges: pure functions (spec, fmt, export options, load options, route) -> Result


def _snapshot(obj):
    """cheap state fingerprint used next to spec.intact() for 'export never modifies'."""
    out = []
    try:
        out.append(obj.__hash__())
    except Exception:  # noqa
        out.append(None)
    vis = getattr(obj, "visual", None)
    if vis is not None:
        try:
            out.append(vis.__hash__())
        except Exception:  # noqa
            out.append(None)
        out.append(getattr(vis, "kind", None))
    return out


def judge_mesh(spec, fmt, eo, lo, route):
    res = Result()
    F = MESH_FORMATS.get(fmt, FMT_GENERIC)
    tmp = tempfile.mkdtemp(prefix="c08-") if route == "file" else None
    try:
        obj = spec.build()
        if spec.intact(obj):
            res.refused = "constructor_changed_input:" + spec.intact(obj)
            return res
        _prep(obj, eo)
        snap = _snapshot(obj)
        try:
            payload = do_export(obj, fmt, eo, route, tmp)
        except LibraryError as e:
            # "empty" is one of the geometries the property quantifies over: an exporter that
            # raises on it is judged like on any other mesh
            res.add(e.sym, {"error": str(e)})
            return res
        changed = spec.intact(obj) or (None if _snapshot(obj) == snap else "hash")
        if changed:
            res.add("export_modified_input:" + changed)
        lroute = route
        try:
            got = do_load(fmt, payload, lroute, lo)
        except LibraryError as e:
            res.add(e.sym, {"error": str(e)})
            return res
        inst, loops = instances_of(got)
        res.info["loaded_type"] = type(got).__name__
        res.info["self_loops"] = loops
        if spec.empty:
            n = sum(len(getattr(g, "faces", ())) for g, _ in inst)
            res.refused = "empty:exported_and_loaded:%s:faces=%d" % (type(got).__name__, n)
            if n:
                res.add("faces_from_nothing", {"faces": n})
            return res
        meshes = [(g, M) for g, M in inst if hasattr(g, "faces")]
        if len(meshes) != 1:
            res.add("geometry_count", {"instances": len(inst), "meshes": len(meshes), "type": type(got).__name__})
            return res
        g, M = meshes[0]
        RV = apply(M, np.asarray(g.vertices))
        RF = np.asarray(g.faces)
        E = spec.V[spec.F]
        if RF.ndim != 2 or RF.shape[1] != 3 or len(RF) != len(E):
            res.add("face_count", {"expected": len(E), "got": list(RF.shape)})
            return res
        if len(RF) and (RF.min() < 0 or RF.max() >= len(RV)):
            res.add("face_index_out_of_range", {"max": int(RF.max()), "vertices": len(RV)})
            return res
        R = RV[RF]
        tol = F["q"](eo)(E)
        forced_process = fmt == "dict64" and route != "load_dict"
        near_coincident = False
        if forced_process:
            # trimesh.load(<dict64>) cannot switch processing off: vertices closer than the
            # documented tol.merge = 1e-8 are merged, which moves a coordinate by up to that much
            # and gives the merged vertex one of the group's colours (legitimate, see C07)
            tol = np.maximum(tol, 1e-8)
            Vq = np.round(np.asarray(spec.V, dtype=np.float64) / 2e-8)
            near_coincident = len(np.unique(Vq, axis=0)) < len(Vq) or bool(getattr(spec, "coincident", False))
            if not near_coincident and len(spec.V) < 3000:
                from scipy.spatial import cKDTree

                near_coincident = len(cKDTree(np.asarray(spec.V, dtype=np.float64)).query_pairs(2e-8)) > 0
        if fmt == "dae":
            # load_collada does not forward `process`: every reloaded DAE mesh is built with the
            # default process=True, which merges vertices closer than tol.merge = 1e-8 (C07's
            # business, not a round trip question).  Only vertices that HAVE such a neighbour get
            # the merge distance as tolerance and their colours are not judged.
            Vd = np.asarray(spec.V, dtype=np.float64)
            close = np.zeros(len(Vd), dtype=bool)
            if 1 < len(Vd) < 5000:
                from scipy.spatial import cKDTree

                pairs = cKDTree(Vd).query_pairs(2e-8, output_type="ndarray")
                close[pairs.reshape(-1)] = True
                # ... also vertices that only become neighbours in the file: pycollada writes '%.7g' and
                # the loader reads float32 (1.00000012 and 1.0 are one number there) - thorough tier,
                # false alarm on vertex colours of the special-values class
                Vq = np.array([[float("%.7g" % x) for x in row] for row in Vd], dtype=np.float64).astype(np.float32).astype(np.float64)
                if np.isfinite(Vq).all():
                    pairs = cKDTree(Vq).query_pairs(2e-8, output_type="ndarray")
                    close[pairs.reshape(-1)] = True
            if close.any():
                tol = np.where(close[spec.F][:, :, None], np.maximum(tol, 2e-8), tol)
                near_coincident = forced_process = True
                res.info["dae_vertices_within_merge_distance"] = int(close.sum())
        if not res.coords(E, R, tol):
            # colours / attributes are no feature of a coordinate symptom
            res.add(_classify_tri_mismatch(E, R, tol), dict(res.info.get("worst", {})), feat="index=gt65535" if spec.big else "")
        res.info["vertex_count"] = (len(spec.V), len(RV))
        res.info["exact_f32"] = bool(np.array_equal(R, E.astype(np.float32).astype(np.float64)))
        # ---- colours
        carried = F["colors"](eo, lo)
        kind = getattr(g.visual, "kind", None)
        res.info["visual_kind"] = kind
        if spec.fc is not None and "face_rgba" in carried:
            ok = kind == "face" and np.array_equal(np.asarray(g.visual.face_colors), spec.fc)
            res.compared += spec.fc.size
            if not ok:
                res.add("face_colors_differ", {"kind": kind}, feat="colors=face")
        if spec.vc is not None and ({"vertex_rgba", "vertex_rgb"} & carried):
            if forced_process and near_coincident:
                res.info["skipped_colors"] = "%s forces process=True: coincident vertices are merged" % fmt
            else:
                ch = 4 if "vertex_rgba" in carried else 3
                ok = kind == "vertex" and len(np.asarray(g.visual.vertex_colors)) == len(RV)
                if ok:
                    gotc = np.asarray(g.visual.vertex_colors)[RF][..., :ch]
                    ok = np.array_equal(gotc, spec.vc[spec.F][..., :ch])
                res.compared += spec.vc.size
                if not ok:
                    res.add("vertex_colors_differ", {"kind": kind, "channels": ch}, feat="colors=vertex")
        return res
    finally:
        if tmp:
            shutil.rmtree(tmp, ignore_errors=True)


def judge_cloud(spec, fmt, eo, lo, route):
    res = Result()
    F = CLOUD_FORMATS.get(fmt)
    tmp = tempfile.mkdtemp(prefix="c08-") if route == "file" else None
    try:
        obj = spec.build()
        if spec.intact(obj):
            res.refused = "constructor_changed_input:" + spec.intact(obj)
            return res
        snap = _snapshot(obj)
        try:
            payload = do_export(obj, fmt, eo, route, tmp)
        except LibraryError as e:
            if F is None:
                res.refused = "cloud_unsupported:" + e.sym
            else:
                res.add(e.sym, {"error": str(e)})
            return res
        changed = spec.intact(obj) or (None if _snapshot(obj) == snap else "hash")
        if changed:
            res.add("export_modified_input:" + changed)
        lo = dict(lo)
        if F is not None and "lopts_for" in F:
            lo.update(F["lopts_for"](eo))
        try:
            got = do_load(fmt, payload, route, lo)
        except LibraryError as e:
            if F is None:
                res.refused = "cloud_unsupported:" + e.sym
            else:
                res.add(e.sym, {"error": str(e)})
            return res
        inst, _ = instances_of(got)
        res.info["loaded_type"] = type(got).__name__
        clouds = [(g, M) for g, M in inst if type(g).__name__ == "PointCloud"]
        if F is None:
            n = sum(len(g.vertices) for g, _ in clouds)
            res.refused = "cloud_unsupported:silent:points_back=%d_of_%d" % (n, len(spec.P))
            return res
        if len(clouds) != 1:
            res.add("geometry_count", {"instances": len(inst), "clouds": len(clouds), "type": type(got).__name__})
            return res
        g, M = clouds[0]
        R = apply(M, np.asarray(g.vertices))
        if R.shape != spec.P.shape:
            res.add("point_count", {"expected": len(spec.P), "got": list(R.shape)})
            return res
        tol = F["q"](eo)(spec.P)
        if not res.coords(spec.P, R, tol):
            sym = "coords_beyond_precision"
            if len(R) < 5000 and len(R) > 1:
                from scipy.spatial import cKDTree

                _, idx = cKDTree(R).query(spec.P)
                if (np.abs(R[idx] - spec.P) <= tol).all() and len(np.unique(idx)) == len(R):
                    sym = "points_reordered"
            res.add(sym, dict(res.info.get("worst", {})), feat="")
        carried = F["colors"](eo, lo)
        if spec.C is not None and carried:
            ch = 4 if "rgba" in carried else 3
            gc = np.asarray(g.colors)
            ok = gc.ndim == 2 and len(gc) == len(spec.C) and np.array_equal(gc[:, :ch], spec.C[:, :ch])
            res.compared += spec.C.size
            if not ok:
                res.add("point_colors_differ", {"shape": list(gc.shape), "channels": ch})
        return res
    finally:
        if tmp:
            shutil.rmtree(tmp, ignore_errors=True)


def _match_rows(E, tolE, R):
    """
    For every row of E (n,k) the index of an unused row of R within tolE elementwise, else -1.
    """
    n = len(E)
    idx = -np.ones(n, dtype=np.int64)
    if n == 0 or len(R) == 0:
        return idx, np.zeros(len(R), dtype=bool)
    from scipy.spatial import cKDTree

    tree = cKDTree(R)
    k = min(4, len(R))
    _, cand = tree.query(E, k=k)
    cand = cand.reshape(n, k)
    used = np.zeros(len(R), dtype=bool)
    for i in range(n):
        for j in cand[i]:
            if not used[j] and (np.abs(R[j] - E[i]) <= tolE[i]).all():
                idx[i] = j
                used[j] = True
                break
        if idx[i] < 0:
            # many coincident rows (repeated triangles): exhaustive search among the unused
            free = np.flatnonzero(~used)
            if len(free):
                ok = (np.abs(R[free] - E[i]) <= tolE[i]).all(axis=1)
                if ok.any():
                    j = free[int(np.argmax(ok))]
                    idx[i] = j
                    used[j] = True
    return idx, used


def judge_scene(spec, fmt, eo, lo, route):
    res = Result()
    F = SCENE_FORMATS[fmt]
    if F.get("svg"):
        return judge_scene_svg(spec, fmt, eo, lo, route)
    Q = F["q"](eo)
    Qloose = F["q_loose"](eo) if "q_loose" in F else None
    tmp = tempfile.mkdtemp(prefix="c08-") if route == "file" else None
    try:
        obj = spec.build()
        if spec.intact(obj):
            res.refused = "constructor_changed_input:" + spec.intact(obj)
            return res
        _prep_scene = [g.vertex_normals for g in obj.geometry.values() if eo.get("_prep") and hasattr(g, "faces")]  # noqa
        snap = [_snapshot(g) for g in obj.geometry.values()] + [obj.graph.__hash__()]
        try:
            payload = do_export(obj, fmt, eo, route, tmp)
        except LibraryError as e:
            res.add(e.sym, {"error": str(e)})
            return res
        changed = spec.intact(obj)
        if not changed and [_snapshot(g) for g in obj.geometry.values()] + [obj.graph.__hash__()] != snap:
            changed = "hash"
        if changed:
            res.add("export_modified_input:" + changed)
        try:
            got = do_load(fmt, payload, route, lo)
        except LibraryError as e:
            # a file the exporter wrote with two objects under one id (finding T4: a node named like
            # a geometry and having children) is refused by the 3MF loader since 7aee799 (an object
            # that contains itself): same mechanism, seen as a refusal instead of misplaced instances
            collides = fmt == "3mf" and any(f == "node=collides" for _, _, _, f in spec.instances())
            res.add(e.sym, {"error": str(e)}, feat="node=collides" if collides else None)
            return res
        inst, loops = instances_of(got)
        res.info["self_loops"] = loops
        res.info["loaded_instances"] = len(inst)
        # ---- reloaded primitives in world space
        RT, RP, RS = [], [], []
        for g, M in inst:
            tname = type(g).__name__
            if hasattr(g, "faces") and len(g.faces):
                RT.append(apply(M, np.asarray(g.vertices))[np.asarray(g.faces)].reshape(-1, 9))
            elif tname == "PointCloud":
                RP.append(apply(M, np.asarray(g.vertices)))
            elif hasattr(g, "entities"):
                V = apply(M, np.asarray(g.vertices))
                for e in g.entities:
                    P = V[np.asarray(e.points)]
                    keep = np.abs(P[1:] - P[:-1]).max(axis=1) > 0 if len(P) > 1 else np.zeros(0, dtype=bool)
                    if keep.any():
                        RS.append(np.stack([P[:-1][keep], P[1:][keep]], axis=1))
        RT = np.vstack(RT) if RT else np.zeros((0, 9))
        RP = np.vstack(RP) if RP else np.zeros((0, 3))
        RS = np.vstack(RS) if RS else np.zeros((0, 2, 3))
        used_T = np.zeros(len(RT), dtype=bool)
        used_P = np.zeros(len(RP), dtype=bool)
        exp_segs = []
        missing_faces = 0
        # ---- expected instances
        for node, gname, W, feat in spec.instances():
            gs = spec.geoms[gname]
            if gs.kind == "mesh":
                X = gs.V
                Wv = apply(W, X)
                found = False
                for Qi in (Q, Qloose):
                    if Qi is None:
                        continue
                    if F["graph"]:
                        tolv = world_tol(W, Qi(X), X)
                    else:
                        tolv = Qi(Wv) + 1e-12 * (np.abs(X) @ np.abs(W[:3, :3]).T + np.abs(W[:3, 3]))
                    E = Wv[gs.F].reshape(-1, 9)
                    T = tolv[gs.F].reshape(-1, 9)
                    variants = [(E, T)]
                    if not F["graph"] and np.linalg.det(W[:3, :3]) < 0:
                        # Scene.dump() re-winds mirrored instances: either corner order is the same triangle
                        variants.append((Wv[gs.F][:, ::-1].reshape(-1, 9), tolv[gs.F][:, ::-1].reshape(-1, 9)))
                    avail = RT[~used_T]
                    amap = np.flatnonzero(~used_T)
                    for Ev, T in variants:
                        idx, _ = _match_rows(Ev, T, avail)
                        if (idx >= 0).all():
                            used_T[amap[idx]] = True
                            d = np.abs(avail[idx] - Ev)
                            res.compared += d.size
                            res.err = max(res.err, float(d.max()) if d.size else 0.0)
                            if Qi is Q:
                                with np.errstate(divide="ignore", invalid="ignore"):
                                    rr = np.where(T > 0, d / np.where(T > 0, T, 1), 0.0)
                                res.ratio = max(res.ratio, float(rr.max()) if rr.size else 0.0)
                                res.allowed = max(res.allowed, float(T.max()) if T.size else 0.0)
                            found = True
                            break
                    if found:
                        if Qi is not Q:
                            # the instance is there, but only on the wider grid (see _ply_loose)
                            res.add("coords_beyond_precision", {"node": node, "geometry": gname, "max_err": res.err},
                                    feat="geom=mesh" + (" " + feat if "instances=one" in feat else ""))
                        break
                if not found:
                    missing_faces += len(gs.F)
                    res.add("instance_missing", {"node": node, "geometry": gname, "faces": len(gs.F)}, feat="geom=mesh " + feat)
            elif gs.kind == "pointcloud":
                if not F.get("clouds"):
                    continue
                Wv = apply(W, gs.P)
                tolv = world_tol(W, Q(gs.P), gs.P)
                avail = RP[~used_P]
                amap = np.flatnonzero(~used_P)
                idx, _ = _match_rows(Wv, tolv, avail)
                res.compared += Wv.size
                if (idx >= 0).all():
                    used_P[amap[idx]] = True
                else:
                    res.add("instance_missing", {"node": node, "geometry": gname}, feat="geom=pointcloud " + feat)
            else:
                if not F.get("paths"):
                    continue
                S = gs.segments()
                Wa, Wb = apply(W, S[:, 0]), apply(W, S[:, 1])
                exp_segs.append((np.stack([Wa, Wb], axis=1), W, S, gs))
        if exp_segs:
            ES = np.vstack([e[0] for e in exp_segs])
            tols = np.vstack([np.stack([world_tol(W, Q(S[:, 0]), S[:, 0]), world_tol(W, Q(S[:, 1]), S[:, 1])], axis=1)
                              for _, W, S, _ in exp_segs])
            def tol_fn(_x):
                return tols

            missing, extra, worst = segs_match(ES, RS, tol_fn)
            res.compared += ES.size
            res.err = max(res.err, worst)
            pf = "geom=%s %s" % (exp_segs[0][3].kind, exp_segs[0][3].entity_feature())
            if missing:
                res.add("segments_missing", {"missing": missing, "expected": len(ES), "got": len(RS)}, feat=pf)
            if extra:
                res.add("unexpected_segments", {"extra": extra, "expected": len(ES), "got": len(RS)}, feat=pf)
        collides = any(f == "node=collides" for _, _, _, f in spec.instances())
        if (~used_T).any() and (collides or int((~used_T).sum()) > missing_faces):
            # (reloaded triangles that the instances reported missing account for are those
            # instances, displaced: one event, reported once as instance_missing)
            res.add("unexpected_triangles", {"extra": int((~used_T).sum()), "reloaded": len(RT)},
                    feat="node=collides" if collides else None)
        if F.get("clouds") and (~used_P).any():
            res.add("unexpected_points", {"extra": int((~used_P).sum())})
        return res
    finally:
        if tmp:
            shutil.rmtree(tmp, ignore_errors=True)


def _path_primitives(p, M=None):
    """
    segments (n,2,3) and arc descriptors of a reloaded path (placed by the 4x4 matrix M of its
    node when that is not the identity), plus unknown entity types.
    """
    V = np.asarray(p.vertices, dtype=np.float64)
    if M is not None and V.ndim == 2 and not np.array_equal(M, I4):
        V = apply(M, V)[:, : V.shape[1]]  # (a drawing is placed by the planar part)
    segs, arcs, other = [], [], []
    for e in p.entities:
        name = type(e).__name__
        pts = np.asarray(e.points)
        if name == "Line":
            P = V[pts]
            for a, b in zip(P[:-1], P[1:]):
                if not np.array_equal(a, b):
                    segs.append((a, b))
        elif name == "Arc":
            arcs.append(arc_descriptor(V[pts], bool(e.closed)))
        else:
            other.append(name)
    return _segs_array(segs, V.shape[1] if V.ndim == 2 else 2), arcs, other


def _compare_paths(res, ES, EA, S, A, other, fmt, eo, scale, feat=None):
    """
    Expected segments ES / arc descriptors EA against the reloaded S / A through the quantiser of
    a path format; symptoms are added to `res` (with the feature override `feat`).
    """
    if other:
        res.add("unexpected_entity_type", {"types": sorted(set(other))}, feat=feat)
    qf, q_loose, arc_tol, circle_tol = _path_tols(fmt, eo, scale)
    _compare_paths_with(res, ES, EA, S, A, qf, q_loose, arc_tol, circle_tol, feat)


def _path_tols(fmt, eo, scale):
    """(segment quantiser, wider naming quantiser or None, arc tolerance or None, circle tolerance)"""
    circle_tol = q_loose = None
    if fmt == "dxf":
        qf = q_sig(12)
        arc_tol = 1e-9 * max(scale, 1e-3)
    elif fmt == "svg":
        D = eo.get("digits") or 13
        qf = lambda x: 0.5 * 10.0 ** (-D) * (1 + 1e-9) + 8 * ulp64(x) + 8 * ulp64(scale)  # noqa
        arc_tol = 1e-9 * max(scale, 1e-3) + 20 * 10.0 ** (-D)
        # a circle is written as two exact half turns with rounded radius / diameter: the
        # centre across the chord is only determined to sqrt(2 r 10^-D) by the file itself
        circle_tol = arc_tol + 4 * np.sqrt(2 * scale * 10.0 ** (-D))
    elif fmt == "ply":
        qf = _ply_q(eo)
        q_loose = _ply_loose(eo)
        arc_tol = None
    else:
        qf = q_generic
        arc_tol = 1e-5 * scale
    return qf, q_loose, arc_tol, circle_tol


def _drop_tiny(S, qf):
    """without the segments of zero length up to the format's precision (e.g. the closing `Z` of an SVG circle)"""
    if len(S) == 0:
        return S, 0
    tiny = (np.abs(S[:, 0] - S[:, 1]) <= 2 * qf(S[:, 0])).all(axis=1)
    return S[~tiny], int(tiny.sum())


def _compare_paths_with(res, ES, EA, S, A, qf, q_loose, arc_tol, circle_tol, feat):
    S, n_tiny = _drop_tiny(S, qf)
    res.info["degenerate_segments_ignored"] = n_tiny
    missing, extra, worst = segs_match(ES, S, qf)
    if (missing or extra) and q_loose is not None:
        m2, x2, w2 = segs_match(ES, S, q_loose)
        if not m2 and not x2:
            # every segment is there, but only on the wider grid (see _ply_loose)
            res.add("coords_beyond_precision", {"max_err": w2, "allowed": float(qf(ES).max()) if ES.size else 0.0}, feat=feat)
            missing = extra = 0
            worst = w2
    res.compared += ES.size
    res.err = max(res.err, worst)
    res.allowed = max(res.allowed, float(qf(ES).max()) if ES.size else 0.0)
    if missing:
        res.add("segments_missing", {"missing": missing, "expected": len(ES), "got": len(S)}, feat=feat)
    if extra:
        res.add("unexpected_segments", {"extra": extra, "expected": len(ES), "got": len(S)}, feat=feat)
    if arc_tol is not None:
        am, ax = arcs_match(EA, A, arc_tol, circle_tol if circle_tol is not None else arc_tol)
        res.compared += 9 * len(EA)
        if am:
            res.add("arcs_missing", {"missing": am, "expected": len(EA), "got": len(A)}, feat=feat)
        if ax:
            res.add("unexpected_arcs", {"extra": ax, "expected": len(EA), "got": len(A)}, feat=feat)


def judge_path(spec, fmt, eo, lo, route):
    res = Result()
    tmp = tempfile.mkdtemp(prefix="c08-") if route == "file" else None
    try:
        obj = spec.build()
        if spec.intact(obj):
            res.refused = "constructor_changed_input:" + spec.intact(obj)
            return res
        snap = obj.__hash__()
        try:
            payload = do_export(obj, fmt, eo, route, tmp)
        except LibraryError as e:
            res.add(e.sym, {"error": str(e)})
            return res
        changed = spec.intact(obj) or (None if obj.__hash__() == snap else "hash")
        if changed:
            res.add("export_modified_input:" + changed)
        import trimesh

        try:
            if fmt == "dict":
                from trimesh.path.exchange.misc import dict_to_path

                kw = dict_to_path(payload[1])
                kw["process"] = False  # load_path(dict) takes every constructor argument from the dict
                got = trimesh.load_path(kw)
            else:
                got = do_load(fmt, payload, route, lo)
        except LibraryError as e:
            res.add(e.sym, {"error": str(e)})
            return res
        except Exception as e:  # noqa
            le = LibraryError("load", e)
            res.add(le.sym, {"error": str(le)})
            return res
        inst, _ = instances_of(got)
        paths = [(g, M) for g, M in inst if hasattr(g, "entities")]
        res.info["loaded_type"] = type(got).__name__
        if len(paths) != 1:
            res.add("geometry_count", {"instances": len(inst), "paths": len(paths), "type": type(got).__name__})
            return res
        g, M = paths[0]
        dim = np.asarray(g.vertices).shape[1] if np.asarray(g.vertices).ndim == 2 else 0
        if dim != spec.V.shape[1]:
            res.add("dimension_changed", {"expected": spec.V.shape[1], "got": dim})
            return res
        if fmt == "dict":
            # lossless structure: same vertices bit for bit, same entities in the same order
            res.compared += spec.V.size
            if not np.array_equal(np.asarray(g.vertices), spec.V):
                res.add("vertices_differ")
            bad = spec.intact(g)
            if bad:
                res.add("entities_differ:" + bad)
            return res
        S, A, other = _path_primitives(g, M)
        ES, EA = spec.segments(), spec.arcs()
        scale = float(np.abs(spec.V).max()) if spec.V.size else 1.0
        _compare_paths(res, ES, EA, S, A, other, fmt, eo, scale)
        return res
    finally:
        if tmp:
            shutil.rmtree(tmp, ignore_errors=True)


def judge_scene_svg(spec, fmt, eo, lo, route):
    """
    A scene of Path2D drawings -> svg -> whatever comes back.  Expected: every instance of every
    drawing, placed by the product of the spec's own (planar) matrices, as segments and arcs in
    the sheet; reloaded: all paths of the reloaded object, placed by an own walk of its graph.
    """
    res = Result()
    tmp = tempfile.mkdtemp(prefix="c08-") if route == "file" else None
    try:
        obj = spec.build()
        if spec.intact(obj):
            res.refused = "constructor_changed_input:" + spec.intact(obj)
            return res
        snap = [g.__hash__() for g in obj.geometry.values()] + [obj.graph.__hash__()]
        try:
            payload = do_export(obj, fmt, eo, route, tmp)
        except LibraryError as e:
            res.add(e.sym, {"error": str(e)})
            return res
        changed = spec.intact(obj)
        if not changed and [g.__hash__() for g in obj.geometry.values()] + [obj.graph.__hash__()] != snap:
            changed = "hash"
        if changed:
            res.add("export_modified_input:" + changed)
        try:
            got = do_load(fmt, payload, route, lo)
        except LibraryError as e:
            res.add(e.sym, {"error": str(e)})
            return res
        inst, _ = instances_of(got)
        res.info["loaded_type"] = type(got).__name__
        res.info["loaded_instances"] = len(inst)
        S, A, other = [], [], []
        for g, M in inst:
            if not hasattr(g, "entities"):
                continue
            s1, a1, o1 = _path_primitives(g, M)
            S.append(s1)
            A.extend(a1)
            other.extend(o1)
        S = np.vstack(S) if S else np.zeros((0, 2, 3))
        if other:
            res.add("unexpected_entity_type", {"types": sorted(set(other))}, feat="geom=path2d")
        placed = []
        for node, gname, W, feat in spec.instances():
            gs = spec.geoms[gname]
            placed.append((node, gname, feat, PathSpec(gs.cls, gs.gseed, apply(W, gs.V)[:, :2], gs.entities)))
        scale = max([1.0] + [float(np.abs(p.V).max()) for _, _, _, p in placed])
        qf, _, arc_tol, circle_tol = _path_tols(fmt, eo, scale)
        S, n_tiny = _drop_tiny(S, qf)
        res.info["degenerate_segments_ignored"] = n_tiny
        # instances never coincide (random planar placements), so each one is looked up among
        # ALL reloaded primitives; what no instance accounts for is judged at the end
        lost_segs = lost_arcs = 0
        for node, gname, feat, pl in placed:
            ES, EA = pl.segments(), pl.arcs()
            missing, _, worst = segs_match(ES, S, qf)
            am, _ = arcs_match(EA, A, arc_tol, circle_tol if circle_tol is not None else arc_tol)
            res.compared += ES.size + 9 * len(EA)
            if missing or am:
                lost_segs += len(ES)
                lost_arcs += len(EA)
                res.add("instance_missing", {"node": node, "geometry": gname, "segments_missing": missing, "arcs_missing": am},
                        feat="geom=path2d " + feat)
            else:
                res.err = max(res.err, worst)
                res.allowed = max(res.allowed, float(qf(ES).max()) if ES.size else 0.0)
        ES = np.vstack([pl.segments() for _, _, _, pl in placed]) if placed else np.zeros((0, 2, 3))
        EA = [a for _, _, _, pl in placed for a in pl.arcs()]
        _, extra, _ = segs_match(ES, S, qf)
        _, ax = arcs_match(EA, A, arc_tol, circle_tol if circle_tol is not None else arc_tol)
        # (reloaded primitives that the instances reported missing account for are those
        # instances, displaced: one event, reported once)
        if extra > lost_segs:
            res.add("unexpected_segments", {"extra": extra, "expected": len(ES), "got": len(S)}, feat="geom=path2d")
        if ax > 2 * lost_arcs:  # (a circle comes back as two half turns)
            res.add("unexpected_arcs", {"extra": ax, "expected": len(EA), "got": len(A)}, feat="geom=path2d")
        return res
    finally:
        if tmp:
            shutil.rmtree(tmp, ignore_errors=True)


def judge_voxel(spec, fmt, eo, lo, route):
    res = Result()
    obj = spec.build()
    if spec.intact(obj):
        res.refused = "constructor_changed_input:" + spec.intact(obj)
        return res
    n = min(spec.mat.shape)
    representable = spec.extent_pattern in (None, "uniform")
    try:
        data = obj.export(file_type=fmt, **eo)
    except Exception as e:  # noqa
        if not representable and isinstance(e, ValueError) and "uniform scale" in str(e):
            # the format stores ONE scale: the exporter's documented, loud refusal of a grid
            # whose extents differ (export_binvox: "Can only export binvox with uniform scale")
            res.refused = "voxel_extent_not_uniform:refused_by_exporter"
            return res
        res.add(LibraryError("export", e).sym, {"error": str(e)[:200]})
        return res
    if not representable:
        # it was written all the same: the cells have to be where they were
        res.info["nonuniform_extent_exported"] = True
    changed = spec.intact(obj)
    if changed:
        res.add("export_modified_input:" + changed)
    import trimesh

    kw = dict(lo)
    if "axis_order" in eo:
        kw["axis_order"] = eo["axis_order"]
    try:
        fn = getattr(trimesh, route)
        got = fn(io.BytesIO(data), file_type=fmt, **kw)
    except Exception as e:  # noqa
        res.add(LibraryError("load", e).sym, {"error": str(e)[:200]})
        return res
    inst, _ = instances_of(got)
    grids = [g for g, _ in inst if type(g).__name__ == "VoxelGrid"]
    res.info["loaded_type"] = type(got).__name__
    if len(grids) != 1:
        res.add("geometry_count", {"instances": len(inst), "grids": len(grids), "type": type(got).__name__})
        return res
    g = grids[0]
    rm = np.asarray(g.encoding.dense)
    rT = np.asarray(g.transform, dtype=np.float64)
    if rm.shape != spec.mat.shape:
        res.add("grid_shape", {"expected": list(spec.mat.shape), "got": list(rm.shape)})
        return res
    res.compared += rm.size
    if n == 1:
        # the format stores the extent between the first and the last cell centre (zero for one
        # cell): the pitch cannot be carried.  Only occupancy is judged.
        if not np.array_equal(rm, spec.mat):
            res.add("cells_differ")
        res.refused = "voxel_n1_pitch_not_representable"
        return res
    if not spec.mirror:
        if not np.array_equal(rm, spec.mat):
            k = "cells_transposed" if np.array_equal(rm.transpose(0, 2, 1), spec.mat) else "cells_differ"
            res.add(k, {"filled": [int(spec.mat.sum()), int(rm.sum())]})
    # world positions of the filled cells (exact format: allow 4 ulp of the coordinates' scale)
    P0 = spec.points()
    P1 = apply(rT, np.argwhere(rm).astype(np.float64))
    if len(P0) != len(P1):
        if spec.mirror:
            res.add("cells_differ", {"filled": [len(P0), len(P1)]})
        return res
    scale = np.abs(spec.origin).max() + float((spec.pitchv * np.array(spec.mat.shape)).max())
    tol = np.full(P0.shape, 8 * np.spacing(scale))
    if len(P0):
        k0 = np.lexsort(np.round(P0 / spec.pitchv * 4).T)
        k1 = np.lexsort(np.round(P1 / spec.pitchv * 4).T)
        if not res.coords(P0[k0], P1[k1], tol):
            res.add("cells_misplaced", dict(res.info.get("worst", {})))
    else:
        # no filled cell: compare the lattice itself
        if not res.coords(spec.T[:3] if not spec.mirror else np.abs(spec.T[:3, :3]), rT[:3] if not spec.mirror else np.abs(rT[:3, :3]),
                          np.full((3, 4) if not spec.mirror else (3, 3), 8 * np.spacing(scale))):
            res.add("lattice_differs")
    return res


JUDGES = {"mesh": judge_mesh, "pointcloud": judge_cloud, "scene": judge_scene, "path2d": judge_path, "path3d": judge_path, "voxel": judge_voxel}


# ----------------------------------------------------------------------------
# recording, minimisation of the failing configuration, keys

DEFAULT_ROUTE = "load"
_TABLE = {}  # cell -> [max err, allowed at max, max ratio, n]


def _candidates(eo, lo, route):
    """smaller configurations to try before blaming (eo, lo, route), smallest first."""
    out = [({}, {}, DEFAULT_ROUTE)]
    for k in sorted(eo):
        out.append(({k: eo[k]}, {}, DEFAULT_ROUTE))
    for k in sorted(lo):
        out.append(({}, {k: lo[k]}, DEFAULT_ROUTE))
    if route != DEFAULT_ROUTE:
        out.append(({}, {}, route))
    out.append((eo, {}, DEFAULT_ROUTE))
    out.append(({}, lo, DEFAULT_ROUTE))
    out.append((eo, lo, DEFAULT_ROUTE))
    out.append((eo, {}, route))
    seen, uniq = set(), []
    for c in out:
        key = repr(c)
        if key not in seen and c != (eo, lo, route):
            seen.add(key)
            uniq.append(c)
    return uniq


def _valid_config(spec, fmt, eo, lo, route):
    # xyz with a ';' delimiter needs the loader told about it; gltf etc. are fine
    if route == "load_dict" and fmt not in ("dict", "dict64"):
        return False
    return True


def minimise(spec, fmt, eo, lo, route, sym, feat):
    judge = JUDGES[spec.kind]
    for ceo, clo, croute in _candidates(eo, lo, route):
        if not _valid_config(spec, fmt, ceo, clo, croute):
            continue
        try:
            r = judge(spec, fmt, ceo, clo, croute)
        except Exception:  # noqa
            continue
        if any(s == sym and f == feat for s, f, _ in r.symptoms):
            return ceo, clo, croute
    return eo, lo, route


def make_key(spec, fmt, eo, lo, route, sym, feat):
    parts = ["fmt=%s" % fmt, "kind=%s" % spec.kind, feat if feat is not None else spec.features()]
    o = opt_str(eo, lo)
    if o != "default":
        parts.append("opt=%s" % o)
    if route != DEFAULT_ROUTE:
        parts.append("route=%s" % route)
    parts.append("sym=%s" % sym)
    return " ".join(p for p in parts if p)


_WHAT = {
    "export_raised": "the exporter raises on a geometry of a kind it accepts",
    "load_raised": "the exported bytes cannot be loaded back",
    "coords_beyond_precision": "reloaded coordinates differ from the exported ones by more than the precision the format stores",
    "faces_reordered": "reloaded triangles are the exported ones in a different order",
    "corner_order_rotated": "reloaded triangles have their corners rotated",
    "winding_reversed": "reloaded triangles have reversed winding",
    "face_count": "number of triangles changed",
    "geometry_count": "the reloaded object does not hold exactly one geometry of the exported kind",
    "face_colors_differ": "face colours are not the exported ones although the format carries them",
    "vertex_colors_differ": "vertex colours are not the exported ones although the format carries them",
    "point_colors_differ": "point colours are not the exported ones although the format carries them",
    "instance_missing": "a scene instance is not at its world placement after the round trip",
    "unexpected_triangles": "the reloaded scene has triangles no exported instance accounts for",
    "unexpected_segments": "the reloaded path has segments the exported one did not have",
    "segments_missing": "segments of the exported path are missing after the round trip",
    "arcs_missing": "arcs of the exported path are missing / different after the round trip",
    "cells_misplaced": "filled voxel centres move in world space",
    "cells_differ": "voxel occupancy changed",
    "export_modified_input": "export() modified the object being exported",
}


def observe(run, spec, fmt, eo, lo, route, record=True):
    """Run one round trip, record it, report violations.  Returns the Result."""
    judge = JUDGES[spec.kind]
    res = judge(spec, fmt, eo, lo, route)
    o = opt_str(eo, lo)
    tag = "%s:%s" % (spec.kind, fmt)
    if not record:
        return res
    nontrivial = (not spec.empty) and (res.compared > 0 or bool(res.symptoms)) and res.refused is None
    run.case(tag, fmt, o, route, spec.cls, spec.colors, spec.gseed, nontrivial=nontrivial,
             sample={"gen": spec.gen(), "fmt": fmt, "eo": _j(eo), "lo": lo, "route": route,
                     "max_err": res.err, "allowed": res.allowed} if nontrivial else None)
    run.count("round_trips")
    run.count("elements_compared", res.compared)
    run.state("cell", (fmt, o, spec.kind, spec.cls))
    run.state("route", (spec.kind, fmt, route))
    if "loaded_type" in res.info:
        run.state("loaded_type", (spec.kind, fmt, route, res.info["loaded_type"]))
    if "visual_kind" in res.info:
        run.state("colour_carriage", (fmt, o if "encoding" in o or "include_color" in o else "", spec.colors, str(res.info["visual_kind"])))
    if res.info.get("self_loops"):
        run.count("reloaded_graph_self_loops")
    if "exact_f32" in res.info and res.info["exact_f32"]:
        run.count("reload_equals_float32_of_input")
    if "vertex_count" in res.info:
        a, b = res.info["vertex_count"]
        run.state("vertex_count", (fmt, "same" if a == b else ("fewer" if b < a else "more")))
    if "skipped_colors" in res.info:
        run.skip(res.info["skipped_colors"])
    if res.refused:
        run.skip("%s %s %s" % (spec.kind, fmt, res.refused.split(":faces=")[0]))
        run.state("refused", (spec.kind, fmt, res.refused[:80]))
    if res.compared and not res.symptoms:
        cell = "%s|%s|%s:%s" % (fmt, opt_str({k: v for k, v in eo.items() if not k.startswith("_")}, {}), spec.kind, spec.cls)
        t = _TABLE.setdefault(cell, [0.0, 0.0, 0.0, 0])
        if res.err >= t[0]:
            t[0], t[1] = res.err, res.allowed
        t[2] = max(t[2], res.ratio if np.isfinite(res.ratio) else 0.0)
        t[3] += 1
        b = "exact" if res.err == 0 else ("<=0.5" if res.ratio <= 0.5 else "<=1")
        run.state("precision_used", (fmt, o, spec.kind, b))
    for sym, feat, detail in res.symptoms:
        meo, mlo, mroute = minimise(spec, fmt, eo, lo, route, sym, feat) if (eo or lo or route != DEFAULT_ROUTE) else (eo, lo, route)
        key = make_key(spec, fmt, meo, mlo, mroute, sym, feat)
        what = _WHAT.get(sym.split(":")[0], sym)
        run.violation(key, "%s [%s %s]" % (what, fmt, spec.kind),
                      {"gen": spec.gen(), "fmt": fmt, "eo": _j(meo), "lo": mlo, "route": mroute,
                       "observed_with": {"eo": _j(eo), "lo": lo, "route": route}, "sym": sym, "detail": detail,
                       "max_err": res.err, "allowed": res.allowed})
    return res


def _j(eo):
    return {k: (v if isinstance(v, (bool, int, float, str)) or v is None else repr(v)) for k, v in eo.items()}


# ----------------------------------------------------------------------------
# workload


def registries(run):
    """Enumerate exporter / loader registries; returns dict of usable format lists."""
    import trimesh  # noqa
    from trimesh.exceptions import ExceptionWrapper
    from trimesh.exchange import export as ex
    from trimesh.exchange import load as ld
    from trimesh.path.exchange import export as pex
    from trimesh.path.exchange import load as pld

    def ok(d):
        return {k for k, v in d.items() if not isinstance(v, ExceptionWrapper)}

    mesh_exp, mesh_load = ok(ex._mesh_exporters), ok(ld.mesh_loaders)
    path_exp, path_load = ok(pex._path_exporters), ok(pld.path_loaders)
    vox_load = ok(ld.voxel_loaders)
    special_load = {"dict", "dict64"}  # reloaded by handing the dict back (no file_type route)
    mesh_fmts = sorted(f for f in mesh_exp if f in mesh_load or f in special_load)
    for f in sorted(set(ex._mesh_exporters) - set(mesh_fmts)):
        run.skip("mesh exporter without usable loader: " + f)
    no_exp = sorted((mesh_load | set(ld.mesh_loaders)) - mesh_exp)
    run.note("mesh_loaders_without_exporter", no_exp)
    for f in no_exp:
        run.count("skipped_loader_without_exporter")
    path_fmts = sorted(f for f in path_exp if f in path_load or f in ("dict", "ply"))
    for f in sorted(path_exp - set(path_fmts)):
        run.skip("path exporter without loader: " + f)
    run.note("path_loaders_without_exporter", sorted(path_load - path_exp))
    vox_fmts = sorted(f for f in vox_load if f == "binvox")  # VoxelGrid.export only knows binvox
    run.note("voxel_loaders_without_exporter", sorted(vox_load - {"binvox"}))
    unknown = [f for f in mesh_fmts if f not in MESH_FORMATS and f not in ("xyz",)]
    if unknown:
        run.note("formats_judged_with_generic_quantiser", unknown)
    run.note("mesh_formats", mesh_fmts)
    run.note("path_formats", path_fmts)
    scene_fmts = [f for f in SCENE_FORMATS if f in mesh_exp and (f in mesh_load or f in special_load)]
    if "svg" in path_exp and "svg" in path_load:
        scene_fmts.append("svg")  # export_scene -> svg_io.export_svg (Scene branch)
    return {"mesh": mesh_fmts, "path": path_fmts, "voxel": vox_fmts, "scene": scene_fmts}


def scene_classes_for(fmt):
    """scene classes a scene format is asked to carry"""
    F = SCENE_FORMATS[fmt]
    if F.get("svg"):
        return list(SVG_SCENE_CLASSES)
    out = []
    for c in SCENE_CLASSES:
        if c == "with_cloud" and not F.get("clouds"):
            continue
        if c in ("with_path", "with_path2d") and not F.get("paths"):
            continue
        if c in TINY_CLASSES and fmt == "dict64":
            # trimesh.load(<dict64>) cannot switch processing off: a part of size 1e-9 is merged
            # into one vertex (tol.merge = 1e-8) and nothing is left to compare
            continue
        out.append(c)
    return out


def enumerated_jobs(reg, tier):
    """Deterministic (seed independent) list of jobs: (gen dict, fmt, eo, lo, route)."""
    jobs = []
    reps = 1 if tier == "quick" else 3

    def mesh(cls, colors, k, fmt, eo=None, lo=None, route="load"):
        jobs.append(({"kind": "mesh", "cls": cls, "colors": colors, "gseed": stable_seed(cls, colors, k)}, fmt, eo or {}, lo or {}, route))

    mesh_fmts = [f for f in reg["mesh"] if f != "xyz"]
    core = ("single_face", "soup_int", "soup_unit", "mag_mixed", "special_values", "seam", "degenerate")
    for k in range(reps):
        # A: every format x core classes x colours, defaults
        for fmt in mesh_fmts:
            for cls in core:
                for colors in ("none", "face", "vertex"):
                    mesh(cls, colors, k, fmt)
        # B: options
        for fmt in mesh_fmts:
            F = MESH_FORMATS.get(fmt, FMT_GENERIC)
            combos = [(eo, {}) for eo in F["eopts"][1:]] + [({}, lo) for lo in F["lopts"][1:]]
            for eo, lo in combos:
                for cls in ("soup_unit", "mag_mixed", "attrs"):
                    for colors in ("none", "face", "vertex"):
                        mesh(cls, colors, k, fmt, eo, lo)
        # C: routes
        for fmt in mesh_fmts:
            routes = ["load_mesh", "load_scene"]
            if fmt not in ("dict", "dict64", "stl_ascii"):
                routes.append("file")
            if fmt in ("dict", "dict64"):
                routes.append("load_dict")
            for route in routes:
                for cls, colors in (("soup_unit", "none"), ("seam", "vertex"), ("soup_int", "face")):
                    mesh(cls, colors, k, fmt, route=route)
        # D: magnitudes and odd classes
        for fmt in mesh_fmts:
            for cls in ("mag_1e-3", "mag_1e3", "mag_1e6", "unreferenced", "attrs", "mag_1e-9"):
                mesh(cls, "none", k, fmt)
            mesh("mag_1e6", "vertex", k, fmt)
    # E: index width
    for fmt in mesh_fmts:
        mesh("big_sparse", "vertex" if fmt in ("ply", "glb", "dict64") else "none", 0, fmt)
    for fmt in mesh_fmts:
        if fmt == "ply":
            mesh("big_sparse", "face", 0, fmt, {"encoding": "ascii"})
        if fmt == "gltf":
            mesh("big_sparse", "none", 0, fmt, {"merge_buffers": True})
    big_full = [f for f in mesh_fmts if f in ("stl", "ply", "glb")] if tier == "quick" else [f for f in mesh_fmts if f not in ("dae",)]
    for fmt in big_full:
        mesh("big_grid", "face" if fmt == "ply" else "none", 0, fmt)
    # F: empty, and vertices without a face, with every export option
    for fmt in mesh_fmts:
        for eo in MESH_FORMATS.get(fmt, FMT_GENERIC)["eopts"]:
            if eo.get("_prep") or eo.get("vertex_normal") or eo.get("include_normals"):
                continue  # (normals of nothing: not a geometry question)
            mesh("empty", "none", 0, fmt, eo)
            mesh("points_only", "none", 0, fmt, eo)

    # ---- point clouds: every mesh exporter sees a cloud once (unsupported ones are counted)
    def cloud(cls, colors, k, fmt, eo=None, lo=None, route="load"):
        jobs.append(({"kind": "pointcloud", "cls": cls, "colors": colors, "gseed": stable_seed(cls, colors, k)}, fmt, eo or {}, lo or {}, route))

    for fmt in reg["mesh"]:
        if fmt in CLOUD_FORMATS:
            for k in range(reps):
                for eo in CLOUD_FORMATS[fmt]["eopts"]:
                    for cls in CLOUD_CLASSES:
                        if cls == "large" and eo:
                            continue
                        for colors in ("none", "rgba"):
                            cloud(cls, colors, k, fmt, eo)
                for route in ("load_scene", "file"):
                    cloud("medium", "rgba", k, fmt, route=route)
        else:
            cloud("few", "rgba", 0, fmt)

    # ---- scenes
    def scene(cls, k, fmt, eo=None, lo=None, route="load"):
        jobs.append(({"kind": "scene", "cls": cls, "gseed": stable_seed(cls, k)}, fmt, eo or {}, lo or {}, route))

    for k in range(reps * 2):
        for fmt in reg["scene"]:
            F = SCENE_FORMATS[fmt]
            for cls in scene_classes_for(fmt):
                for eo in F["eopts"] if k == 0 else F["eopts"][:1]:
                    scene(cls, k, fmt, eo)
            if F.get("svg"):
                if k == 0:
                    scene("drawings_instanced", k, fmt, route="load_path")
                    scene("drawings_nested", k, fmt, route="file")
                continue
            if k == 0:
                for route in ("load_scene", "load_mesh") + (("file",) if fmt not in ("dict", "dict64") else ()):
                    scene("nested_similarity", k, fmt, route=route)

    # ---- paths
    def path(cls, k, fmt, eo=None, route="load"):
        jobs.append(({"kind": "path", "cls": cls, "gseed": stable_seed(cls, k)}, fmt, eo or {}, {}, route))

    for k in range(reps * 2):
        for fmt in reg["path"]:
            F = PATH_FORMATS.get(fmt)
            if F is None:
                continue
            classes = []
            if 2 in F["dims"]:
                classes += list(PATH2D_CLASSES)
            if 3 in F["dims"]:
                classes += [c for c in PATH3D_CLASSES if F["arcs"] or c != "arcs3d"]
            if F.get("curves"):
                classes += list(PATH2D_CURVE_CLASSES) + list(PATH3D_CURVE_CLASSES)
            for cls in classes:
                for eo in F["eopts"] if k == 0 else F["eopts"][:1]:
                    path(cls, k, fmt, eo)
                if k == 0 and fmt != "dict":
                    path(cls, k, fmt, route="load_path")
            if k == 0 and fmt != "dict":
                path(classes[0], k, fmt, route="load_scene")
                path(classes[-1], k, fmt, route="file")

    # ---- voxels
    for k in range(reps * 2):
        for fmt in reg["voxel"]:
            for cls in VOXEL_CLASSES:
                for eo in ({}, {"axis_order": "xyz"}, {"axis_order": "xzy"}):
                    jobs.append(({"kind": "voxel", "cls": cls, "gseed": stable_seed(cls, k)}, fmt, eo, {}, "load"))
            if k == 0:
                jobs.append(({"kind": "voxel", "cls": "n5", "gseed": 7}, fmt, {}, {}, "load_scene"))
    return jobs


def _interleave(jobs):
    """round-robin over kinds so that a budget cut still leaves every kind observed."""
    by = {}
    for j in jobs:
        by.setdefault(j[0]["kind"], []).append(j)
    out, lists = [], [by[k] for k in sorted(by)]
    total = sum(len(x) for x in lists)
    pos = [0] * len(lists)
    # proportional interleave
    for i in range(total):
        best, bi = None, None
        for li, L in enumerate(lists):
            if pos[li] < len(L):
                frac = pos[li] / len(L)
                if best is None or frac < best:
                    best, bi = frac, li
        out.append(lists[bi][pos[bi]])
        pos[bi] += 1
    return out


def random_job(run, reg):
    r = run.pyrng
    gseed = int(run.rng.integers(2**31 - 1))
    kind = r.choices(["mesh", "pointcloud", "scene", "path", "voxel"], [10, 2, 4, 2, 1])[0]
    if kind == "mesh":
        fmt = r.choice([f for f in reg["mesh"] if f != "xyz"])
        F = MESH_FORMATS.get(fmt, FMT_GENERIC)
        cls = r.choice([c for c in MESH_CLASSES if not c.startswith("big") and c not in ("empty", "points_only")])
        colors = r.choice(["none", "face", "vertex"])
        eo = dict(r.choice(F["eopts"]))
        lo = dict(r.choice(F["lopts"]))
        routes = ["load", "load", "load_mesh", "load_scene"]
        if fmt in ("dict", "dict64"):
            routes.append("load_dict")
        elif fmt != "stl_ascii":
            routes.append("file")
        if fmt in ("off", "obj") and r.random() < 0.5:
            eo["digits"] = r.randint(0, 15)
        return {"kind": "mesh", "cls": cls, "colors": colors, "gseed": gseed}, fmt, eo, lo, r.choice(routes)
    if kind == "pointcloud":
        fmt = r.choice([f for f in reg["mesh"] if f in CLOUD_FORMATS])
        eo = dict(r.choice(CLOUD_FORMATS[fmt]["eopts"]))
        return ({"kind": "pointcloud", "cls": r.choice(CLOUD_CLASSES[:-1]), "colors": r.choice(["none", "rgba"]), "gseed": gseed},
                fmt, eo, {}, r.choice(["load", "load_scene"]))
    if kind == "scene":
        fmt = r.choice(reg["scene"])
        F = SCENE_FORMATS[fmt]
        cls = r.choice(scene_classes_for(fmt) + ([] if F.get("svg") else ["random"] * 4))
        if F.get("svg") and r.random() < 0.5:
            return {"kind": "scene", "cls": cls, "gseed": gseed}, fmt, {"digits": r.randint(6, 14)}, {}, r.choice(["load", "load_path"])
        return {"kind": "scene", "cls": cls, "gseed": gseed}, fmt, dict(r.choice(F["eopts"])), {}, r.choice(["load", "load_scene"])
    if kind == "path":
        fmt = r.choice([f for f in reg["path"] if f in PATH_FORMATS])
        F = PATH_FORMATS[fmt]
        classes = (list(PATH2D_CLASSES) if 2 in F["dims"] else []) + ([c for c in PATH3D_CLASSES if F["arcs"] or c != "arcs3d"] if 3 in F["dims"] else [])
        if F.get("curves"):
            classes += list(PATH2D_CURVE_CLASSES) + list(PATH3D_CURVE_CLASSES)
        eo = dict(r.choice(F["eopts"]))
        if fmt == "svg" and r.random() < 0.5:
            eo["digits"] = r.randint(4, 14)
        return {"kind": "path", "cls": r.choice(classes), "gseed": gseed}, fmt, eo, {}, "load" if fmt == "dict" else r.choice(["load", "load_path"])
    fmt = r.choice(reg["voxel"])
    return {"kind": "voxel", "cls": r.choice(VOXEL_CLASSES), "gseed": gseed}, fmt, r.choice([{}, {"axis_order": "xyz"}]), {}, "load"


def _run_job(run, job):
    gen, fmt, eo, lo, route = job
    try:
        spec = make_spec(gen)
        observe(run, spec, fmt, eo, lo, route)
    except (MemoryError, KeyboardInterrupt):
        raise
    except Exception as e:  # noqa: a bug of this monitor must never look like "held"
        import traceback

        run.inconclusive("monitor error in %s/%s: %s: %s | %s" % (
            gen.get("kind"), fmt, type(e).__name__, str(e)[:120], traceback.format_exc().strip().splitlines()[-2][:160]))


def workload(run):
    reg = registries(run)
    jobs = _interleave(enumerated_jobs(reg, run.tier))
    run.note("enumerated_jobs", len(jobs))
    done = 0
    for i, job in enumerate(jobs):
        if not run.mine(i):
            continue
        if run.out_of_time(0.8):
            run.count("enumerated_jobs_cut_by_budget", len(jobs) - i)
            break
        _run_job(run, job)
        done += 1
    run.count("enumerated_jobs_run", done)
    n = 0
    while not run.out_of_time(0.93):
        _run_job(run, random_job(run, reg))
        n += 1
        if run.tier == "quick" and n >= 2500:
            break
    run.count("sampled_jobs_run", n)
    table = {}
    for cell, (err, allowed, ratio, cnt) in sorted(_TABLE.items()):
        table[cell] = "max_err=%.3g allowed=%.3g max_ratio=%.3g n=%d" % (err, allowed, ratio, cnt)
    run.note("precision_table(format|options|kind:class)", table)


def replay(run, case):
    gen = case["gen"]
    spec = make_spec(gen)
    eo = {k: (zipfile.ZIP_STORED if k == "compression" else v) for k, v in (case.get("eo") or {}).items()}
    observe(run, spec, case["fmt"], eo, case.get("lo") or {}, case.get("route", "load"))
